"""C01 — FileSet.find returns exactly the files that overlap the requested period.

Decided by: theorems in lean/find/Proofs/Props/C01.lean about the hand-written model
lean/find/Model/{Time,Find}.lean + correspondence of the model's executable definitions
(driver drv_c01) with typhon.files.FileSet.find / __contains__ / __len__ on real directory
trees created by this harness + an independent brute-force oracle (Python datetime
comparisons over the harness's own list of created files).
"""
import datetime as dt
import json
import os
import shutil
import tempfile

import vlib
from props import findgen as G

PROP = "C01"
LEMMAS = ["Proofs/Lemmas/Time.lean", "Proofs/Lemmas/Find.lean", "Proofs/Lemmas/Spec.lean"]
MODELS = ["Model/Time.lean", "Model/Find.lean"]
FREQ_US = {"1h": 3600_000_000, "6h": 6 * 3600_000_000, "1D": 86400_000_000}
ANCHORS = [("typhon/files/fileset.py", "FileSet." + n) for n in (
    "find", "_get_search_dirs", "_get_matching_dirs", "_check_placeholders", "_get_matching_files",
    "_check_file", "_prepare_find_return", "is_excluded", "exclude_times", "exclude_files",
    "__contains__", "__len__", "path", "_get_time_resolution", "_to_datetime_args",
    "_standardise_datetime_args")] + [
    ("typhon/utils/timeutils.py", "set_time_resolution"), ("typhon/utils/timeutils.py", "to_datetime"),
    ("typhon/trees.py", "IntervalTree.interval_overlaps")]


def new_check():
    return vlib.Check(
        PROP, pkg="find", props="Proofs.Props.C01", driver="drv_c01", lemma_files=LEMMAS, model_files=MODELS,
        trusted=["hand-written model lean/find/Model/Find.lean (+ Model/Time.lean calendar) tied to FileSet.find, "
                 "_get_search_dirs, _check_placeholders, _get_matching_files, _check_file, _prepare_find_return, "
                 "is_excluded, __contains__, __len__ by the correspondence run of this check (driver drv_c01: same "
                 "template, population, query; error class, unsorted answers as multisets, sorted answers and bundles with ties "
                 "on (t0,t1) as multisets must be equal; glob / tie order is diagnostic only)",
                 "the harness' tokenizer of the path template (split on '/', {placeholder}, '*') and its rendering of "
                 "file names; name parsing itself (regexes, get_info) is C02's subject: the harness checks on every "
                 "population that get_info() returns the coverage it intended",
                 "fsspec glob / isdir / isfile, Python re, pandas.Grouper (fixed frequencies) are modelled, not verified",
                 "IntervalTree membership of excluded periods is modelled by its specification (theorem C03_contains_iff)"],
        assumptions=["directory levels hold year/year2/month/day/doy/hour placeholders, user placeholders, '*' or literal text; "
                     "a level with temporal placeholders has a year at or above it",
                     "bundling by frequency only for fixed frequencies dividing one day ('1h','6h','1D') and sort=True",
                     "white-list values are literal alternatives; black-list oracle only for prefix-free values (re.match is a prefix match, as coded)",
                     "start - sub-directory resolution must not precede datetime.min (else OverflowError, agreed by model and code)"])


# ---------------------------------------------------------------- queries
def sadd(t, td):
    try:
        return t + td
    except OverflowError:
        return None


def boundary_times(rng, tpl, files):
    pts = []
    res = tpl.subdir_res()
    for f in rng.sample(files, min(len(files), 4)):
        base = [f.t0, f.t1, f.t0.replace(hour=0, minute=0, second=0, microsecond=0),
                f.t0.replace(day=1, hour=0, minute=0, second=0, microsecond=0),
                f.t0.replace(month=1, day=1, hour=0, minute=0, second=0, microsecond=0),
                f.t0.replace(minute=0, second=0, microsecond=0)]
        if res is not None:
            base += [sadd(f.t0, res), sadd(f.t1, res), sadd(f.t0, -res)]
        if f.t0 == f.t1:                      # zero-length: nothing after t0 may find it
            base += [sadd(f.t0, dt.timedelta(hours=1)), sadd(f.t0, dt.timedelta(days=1)), sadd(f.t0, dt.timedelta(minutes=1))]
        for b in base:
            if b is not None:
                pts += [b, sadd(b, G.US), sadd(b, -G.US)]
    return [p for p in pts if p is not None and dt.datetime(2, 1, 1) < p < dt.datetime(9998, 1, 1)]


def gen_filters(rng, tpl, files):
    users = tpl.users()
    if not users or rng.random() < 0.45:
        if rng.random() < 0.08:
            return {"nosuch": "A"}          # filter on a placeholder the template lacks: no effect
        return None
    out = {}
    for u in rng.sample(users, rng.randint(1, len(users))):
        vals = rng.sample(G.USER_VALUES[u], rng.randint(1, 2))
        v = vals[0] if (len(vals) == 1 and rng.random() < 0.5) else vals
        out[("!" if rng.random() < 0.45 else "") + u] = v
    return out


def gen_excludes(rng, files, pts):
    xn, xt = [], []
    if files and rng.random() < 0.3:
        xn = sorted({rng.choice(files).id for _ in range(rng.randint(1, 3))})
    if rng.random() < 0.3 and pts:
        for _ in range(rng.randint(1, 3)):
            a = rng.choice(pts)
            b = a + rng.choice([dt.timedelta(0), G.US, dt.timedelta(minutes=30), dt.timedelta(hours=7), dt.timedelta(days=2)])
            xt.append((a, b))
    return xn, xt


def gen_queries(rng, tpl, files, nq):
    qs = []
    pts = boundary_times(rng, tpl, files) if files else []
    if files:
        lo = min(f.t0 for f in files)
        hi = max(f.t1 for f in files)
    else:
        lo = hi = G.gen_origin(rng, tpl)
    in_pandas = dt.datetime(1700, 1, 1) < lo and hi < dt.datetime(2250, 1, 1) and tpl.is_temporal()
    for k in range(nq):
        kind = rng.choice(["all", "bound", "bound", "bound", "bound", "open-start", "open-end", "before", "after",
                           "empty", "inverted", "span"])
        if not pts and kind in ("bound", "open-start", "open-end"):
            kind = "all"
        if kind == "all":
            s, e = None, None
        elif kind == "bound":
            s = rng.choice(pts)
            e = rng.choice(pts + [s + G.US, s + dt.timedelta(hours=1), s + dt.timedelta(days=1)])
            if e <= s and rng.random() < 0.9:
                s, e = e, s
                if s == e:
                    e = s + G.US
        elif kind == "open-start":
            s, e = None, rng.choice(pts)
        elif kind == "open-end":
            s, e = rng.choice(pts), None
        elif kind == "before":
            e = sadd(lo, -rng.choice([dt.timedelta(0), G.US, dt.timedelta(days=3)])) if lo.year > 3 else lo
            e = e or lo
            s = sadd(e, -dt.timedelta(days=rng.choice([1, 40, 400]))) if e.year > 4 else None
        elif kind == "after":
            s = sadd(hi, rng.choice([G.US, dt.timedelta(days=3), dt.timedelta(days=500)])) or hi
            e = sadd(s, dt.timedelta(days=rng.choice([1, 40]))) if rng.random() < 0.7 else None
        elif kind == "empty":
            s = rng.choice(pts) if pts else lo
            e = s
        elif kind == "inverted":
            s = rng.choice(pts) if pts else lo
            e = sadd(s, -rng.choice([G.US, dt.timedelta(hours=3)])) or s
        else:
            s, e = sadd(lo, -dt.timedelta(hours=1)) if lo.year > 3 else lo, sadd(hi, dt.timedelta(hours=1))
        if s is not None and s != G.MIN and s.year < 2:
            s = None
        bundle = rng.choice([None, None, None, 1, 2, 3, 7, "1h", "6h", "1D"])
        sort = rng.random() < 0.7
        if isinstance(bundle, str):
            if not in_pandas:
                bundle = 2
            sort = True
        xn, xt = gen_excludes(rng, files, pts)
        qs.append({"start": s, "end": e, "sort": sort, "bundle": bundle, "nferr": rng.random() < 0.3,
                   "filters": gen_filters(rng, tpl, files), "xnames": xn, "xtimes": xt,
                   "only_path": rng.random() < 0.15, "kind": kind, "excl_ctor": rng.random() < 0.4,
                   "as_str": rng.random() < 0.15 and all(x is None or 1700 < x.year < 2250 for x in (s, e))})
    return qs


def query_json(q):
    o = dict(q)
    o["start"], o["end"] = G.iso(q["start"]), G.iso(q["end"])
    o["xtimes"] = [[G.iso(a), G.iso(b)] for a, b in q["xtimes"]]
    return o


def query_from_json(o):
    q = dict(o)
    q["start"], q["end"] = G.from_iso(o["start"]), G.from_iso(o["end"])
    q["xtimes"] = [(G.from_iso(a), G.from_iso(b)) for a, b in o["xtimes"]]
    return q


def find_line(q):
    a = "-" if q["start"] is None else str(G.us(q["start"]))
    b = "-" if q["end"] is None else str(G.us(q["end"]))
    bun = q["bundle"]
    bt = "-" if bun is None else (f"c{bun}" if isinstance(bun, int) else f"f{FREQ_US[bun]}")
    w, bl = G.filter_tokens(q["filters"])
    return f"find {a} {b} {int(q['sort'])} {bt} {int(q['nferr'])} {w} {bl}"


def excl_lines(q):
    return ["xnames " + " ".join(map(str, q["xnames"])),
            "xtimes " + " ".join(f"{G.us(a)} {G.us(b)}" for a, b in q["xtimes"])]


# ---------------------------------------------------------------- one population
def classify(tpl, what):
    """stable label of the failing input class"""
    lits = [tpl.chunk_is_lit(k) for k in range(len(tpl.dirs))]
    for k in range(len(lits) - 1):
        if lits[k] and not all(lits[k + 1:]):
            return "literal-dir-before-pattern"
    seen = set()
    for k in range(len(tpl.dirs)):
        cf = set(tpl.chunk_fields(k))
        if not lits[k] and not cf and ({"day", "doy"} & seen):
            return "nontemporal-dir-below-day"
        seen |= cf
    if "len(" in what and "NoFilesError" in what:
        return "len-empty"
    return "other"


def excluded_fileset(fs, make, q, paths_of):
    """the fileset with the exclusion of q in force: set through exclude_files()/exclude_times(), or —
    q["excl_ctor"] — a fresh FileSet built with the constructor argument exclude=[names and (t0, t1) periods mixed]"""
    if q.get("excl_ctor") and make is not None:
        mixed = [paths_of[i] for i in q["xnames"]] + [tuple(p) for p in q["xtimes"]]
        if len(mixed) > 1 and len(mixed) % 2 == 0:
            mixed = mixed[::2] + mixed[1::2]          # interleave names and periods
        return make(exclude=mixed)
    fs.exclude_files([paths_of[i] for i in q["xnames"]])
    fs.exclude_times(list(q["xtimes"]) or None)
    return fs


def real_find(fs, ids, q, paths_of, make=None):
    """runs the real find; returns ('ok', flat_or_bundles) or ('err', class)"""
    fs = excluded_fileset(fs, make, q, paths_of)
    a, b = q["start"], q["end"]
    if q.get("as_str"):        # the public API also takes "YYYY-MM-DD hh:mm:ss[.ffffff]" strings (to_datetime)
        a = a if a is None else a.isoformat(sep=" ")
        b = b if b is None else b.isoformat(sep=" ")
    try:
        res = list(fs.find(a, b, sort=q["sort"], bundle=q["bundle"], filters=q["filters"],
                           no_files_error=q["nferr"], only_path=q["only_path"]))
    except Exception as e:  # noqa
        if os.environ.get("VERIF_DEBUG") and G.err_class(e).startswith("other"):
            import traceback
            traceback.print_exc()
        return "err", G.err_class(e)
    conv = lambda x: G.file_id(ids, x)
    if q["bundle"] is None:
        return "ok", [conv(x) for x in res]
    return "ok", [[conv(x) for x in b] for b in res]


def check_oracle(ck, tpl, files, q, kind, val, case, black_ok):
    """the property itself, on the real answer"""
    byid = {f.id: f for f in files}
    s, e = q["start"], q["end"]
    label = lambda what: classify(tpl, what)
    if (G.MAX if e is None else e) <= (G.MIN if s is None else s):
        if (kind, val) != ("err", "valueError"):
            ck.violation(label(""), f"find with end <= start gave {kind} {val}, expected ValueError", case)
        return
    if not black_ok:
        return
    want = G.select(files, s, e, set(q["xnames"]), q["xtimes"], q["filters"])
    if kind == "err":
        if val == "noFiles" and q["nferr"] and not want:
            return
        if val == "other:TypeError" and isinstance(q["bundle"], str) and not want:
            ck.violation("freq-bundle-empty", f"find(bundle='{q['bundle']}', no_files_error=False) raised TypeError on a period without files", case)
            return
        ck.violation(label(""), f"find raised {val}; expected {len(want)} files {[f.id for f in want][:8]}", case)
        return
    if q["nferr"] and not want:
        ck.violation(label(""), "find returned nothing instead of raising NoFilesError", case)
        return
    flat = val if q["bundle"] is None else [i for b in val for i in b]
    if sorted(flat) != sorted(f.id for f in want):
        missing = sorted(set(f.id for f in want) - set(flat))
        extra = sorted(set(flat) - set(f.id for f in want))
        dup = len(flat) != len(set(flat))
        what = f"find({G.iso(s)}, {G.iso(e)}) on '{tpl.text()}': missing files {['/'.join(byid[i].rel) for i in missing][:4]}, " \
               f"unexpected {['/'.join(byid[i].rel) for i in extra][:4]}" + (", duplicates" if dup else "")
        ck.violation(label(what), what, case)
        return
    if q["sort"] or isinstance(q["bundle"], int):
        keys = [(byid[i].t0, byid[i].t1) for i in flat]
        if keys != sorted(keys):
            ck.violation(label(""), f"find result not ordered by (t0, t1): ids {flat[:10]}", case)
            return
    if q["bundle"] is not None:
        if any(len(b) == 0 for b in val):
            ck.violation(label(""), "empty bundle", case)
        if isinstance(q["bundle"], int):
            n = q["bundle"]
            if any(len(b) != n for b in val[:-1]) or (val and not (1 <= len(val[-1]) <= n)):
                ck.violation(label(""), f"count bundles of sizes {[len(b) for b in val]} for n={n}", case)
        else:
            w = FREQ_US[q["bundle"]]
            bins = []
            for b in val:
                bs = {G.us(byid[i].t0) // w for i in b}
                if len(bs) != 1:
                    ck.violation(label(""), f"time bundle spans several '{q['bundle']}' bins", case)
                    return
                bins.append(bs.pop())
            if bins != sorted(set(bins)):
                ck.violation(label(""), f"time bundles not one per bin in ascending order: {bins[:8]}", case)


def exposing_queries(f, got):
    """periods on which a file with stated coverage [t0, t1] but parsed coverage `got` is wrongly
    yielded / wrongly missed"""
    mk = lambda s, e: {"start": s, "end": e, "sort": True, "bundle": None, "nferr": False, "filters": None,
                       "xnames": [], "xtimes": [], "only_path": False, "kind": "expose"}
    if isinstance(got, str):                      # get_info raised: any search touching the file raises
        return [mk(None, None)]
    p0, p1 = got
    out = []
    for a, b in ((f.t1, p1), (p1, f.t1)):         # end too late / too early
        if a < b:
            s, e = sadd(a, G.US), sadd(b, G.US)
            if s is not None and e is not None:
                out.append(mk(s, e))
    for a, b in ((f.t0, p0), (p0, f.t0)):         # start too late / too early
        if a < b:
            out.append(mk(a if a.year > 1 else None, b))
    return out


def tie_groups(ids, byid):
    """[3, 1, 4] -> consecutive runs of equal sort key, each as a sorted id list (the order inside a
    run of equal (t0, t1) is the traversal order of the file system: not part of the property)"""
    out = []
    for i in ids:
        key = (byid[i].t0, byid[i].t1)
        if out and out[-1][0] == key:
            out[-1][1].append(i)
        else:
            out.append((key, [i]))
    return [sorted(g) for _, g in out]


def canon_answer(val, q, byid):
    """what of an answer the property (and hence the correspondence) fixes: unsorted -> the multiset;
    sorted -> the sequence with ties on (t0, t1) as multisets; count bundles -> that sequence and the
    bundle sizes; frequency bundles -> each bundle with its ties as multisets"""
    if q["bundle"] is None:
        return tie_groups(val, byid) if q["sort"] else sorted(val)
    if isinstance(q["bundle"], int):
        return [len(b) for b in val], tie_groups([i for b in val for i in b], byid)
    return [tie_groups(b, byid) for b in val]


def parse_model_answer(m, q):
    body = m[2:].strip()
    if q["bundle"] is None:
        return [int(x) for x in body.split()]
    return [[int(x) for x in b.split()] for b in body.split("/")] if body else []


def run_population(ck, rng, scratch, tpl, files, time_cov, queries, extra, use_model=True, zipfs=False, tag="gen",
                   ddirs=None, spelling=None):
    """one directory tree + its queries on real code, model and oracle"""
    root = tempfile.mkdtemp(dir=scratch)
    cwd0 = os.getcwd()
    if spelling is None:       # how the user wrote the template: absolute, or relative to the working directory
        spelling = rng.choice(G.SPELLINGS)
    try:
        os.chdir(root)         # relative templates are resolved against the working directory on every access
        if ddirs is None:
            ddirs = G.decoy_dirs(rng, tpl, files, rng.choice([0, 1, 3]))
        paths = G.build_tree(root, tpl, files, rng, ddirs=ddirs)
        if zipfs:
            from fsspec.implementations.zip import ZipFileSystem
            zp = os.path.join(root, "tree.zip")
            ids = G.build_zip(zp, root, tpl, files)
            zfs = ZipFileSystem(zp)
            make = lambda **kw: G.make_fileset(root, tpl, time_cov, fs=zfs, **kw)
            fs = make()
        else:
            ids = paths
            make = lambda **kw: G.make_fileset(root, tpl, time_cov, spelling=spelling, **kw)
            fs = make()
        paths_of = {i: p for p, i in ids.items()}
        honour = G.honours(tpl, files)
        base_case = {"op": "find", "template": tpl.to_json(), "files": [f.to_json() for f in files],
                     "time_cov_us": None if time_cov is None else time_cov // G.US, "zip": zipfs, "decoy_dirs": ddirs,
                     "spelling": "abs" if zipfs else spelling}
        byid = {f.id: f for f in files}
        # The coverage the code derives from a name must be the one the name states (the harness wrote
        # the start and end stamps itself).  When it is not, find() works on a wrong coverage: add the
        # periods that expose it, so that the oracle below reports a concrete failing input.
        queries = list(queries)
        for f in files:
            try:
                info = fs.get_info(paths_of[f.id])
                got = (info.times[0], info.times[1])
            except Exception as e:  # noqa
                got = f"{type(e).__name__}: {e}"
            if got != (f.t0, f.t1):
                ck.count("coverage-parse-mismatch")
                if len(ck.notes) < 20:
                    ck.notes.append(f"coverage parsed from {'/'.join(f.rel)} under {tpl.text()} is {got}, the name states {(f.t0, f.t1)}")
                queries += exposing_queries(f, got)
        ordered = G.traversal_sorted(tpl, files)
        lines = [tpl.layout_line(), "clear"] + [G.file_line(tpl, f) for f in ordered]
        nhead = len(lines)
        qidx = []
        for q in queries:
            lines += excl_lines(q)
            qidx.append(len(lines))
            lines.append(find_line(q))
        eidx = len(lines)
        lines += ["xnames", "xtimes"]
        for x in extra:
            lines.append({"contains": lambda x: f"contains {G.us(x['t'])}",
                          "containsp": lambda x: f"containsp {G.us(x['a'])} {G.us(x['b'])}",
                          "len": lambda x: "len"}[x["op"]](x))
        out = ck.driver(lines) if use_model else None
        if out is not None:
            if not out[0].startswith("ok"):
                raise vlib.InfraError(f"driver rejected layout {lines[0]!r}: {out[0]}")
            wp_model = all(o == "ok wp=1" for o in out[2:nhead])
            bad = [o for o in out[2:nhead] if not o.startswith("ok wp=")]
            if bad:
                raise vlib.InfraError(f"driver rejected a file line: {bad[0]} ({tpl.text()})")
            if wp_model != honour:
                k_ = next((i for i, o in enumerate(out[2:nhead]) if o != "ok wp=1"), 0)
                ck.disagree(f"WellPlaced: model says {wp_model}, harness says {honour} on '{tpl.text()}' line '{lines[0]}' / '{lines[2 + k_] if len(lines) > 2 else ''}'", base_case)
        for k, q in enumerate(queries):
            case = dict(base_case, query=query_json(q))
            kind, val = real_find(fs, ids, q, paths_of, make)
            black_ok = G.black_prefix_free(files, q["filters"])
            nsel = 0
            if honour and not (kind == "err" and val == "overflow"):
                before = len(ck.violations)
                check_oracle(ck, tpl, files, q, kind, val, case, black_ok)
                if len(ck.violations) > before:
                    ck.count("violations")
            if kind == "ok":
                nsel = len(val if q["bundle"] is None else [i for b in val for i in b])
            nontriv = kind == "ok" and 0 < nsel and len(files) > 1
            ck.case(key=(tpl.text(), tuple(sorted((f.rel[-1], G.us(f.t0)) for f in files[:6])), json.dumps(query_json(q), sort_keys=True)) if nontriv else None,
                    kind=f"{tag}{'' if zipfs or spelling == 'abs' else '-relpath'}/depth{len(tpl.dirs)}/{'honour' if honour else 'violating'}/{q['kind']}/"
                         f"{'err-' + val if kind == 'err' else ('some' if 0 < nsel < len(files) else ('all' if nsel else 'none'))}",
                    sample={"template": tpl.text(), "files": len(files), "start": G.iso(q["start"]), "end": G.iso(q["end"]),
                            "bundle": q["bundle"], "filters": q["filters"], "found": nsel})
            if out is not None:
                m = out[qidx[k]]
                if kind == "err":
                    code = "err " + val
                elif q["bundle"] is None:
                    code = ("ok " + " ".join(map(str, val))).strip()
                else:
                    code = ("ok " + " / ".join(" ".join(map(str, b)) for b in val)).strip()
                m = m.strip()
                if kind == "ok" and m.startswith("ok"):
                    # traversal order (unsorted answers, ties on the sort key) is diagnostic only
                    same = canon_answer(parse_model_answer(m, q), q, byid) == canon_answer(val, q, byid)
                    if same and m != code:
                        ck.count("diagnostic/order-of-ties-or-unsorted-differs")
                else:
                    same = m == code
                if not same and code == "err other:TypeError" and isinstance(q["bundle"], str) and m == "ok":
                    ck.count("freq-bundle-empty (code raises TypeError, model yields no bundle)")
                elif not same:
                    ck.disagree(f"find: model '{m[:120]}' vs code '{code[:120]}' on '{tpl.text()}'", case)
        # membership and length (no filters; current exclusion = none)
        fs.exclude_files([])
        fs.exclude_times(None)
        for j, x in enumerate(extra):
            case = dict(base_case, extra={k_: (G.iso(v) if isinstance(v, dt.datetime) else v) for k_, v in x.items()})
            if x["op"] == "contains":
                want = any(f.t0 <= x["t"] <= f.t1 for f in files)
            elif x["op"] == "containsp":
                want = any(f.t0 < x["b"] and f.t1 >= x["a"] for f in files) if x["b"] > x["a"] else "valueError"
            else:
                want = len(files)
            try:
                if x["op"] == "contains":
                    got = "ok " + str(int(x["t"] in fs))
                elif x["op"] == "containsp":
                    got = "ok " + str(int((x["a"], x["b"]) in fs))
                else:
                    got = "ok " + str(len(fs))
            except Exception as e:  # noqa
                got = "err " + G.err_class(e)
            ck.case(kind=f"{tag}/{x['op']}")
            if honour and got != "err overflow":
                exp = "err valueError" if want == "valueError" else "ok " + str(int(want))
                if got != exp:
                    what = f"{x['op']}({ {k_: G.iso(v) if isinstance(v, dt.datetime) else v for k_, v in x.items() if k_ != 'op'} }) = {got}, expected {exp} on '{tpl.text()}'"
                    if x["op"] == "len" and got == "err noFiles":
                        what = "len(fileset) raised NoFilesError"
                    sig = "len-empty" if (x["op"] == "len" and got == "err noFiles") else classify(tpl, what)
                    ck.violation(sig, what, case)
            if out is not None and out[eidx + 2 + j].strip() != got:
                ck.disagree(f"{x['op']}: model '{out[eidx + 2 + j]}' vs code '{got}' on '{tpl.text()}'", case)
    finally:
        os.chdir(cwd0)
        shutil.rmtree(root, ignore_errors=True)


def gen_extra(rng, tpl, files):
    ex = [{"op": "len"}]
    pts = boundary_times(rng, tpl, files) if files else [G.gen_origin(rng, tpl)]
    pts = [p for p in pts if p.year > 400] or [dt.datetime(2000, 1, 1)]
    for _ in range(3):
        ex.append({"op": "contains", "t": rng.choice(pts)})
    a = rng.choice(pts)
    ex.append({"op": "containsp", "a": a, "b": rng.choice(pts + [a + dt.timedelta(hours=2), a])})
    return ex


def run_single(ck, scratch, case, use_model=True):
    """one query on a single-file fileset described by `case` (also used by --replay)"""
    from typhon.files import FileSet
    root = tempfile.mkdtemp(dir=scratch)
    try:
        p = os.path.join(root, "single.dat")
        exists = case["exists"]
        if exists:
            open(p, "w").close()
        cov = None if case["cov"] is None else (G.from_iso(case["cov"][0]), G.from_iso(case["cov"][1]))
        s, e, nf = G.from_iso(case["start"]), G.from_iso(case["end"]), case["nferr"]
        fs = FileSet(p, time_coverage=cov)
        c0, c1 = (G.MIN, G.MAX) if cov is None else cov
        try:
            got = "ok " + str(len(list(fs.find(s, e, no_files_error=nf))))
        except Exception as ex:  # noqa
            got = "err " + G.err_class(ex)
        ck.case(kind="single/" + got.replace(" ", "-"))
        if e is not None and e == G.MIN:
            want = "err overflow"
        elif (G.MAX if e is None else e) <= (G.MIN if s is None else s):
            want = "err valueError"
        elif not exists:
            want = "err valueError"
        else:
            hit = (e is None or c0 < e) and (s is None or c1 >= s)
            want = "ok 1" if hit else ("err noFiles" if nf else "ok 0")
        if got != want:
            ck.violation("other", f"single-file fileset find({G.iso(s)}, {G.iso(e)}) = {got}, expected {want}", case)
        if use_model:
            line = f"single {int(exists)} {G.us(c0)} {G.us(c1)} {'-' if s is None else G.us(s)} {'-' if e is None else G.us(e)} {int(nf)}"
            m = ck.driver([line])[0]
            if m != got:
                ck.disagree(f"single: model '{m}' vs code '{got}'", case)
    finally:
        shutil.rmtree(root, ignore_errors=True)


def single_cases(ck, rng, scratch, use_model=True):
    """single-file filesets: the coverage comes from time_coverage"""
    exists = rng.random() < 0.85
    o = G.gen_origin(rng, G.Template([], "{year}.dat"))
    cov = None if rng.random() < 0.3 else (o, o + rng.choice([dt.timedelta(0), dt.timedelta(hours=5), dt.timedelta(days=40)]))
    c0, c1 = (G.MIN, G.MAX) if cov is None else cov
    for _ in range(4):
        s = rng.choice([None, c0, c1, c0 + G.US] + ([c1 + G.US, c0 - dt.timedelta(days=2)] if cov else []))
        e = rng.choice([None, c0, c0 + G.US, c1, s] + ([c1 + dt.timedelta(days=2)] if cov else []))
        run_single(ck, scratch, {"op": "single", "exists": exists, "cov": [G.iso(c0), G.iso(c1)] if cov else None,
                                 "start": G.iso(s), "end": G.iso(e), "nferr": rng.random() < 0.5}, use_model)


def calendar_cases(ck, rng, n):
    """Model/Time.lean against CPython's datetime (fields and set_time_resolution)"""
    from typhon.utils.timeutils import set_time_resolution
    ts = [G.MIN, G.MAX]
    for _ in range(n):
        o = G.gen_origin(rng, G.Template([], "{year}.dat"))
        ts.append(o + rng.choice([-1, 0, 1]) * rng.choice([G.US, dt.timedelta(hours=1), dt.timedelta(days=1)]))
    out = ck.driver([f"cal {G.us(t)}" for t in ts])
    for t, o in zip(ts, out):
        want = [t.year, t.month, t.day, t.timetuple().tm_yday, t.hour, t.minute, t.second, t.microsecond] + \
               [G.us(set_time_resolution(t, r)) for r in ("year", "month", "day", "hour")]
        ck.case(kind="calendar")
        if [int(x) for x in o.split()] != want:
            ck.disagree(f"calendar: model {o} vs CPython {want} at {t.isoformat()}", {"op": "cal", "t": t.isoformat()})
    # datetime(y, m, d[, h]) validity and value
    tup = []
    for _ in range(n):
        y = rng.choice([0, 1, 4, 1900, 2000, 2023, 2024, 9999, 10000, rng.randint(1, 9999)])
        m = rng.choice([0, 1, 2, 2, 12, 13, rng.randint(1, 12)])
        d = rng.choice([0, 1, 28, 29, 30, 31, 32])
        h = rng.choice([None, 0, 23, 24])
        tup.append((y, m, d, h))
    out = ck.driver([f"mk {y} {m} {d} {'-' if h is None else h}" for y, m, d, h in tup])
    for (y, m, d, h), o in zip(tup, out):
        try:
            want = str(G.us(dt.datetime(y, m, d, h or 0)))
        except ValueError:
            want = "none"
        ck.case(kind="calendar/mk")
        if o.strip() != want:
            ck.disagree(f"mkDate {y,m,d,h}: model {o} vs CPython {want}", {"op": "mk", "args": [y, m, d, h]})


# ---------------------------------------------------------------- corpus / exploration
def run_case_json(ck, c, scratch, use_model=True):
    import random
    if c.get("op") == "single":
        run_single(ck, scratch, c, use_model)
        return
    if c.get("op") in ("cal", "mk"):
        return
    tpl = G.Template.from_json(c["template"])
    files = [G.File.from_json(o) for o in c["files"]]
    files = G._dedupe(tpl, files)
    tc = None if c.get("time_cov_us") is None else dt.timedelta(microseconds=c["time_cov_us"])
    queries = [query_from_json(c["query"])] if c.get("query") else []
    for q in c.get("queries", []):
        queries.append(query_from_json(q))
    extra = []
    if c.get("extra"):
        x = dict(c["extra"])
        for k in ("t", "a", "b"):
            if k in x:
                x[k] = G.from_iso(x[k])
        extra.append(x)
    run_population(ck, random.Random(0), scratch, tpl, files, tc, queries, extra, use_model, zipfs=bool(c.get("zip")), tag="corpus",
                   ddirs=c.get("decoy_dirs") or [], spelling=c.get("spelling", "abs"))


def explore(ck, n, scratch, use_model=True, zip_share=0.0):
    rng = ck.rng
    for i in range(n):
        tpl = G.gen_template(rng)
        honour = rng.random() < 0.8
        files, tc = G.gen_population(rng, tpl, honour)
        queries = gen_queries(rng, tpl, files, rng.choice([4, 8, 12]))
        extra = gen_extra(rng, tpl, files)
        run_population(ck, rng, scratch, tpl, files, tc, queries, extra, use_model, zipfs=rng.random() < zip_share)
        if i % 10 == 0:
            single_cases(ck, rng, scratch, use_model)
        if i % 8 == 0:
            # agree-only: misplaced files, directories that are not dates (ValueError arm of _check_placeholders)
            tpl, files = G.gen_misplaced(rng)
            run_population(ck, rng, scratch, tpl, files, None, gen_queries(rng, tpl, files, 6), gen_extra(rng, tpl, files),
                           use_model, tag="misplaced")


def debug_dump(ck):
    if not os.environ.get("VERIF_DEBUG"):
        return
    seen = set()
    for kind, items in (("VIOL", ck.violations), ("DISAGREE", ck.disagreements)):
        for v in items:
            k = v["what"][:60]
            if k in seen:
                continue
            seen.add(k)
            print(kind, v.get("signature", ""), v["what"][:400])
            if len(seen) > int(os.environ.get("VERIF_DEBUG")):
                return
    for n in ck.notes[:10]:
        print("NOTE", n[:300])
    print("BROKEN", ck.broken_obligations[:5])


def main():
    ck = new_check()
    ck.rule = ("templates from a token grammar (directory depth 0-4; year/year2/month/day/doy/hour levels, literal, user-placeholder "
               "and '*' levels; start and optional end fields), populations <= 40 files on a real directory tree (boundary-biased origins, "
               "duplicates under other placeholder values, zero-length and period-long coverages; 20 % violate the placement "
               "precondition: model-vs-code only), queries aligned on file/directory boundaries +-1us, open ends, before/after all data, "
               "exclude lists, white/black filters, sort/bundle options, `t in fs`, len(fs); non-trivial = distinct (template, population, "
               "query) with a non-empty answer from >1 files")
    ck.anchors(ANCHORS)
    ck.build()
    use_model = os.path.exists(os.path.join(ck.pkgdir, ".lake/build/bin/drv_c01"))
    scratch = tempfile.mkdtemp(prefix="verif_c01_")
    try:
        for name, c in vlib.load_corpus(PROP):
            run_case_json(ck, c, scratch, use_model)
        if use_model:
            calendar_cases(ck, ck.rng, ck.budget(300, 5000))
        explore(ck, ck.budget(260, 5000), scratch, use_model, zip_share=0.04 if ck.tier == "quick" else 0.15)
        if ck.broken() and not ck.violations:
            explore(ck, 1500, scratch, use_model=False)
    finally:
        shutil.rmtree(scratch, ignore_errors=True)
    debug_dump(ck)
    ck.finish()


def replay(path):
    obj = json.load(open(path))
    c = obj.get("case")
    if not c:
        print(json.dumps(obj, indent=1)[:3000])
        raise SystemExit(1)
    ck = new_check()
    scratch = tempfile.mkdtemp(prefix="verif_c01_")
    try:
        run_case_json(ck, c, scratch, use_model=False)
    finally:
        shutil.rmtree(scratch, ignore_errors=True)
    for v in ck.violations:
        print("REPRODUCED:", v["what"])
    raise SystemExit(1 if ck.violations else 0)
