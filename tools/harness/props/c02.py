"""C02 — file names generated from a template parse back to the same times and attributes.

Decided by: theorems in lean/fileset/Proofs/Props/C02.lean about the hand-written model
lean/fileset/Model/{Digits,Time,Template}.lean + correspondence of that model's executable
definitions (driver drv_c02) with FileSet.get_filename / parse_filename / get_info on the same
templates, periods, fills and (mutated) names + an oracle that computes the expected
(name, start, end, attributes) with Python's datetime directly from the statement's case split.
"""
import datetime as dt
import json
import os

import vlib

PROP = "C02"
FIELDS = ["year", "year2", "month", "day", "doy", "hour", "minute", "second",
          "decisecond", "centisecond", "millisecond", "microsecond"]
WIDTH = dict(year=4, year2=2, month=2, day=2, doy=3, hour=2, minute=2, second=2,
             decisecond=1, centisecond=2, millisecond=3, microsecond=6)
FILLABLE = {"year", "year2", "month", "day", "doy", "hour", "minute", "second", "millisecond"}
SPECIAL = set("{*[<(?!|\\")
EPOCH = dt.datetime(1, 1, 1)
US = dt.timedelta(microseconds=1)
DAY = 86400 * 10**6
BASE = "/tmp/vc02/"


def us(t):
    return (t - EPOCH) // US


def from_us(n):
    return EPOCH + dt.timedelta(microseconds=n)


# ------------------------------------------------------------------ wire encoding
def enc_str(s):
    return "-" if not s else ".".join(str(ord(c)) for c in s)


def dec_str(w):
    return "" if w == "-" else "".join(chr(int(p)) for p in w.split("."))


def enc_toks(toks):
    out = []
    for t in toks:
        if t[0] == "L":
            out += [f"L{ord(c)}" for c in t[1]]
        elif t[0] in "TE":
            out.append(f"{t[0]}{FIELDS.index(t[1])}")
        elif t[0] == "U":
            out.append("U" + enc_str(t[1]))
        else:
            out.append("S")
    return " ".join(out)


def enc_regex(r):
    if r[0] == "A":
        return "A:" + "/".join(enc_str(w) for w in r[1])
    if r[0] == "D":
        return f"D:{r[1]}"
    if r[0] in "PZ":
        return r[0]
    return "C:" + ",".join(f"{ord(a)}-{ord(b)}" for a, b in r[1]) + ":" + str(r[2])


def regex_src(r):
    if r[0] == "A":
        return "|".join(r[1])
    if r[0] == "D":
        return r"\d{%d}" % r[1]
    if r[0] == "P":
        return ".+?"
    if r[0] == "Z":
        return ".*?"
    q = r[2] if r[2] in ("+", "*") else "{%d}" % r[2]
    return "[" + "".join(a if a == b else f"{a}-{b}" for a, b in r[1]) + "]" + q


def tpl_str(toks):
    out = []
    for t in toks:
        if t[0] == "L":
            out.append(t[1])
        elif t[0] == "T":
            out.append("{" + t[1] + "}")
        elif t[0] == "E":
            out.append("{end_" + t[1] + "}")
        elif t[0] == "U":
            out.append("{" + t[1] + "}")
        else:
            out.append("*")
    return "".join(out)


def key_of_pyname(name):
    if name in FIELDS:
        return f"T{FIELDS.index(name)}"
    if name.startswith("end_") and name[4:] in FIELDS:
        return f"E{FIELDS.index(name[4:])}"
    return "U" + enc_str(name)


def err_enum(e):
    from typhon.files.fileset import UnknownPlaceholderError, UnfilledPlaceholderError, PlaceholderRegexError
    import re
    if isinstance(e, UnknownPlaceholderError):
        return "unknownPlaceholder"
    if isinstance(e, UnfilledPlaceholderError):
        return "unfilledPlaceholder"
    if isinstance(e, (PlaceholderRegexError, re.error)):
        return "regexError"
    if isinstance(e, KeyError):
        return "keyError"
    if isinstance(e, OverflowError):
        return "overflow"
    if isinstance(e, ValueError):
        return "valueError"
    if isinstance(e, TypeError):
        return "typeError"
    return "other:" + type(e).__name__


# ------------------------------------------------------------------ independent naming rule / oracle
def field_text(t, f):
    """the documented meaning of a temporal placeholder (years >= 1000)"""
    if f == "year":
        return "%04d" % t.year
    if f == "year2":
        return "%02d" % (t.year % 100)
    if f == "month":
        return "%02d" % t.month
    if f == "day":
        return "%02d" % t.day
    if f == "doy":
        return "%03d" % t.timetuple().tm_yday
    if f == "hour":
        return "%02d" % t.hour
    if f == "minute":
        return "%02d" % t.minute
    if f == "second":
        return "%02d" % t.second
    if f == "millisecond":
        return "%03d" % (t.microsecond // 1000)
    if f == "decisecond":
        return "%01d" % (t.microsecond // 100000)
    if f == "centisecond":
        return "%02d" % (t.microsecond // 10000)
    if f == "microsecond":
        return "%06d" % t.microsecond
    raise KeyError(f)


def instantiate(toks, s, e, fill, stars=None):
    """the name the template denotes for (s, e, fill); also returns the placeholder strings"""
    out, caps, k = [], {}, 0
    for t in toks:
        if t[0] == "L":
            out.append(t[1])
        elif t[0] == "T":
            v = field_text(s, t[1])
            caps.setdefault(t[1], v)
            out.append(v)
        elif t[0] == "E":
            v = field_text(e, t[1])
            caps.setdefault("end_" + t[1], v)
            out.append(v)
        elif t[0] == "U":
            v = fill[t[1]]
            caps.setdefault(t[1], v)
            out.append(v)
        else:
            out.append((stars or [""])[k % len(stars or [""])])
            k += 1
    return "".join(out), caps


SUBSEC = {"decisecond": 100000, "centisecond": 10000, "millisecond": 1000, "microsecond": 1}
ALL_TIME = ["hour", "minute", "second", "decisecond", "centisecond", "millisecond", "microsecond"]
# FileSet._temporal_resolution: the unit added when a partial end precedes the start
SUPERIOR_US = {"hour": 86400 * 10**6, "minute": 3600 * 10**6, "second": 60 * 10**6}


def trunc(t, F):
    unit = min([SUBSEC[f] for f in F if f in SUBSEC], default=None)
    return dt.datetime(t.year, t.month, t.day,
                       t.hour if "hour" in F else 0, t.minute if "minute" in F else 0,
                       t.second if "second" in F else 0,
                       (t.microsecond // unit) * unit if unit else 0)


def has_date(F, t):
    """F names a full date for t in the claimed ranges"""
    if "year2" in F:
        if not 1965 <= t.year <= 2064:
            return False
    elif "year" in F:
        if t.year < 1000:
            return False
    else:
        return False
    return ("month" in F and "day" in F) or "doy" in F


TIME_KINDS = ["hour", "minute", "second", "millisecond"]


def out_of_domain(case):
    """The property quantifies over periods s <= e GIVEN AT THE TEMPLATE'S RESOLUTION.  Returns a reason when
    (s, e) is not exactly representable by the start resp. end fields of the template (e.g. µs given, ms
    written), else None.  Such cases are counted, compared model-vs-code as a diagnostic only, never a violation."""
    s, e = from_us(case["s"]), from_us(case["e"])
    S = {t[1] for t in case["toks"] if t[0] == "T"}
    E = {t[1] for t in case["toks"] if t[0] == "E"}
    if s > e:
        return "end-before-start"
    date = lambda F: ("year" in F or "year2" in F) and (("month" in F and "day" in F) or "doy" in F)
    if S and date(S) and s != trunc(s, S):
        return "start-not-at-resolution"
    if E:
        if date(E):
            if e != trunc(e, E):
                return "end-not-at-resolution"
        elif E <= set(ALL_TIME):
            if e != trunc(e, E | S):
                return "end-not-at-resolution"
    return None


def expected(case):
    """The statement's case split.  Returns dict with the keys that the property claims:
    fmt ('ok', name) | ('err', enum); caps; start; end; attrs; info_err"""
    toks, env = case["toks"], case["env"]
    fmt_toks = case.get("tpl2") or toks
    s, e = from_us(case["s"]), from_us(case["e"])
    fill = case["fill"]
    exp = {}
    S = {t[1] for t in toks if t[0] == "T"}
    E = {t[1] for t in toks if t[0] == "E"}
    users = [t[1] for t in toks if t[0] == "U"]
    known = set(users) | set(env) | set(fill)
    # ---- get_filename
    f_fields = {t[1] for t in fmt_toks if t[0] in "TE"}
    f_users = [t[1] for t in fmt_toks if t[0] == "U"]
    rendered = False
    if (f_fields - FILLABLE) or any(u not in known for u in f_users):
        exp["fmt"] = ("err", "unknownPlaceholder")
        if not case.get("rendered") or any(u not in known for u in f_users):
            return exp
        rendered = True                         # the harness writes the name itself
    eff_fill = {}
    for u in f_users:
        if u in fill:
            eff_fill[u] = fill[u]
        else:
            eff_fill[u] = regex_src(env[u]) if u in env else ".+?"
    unfilled = any(t[0] == "S" or (t[0] == "L" and set(t[1]) & SPECIAL) for t in fmt_toks) \
        or any(set(v) & SPECIAL for v in eff_fill.values())
    if unfilled:
        if not rendered:
            exp["fmt"] = ("err", "unfilledPlaceholder")
        return exp
    if s.year < 1000 or e.year < 1000 or s > e:
        return exp                              # outside the stated ranges: no claim
    if out_of_domain(case):
        return exp                              # (s, e) not at the template's resolution: outside the quantifier
    name, caps = instantiate(fmt_toks, s, e, eff_fill)
    if not rendered:
        exp["fmt"] = ("ok", name)
    elif sum(f in SUBSEC for f in S) > 1 or sum(f in SUBSEC for f in E) > 1:
        return exp                              # several sub-second fields are summed by the code: no claim
    if case.get("tpl2"):
        return exp
    # ---- parse / info of the generated name: only for unambiguous templates
    if not case.get("unambiguous", False):
        return exp
    exp["caps"] = caps
    mode, tc, h = case["mode"], case["tc"], case["handler"]
    fn_attrs = {u: eff_fill[u] for u in users}
    start_claim = has_date(S, s) and s == trunc(s, S)
    single = not any(t[0] != "L" for t in toks)
    fn_start = fn_end = None
    end_known = True
    if mode in ("f", "b") and not single:
        if S or E:
            if not start_claim:
                return exp
            if E and not (has_date(E, e) or E <= set(TIME_KINDS)):
                return exp                      # end names day/month/doy/year only partly: outside the claim
            fn_start = trunc(s, S)
            St = S & set(ALL_TIME)
            Et = E & set(ALL_TIME)
            coarsest = next((k for k in TIME_KINDS if k in E), None)
            if not E:
                fn_end = None
            elif has_date(E, e) and Et >= St and e == trunc(e, E):
                fn_end = trunc(e, E)                                    # spelled out completely
            elif E <= set(TIME_KINDS) and coarsest in SUPERIOR_US and e == trunc(e, E | S):
                # fewer fields: the rest comes from the start; moved by the next coarser unit of the
                # coarsest end field (hour -> 1 d, minute -> 1 h, second -> 1 min) when it precedes the start
                c = fn_start.replace(**{("microsecond" if k == "millisecond" else k):
                                        ((e.microsecond // 1000) * 1000 if k == "millisecond" else getattr(e, k))
                                        for k in E})
                if c < fn_start:
                    try:
                        c += dt.timedelta(microseconds=SUPERIOR_US[coarsest])
                    except OverflowError:
                        return exp
                fn_end = c
            else:
                end_known = False                                       # outside the claim
    elif single and mode in ("f", "b"):
        fn_start, fn_end = dt.datetime.min, dt.datetime.max
    st, en, attrs = fn_start, fn_end, dict(fn_attrs) if mode in ("f", "b") else {}
    if single and mode == "h":
        st, en = dt.datetime.min, dt.datetime.max
    if mode in ("h", "b") and h is not None:
        if h["s"] is not None:
            st = from_us(h["s"])
        if h["e"] is not None:
            en = from_us(h["e"])
            end_known = True
        attrs.update(h["attrs"])
    exp["attrs"] = attrs
    if st is None and en is None and end_known:
        exp["start"], exp["end"] = dt.datetime.min, dt.datetime.max
        return exp
    if st is None:
        if end_known:
            exp["info_err"] = "any"
        return exp
    exp["start"] = st
    if not end_known:
        return exp
    if en is None:
        try:
            en = st + dt.timedelta(microseconds=tc) if tc is not None else st
        except OverflowError:
            exp.pop("start")
            exp["info_err"] = "any"
            return exp
    exp["end"] = en
    return exp


# ------------------------------------------------------------------ real code
_handler_box = {}


def _stub_info(file_info):
    from typhon.files.handlers.common import FileInfo
    h = _handler_box["h"]
    return FileInfo(file_info.path, [None if h["s"] is None else from_us(h["s"]),
                                     None if h["e"] is None else from_us(h["e"])], dict(h["attrs"]))


def make_fileset(case):
    from typhon.files import FileSet
    from typhon.files.handlers.common import FileHandler
    env = {}
    for k, r in case["env"].items():
        env[k] = list(r[1]) if (r[0] == "A" and case.get("env_as_list")) else regex_src(r)
    kw = {}
    if case["mode"] != "f":
        _handler_box["h"] = case["handler"]
        kw["handler"] = FileHandler(info=_stub_info)
        kw["info_via"] = {"h": "handler", "b": "both"}[case["mode"]]
    if case["tc"] is not None:
        kw["time_coverage"] = dt.timedelta(microseconds=case["tc"])
    return FileSet(tpl_str(case["toks"]), placeholder=env or None, **kw)


def run_real(case):
    """returns dict fmt / per-name parse and info results in canonical form"""
    res = {"names": []}
    try:
        fs = make_fileset(case)
    except Exception as ex:
        res["ctor"] = err_enum(ex)
        return res
    s, e = from_us(case["s"]), from_us(case["e"])
    try:
        kw = {"template": tpl_str(case["tpl2"])} if case.get("tpl2") else {}
        times = s if case.get("single_time") else (s, e)      # a single datetime means a discrete file: end = start
        name = fs.get_filename(times, fill=dict(case["fill"]) if case["fill"] is not None else None, **kw)
        res["fmt"] = ("ok", name)
    except Exception as ex:
        res["fmt"] = ("err", err_enum(ex))
    first = [res["fmt"][1]] if res["fmt"][0] == "ok" and not case.get("tpl2") else \
        [case["rendered"]] if case.get("rendered") and not case.get("tpl2") else []
    names = first + list(case.get("names", []))
    for n in names:
        r = {"name": n}
        if not case.get("format_only"):
            try:
                d = fs.parse_filename(n)
                r["parse"] = ("ok", [(key_of_pyname(k), v) for k, v in d.items()])
            except Exception as ex:
                r["parse"] = ("err", err_enum(ex))
            fs.reset_cache()
            try:
                info = fs.get_info(n)
                r["info"] = ("ok", us(info.times[0]), us(info.times[1]), {str(k): str(v) for k, v in info.attr.items()})
            except Exception as ex:
                r["info"] = ("err", err_enum(ex))
        res["names"].append(r)
    return res


# ------------------------------------------------------------------ model
def model_lines(case, names):
    lines = ["tpl " + enc_toks(case["toks"]),
             "env " + " ".join(f"{enc_str(k)}={enc_regex(r)}" for k, r in case["env"].items())]
    if case.get("tpl2"):
        lines.append("tpl2 " + enc_toks(case["tpl2"]))
    lines.append(f"fmt {case['s']} {case['e']} " + " ".join(f"{enc_str(k)}={enc_str(v)}" for k, v in (case["fill"] or {}).items()))
    if not case.get("format_only"):
        h = case["handler"] or {"s": None, "e": None, "attrs": {}}
        opt = lambda v: "-" if v is None else str(v)
        for n in names:
            lines.append("parse " + enc_str(n))
            lines.append(f"info {case['mode']} {opt(case['tc'])} {opt(h['s'])} {opt(h['e'])} {enc_str(n)} "
                         + " ".join(f"{enc_str(k)}={enc_str(v)}" for k, v in h["attrs"].items()))
    return lines


def parse_model(out, case, names):
    """model outputs in the same canonical form as run_real"""
    res = {"names": []}
    i = 2 + (1 if case.get("tpl2") else 0)
    if out[0] != "ok" or out[1] != "ok" or (case.get("tpl2") and out[2] != "ok"):
        res["bad"] = out[:3]
        return res
    w = out[i].split()
    res["fmt"] = ("ok", dec_str(w[1])) if w[0] == "ok" else ("err", w[1] if len(w) > 1 else out[i])
    i += 1
    if case.get("format_only"):
        return res
    for n in names:
        r = {"name": n}
        w = out[i].split()
        if w[0] == "ok":
            r["parse"] = ("ok", [(kv.split("=")[0], dec_str(kv.split("=")[1])) for kv in w[1:]])
        else:
            r["parse"] = ("err", w[1] if len(w) > 1 else out[i])
        w = out[i + 1].split()
        if w[0] == "ok":
            r["info"] = ("ok", int(w[1]), int(w[2]), {dec_str(kv.split("=")[0]): dec_str(kv.split("=")[1]) for kv in w[3:]})
        else:
            r["info"] = ("err", w[1] if len(w) > 1 else out[i + 1])
        i += 2
        res["names"].append(r)
    return res


# ------------------------------------------------------------------ generator
LIT_SAFE = "abcxyzTZ_-0123456789"
SEPS = ["", "", "_", "-", ".", "T", "Z", "x", "_v", "..", "-."]
YEARS = [1000, 1001, 1582, 1899, 1900, 1964, 1965, 1966, 1999, 2000, 2001, 2016, 2018, 2019, 2020, 2063, 2064,
         2065, 2100, 2400, 9998, 9999]
YEARS2 = [1965, 1966, 1968, 1999, 2000, 2001, 2016, 2018, 2020, 2063, 2064]


def is_leap(y):
    return y % 4 == 0 and (y % 100 != 0 or y % 400 == 0)


def gen_datetime(rng, year2, wild=False):
    if wild and rng.random() < 0.5:
        y = rng.choice([1, 9, 10, 99, 100, 999, 1964, 2065, 5000])
    elif year2:
        # the century flips exactly at 65: 1965/1966 | 1999/2000 | 2064 with high probability
        y = rng.choice([1965, 1965, 1966, 1999, 2000, 2064, 2064]) if rng.random() < 0.55 else \
            rng.choice(YEARS2) if rng.random() < 0.5 else rng.randint(1965, 2064)
    else:
        y = rng.choice(YEARS) if rng.random() < 0.6 else rng.randint(1000, 9999)
    kind = rng.choice(["jan1", "dec31", "feb28", "feb29", "mar1", "monthend", "monthstart", "random", "random"])
    if kind == "jan1":
        m, d = 1, 1
    elif kind == "dec31":
        m, d = 12, 31
    elif kind == "feb28":
        m, d = 2, 28
    elif kind == "feb29":
        m, d = (2, 29) if is_leap(y) else (2, 28)
    elif kind == "mar1":
        m, d = 3, 1
    else:
        m = rng.randint(1, 12)
        dim = [31, 29 if is_leap(y) else 28, 31, 30, 31, 30, 31, 31, 30, 31, 30, 31][m - 1]
        d = dim if kind == "monthend" else 1 if kind == "monthstart" else rng.randint(1, dim)
    tk = rng.choice(["midnight", "last", "noon", "random", "random"])
    if tk == "midnight":
        h = mi = sec = usec = 0
    elif tk == "last":
        h, mi, sec, usec = 23, 59, 59, rng.choice([999999, 999000, 0])
    elif tk == "noon":
        h, mi, sec, usec = 12, 0, 0, 0
    else:
        h, mi, sec = rng.randint(0, 23), rng.randint(0, 59), rng.randint(0, 59)
        usec = rng.choice([0, 1, 999, 1000, 500000, 999000, 999999, rng.randint(0, 999999)])
    return dt.datetime(y, m, d, h, mi, sec, usec)


META = set(".+*?^$()[]{}|\\")
CLS_META = set("^]\\-[")


def plain(r):
    """mirror of Template.URegex.plain: the regex source means what its literal reading says.  typhon joins value
    lists with '|' WITHOUT re.escape, so a word containing a metacharacter is a regex (outside the claim)."""
    if r[0] == "A":
        return not any(set(w) & META for w in r[1])
    if r[0] == "C":
        return bool(r[1]) and all(ord(a) <= ord(b) and a not in CLS_META and b not in CLS_META for a, b in r[1])
    return True


def gen_regex(rng):
    k = rng.choice(["A", "A", "A1", "D", "P", "P", "Z", "C", "C"])
    alpha = "abcdefgmnopst"
    extra = rng.choice(["", "", "-_", "-_", "-_.", ".", "+", "?", "*", "(", "[a", "^", "$"])   # '.', … : a word becomes a regex
    word = lambda: "".join(rng.choice(alpha + "0189" + extra) for _ in range(rng.randint(1, 5)))
    if k == "A":
        ws = [word() for _ in range(rng.randint(2, 4))]
        if rng.random() < 0.3:                        # one word a proper prefix of another
            ws.insert(rng.randint(0, len(ws)), ws[0] + word())
        return ["A", ws]
    if k == "A1":
        return ["A", [word()]]
    if k == "D":
        return ["D", rng.randint(1, 4)]
    if k in "PZ":
        return [k]
    rs = rng.choice([[["a", "z"]], [["a", "z"], ["0", "9"]], [["A", "Z"]], [["a", "f"], ["_", "_"]], [["0", "9"]],
                     [["a", "z"], [".", "."]], [["a", "c"], ["_", "_"], [".", "."]],
                     [["^", "^"], ["a", "a"]], [["a", "z"], ["-", "-"]], [["z", "a"]]])   # last three: not plain
    return ["C", rs, rng.choice(["+", "+", "*", rng.randint(1, 3)])]


def gen_value(rng, r, wild=False):
    if r[0] == "A":
        return rng.choice(r[1])
    if r[0] == "D":
        return "".join(rng.choice("0123456789") for _ in range(r[1]))
    if r[0] in "PZ":
        lo = 1 if r[0] == "P" else 0
        alpha = "abcNOAA0123456789" + ("._-" if wild else "")
        return "".join(rng.choice(alpha) for _ in range(rng.randint(lo, 6)))
    chars = [chr(c) for a, b in r[1] for c in range(ord(a), ord(b) + 1)] or ["a"]
    n = r[2] if isinstance(r[2], int) else rng.randint(1 if r[2] == "+" else 0, 5)
    return "".join(rng.choice(chars) for _ in range(n))


def first_char_set(r):
    """characters that can occur in values of r (None = anything)"""
    if r[0] == "A":
        return set("".join(r[1]))
    if r[0] == "D":
        return set("0123456789")
    if r[0] in "PZ":
        return None
    return {chr(c) for a, b in r[1] for c in range(ord(a), ord(b) + 1)}


def fixed_width(r):
    return r[0] == "D" or (r[0] == "C" and isinstance(r[2], int)) or (r[0] == "A" and len({len(w) for w in r[1]}) == 1)


def gen_case(rng, stream):
    """stream: 'valid' (statement's hypotheses hold), 'wild' (anything the model covers)"""
    wild = stream == "wild"
    year_kind = rng.choice(["year", "year", "year2"]) if not wild else rng.choice(["year", "year2", "both", "none"])
    date_kind = rng.choice(["md", "md", "doy"]) if not wild else rng.choice(["md", "doy", "m", "d", "none", "mddoy"])
    ntime = rng.choice([0, 0, 1, 2, 3, 3, 4])
    subsec = rng.choice(["decisecond", "centisecond", "microsecond", "millisecond"]) if (not wild and rng.random() < 0.07) else None
    if subsec:
        ntime = 3
    start = {"year": ["year"], "year2": ["year2"], "both": ["year", "year2"], "none": []}[year_kind] + \
            {"md": ["month", "day"], "doy": ["doy"], "m": ["month"], "d": ["day"], "none": [], "mddoy": ["month", "day", "doy"]}[date_kind] + \
            TIME_KINDS[:ntime] + ([subsec] if subsec else [])
    if wild and rng.random() < 0.3:
        start = [f for f in start if rng.random() < 0.8]
        if rng.random() < 0.5:
            start.append(rng.choice(["decisecond", "centisecond", "microsecond", "millisecond"]))
        start = list(dict.fromkeys(start))
    end_kind = rng.choice(["none", "none", "full", "full", "subday", "subday", "partial"]) if not wild else \
        rng.choice(["none", "full", "subday", "partial", "random"])
    if subsec:
        end_kind = rng.choice(["none", "full"])
    if end_kind == "none":
        end = []
    elif end_kind == "full":
        ey = rng.choice(["year", "year2"]) if rng.random() < 0.3 else ("year2" if year_kind == "year2" else "year")
        ed = rng.choice([["month", "day"], ["doy"]]) if rng.random() < 0.3 else (["doy"] if date_kind == "doy" else ["month", "day"])
        end = [ey] + ed + (TIME_KINDS[:3] + [subsec] if subsec else TIME_KINDS[:max(ntime, rng.choice([0, ntime, 4]))])
    elif end_kind == "subday":
        end = TIME_KINDS[:rng.randint(1, 4)]
        if rng.random() < 0.3:                        # no end_hour: rolls over by one hour / one minute
            i = rng.choice([1, 1, 2])
            end = TIME_KINDS[i:rng.randint(i + 1, 4)]
    elif end_kind == "partial":
        end = rng.choice([["day"], ["month", "day"], ["day", "hour"], ["month", "day", "hour", "minute"], ["doy"], ["month"]])
    else:
        end = [f for f in FIELDS if rng.random() < 0.3]
    # user placeholders
    nuser = rng.choice([0, 0, 1, 1, 2])
    env, users = {}, []
    for i in range(nuser):
        nm = rng.choice(["sat", "x1", "end_x", "Name", "doy2", "endless", "v"])
        if nm in users:
            continue
        users.append(nm)
        if rng.random() < 0.75:
            env[nm] = gen_regex(rng)
    # layout: items with separators
    items = [["T", f] for f in start] + [["E", f] for f in end] + [["U", u] for u in users]
    if rng.random() < 0.25 or wild:
        # keep start fields in order but move user placeholders around
        us_items = [it for it in items if it[0] == "U"]
        rest = [it for it in items if it[0] != "U"]
        for it in us_items:
            rest.insert(rng.randint(0, len(rest)), it)
        items = rest
    if items and rng.random() < 0.3:                  # repeated placeholders
        for _ in range(rng.randint(1, 2)):
            items.insert(rng.randint(0, len(items)), list(rng.choice(items)))
    if wild and rng.random() < 0.2:
        items.insert(rng.randint(0, len(items)), ["S"])
    ndirs = rng.choice([0, 0, 1, 2, 3])
    toks = [["L", BASE]]
    unamb = True
    special_lit = False
    for idx, it in enumerate(items):
        toks.append(it)
        last = idx == len(items) - 1
        sep = "" if last else rng.choice(SEPS)
        if ndirs and not last and rng.random() < 0.4:
            sep = rng.choice(["", "_"]) + "/" + rng.choice(["", "", "d", "v."])
            ndirs -= 1
        if wild and rng.random() < 0.08:
            sep += rng.choice(["(", "[", "<", "?", "!", "|", "\\"])
            special_lit = True
        r = env.get(it[1], ["P"]) if it[0] == "U" else ["Z"] if it[0] == "S" else None
        if r is not None and not fixed_width(r):
            fc = first_char_set(r)
            if stream == "valid" or rng.random() < 0.7:
                # the next literal starts with a character that cannot occur in the value
                cand = ["%"] if fc is None else [c for c in "_-.TZx" if c not in fc]
                if not sep or sep[0] not in cand:
                    sep = rng.choice(cand) + sep
            else:
                unamb = False
        if sep:
            toks.append(["L", sep])
    toks.append(["L", rng.choice([".nc", ".dat", ".txt", ".h5", "", ".nc.v2", "_end"])])
    # merge adjacent literals
    merged = []
    for t in toks:
        if t[0] == "L" and merged and merged[-1][0] == "L":
            merged[-1] = ["L", merged[-1][1] + t[1]]
        elif t[0] != "L" or t[1]:
            merged.append(t)
    toks = merged
    # no path component may be '.'/'..'/empty (abspath would normalise it)
    path = tpl_str(toks)
    if any(c in ("", ".", "..") for c in path.split("/")[1:]) or path.endswith("/"):
        return None
    if any(path.endswith(sfx) for sfx in (".gz", ".zip", ".bz2", ".xz")):
        return None
    # period
    y2 = "year2" in start or "year2" in end
    s = gen_datetime(rng, y2, wild)
    allF = set(start)
    if not wild or rng.random() < 0.7:
        s = trunc(s, allF)
    delta = rng.choice([0, 1000, 10**6, 59 * 10**6, 60 * 10**6, 3600 * 10**6, 86399 * 10**6, DAY - 1000, DAY, 2 * DAY,
                        31 * DAY, 365 * DAY, 366 * DAY, rng.randint(0, DAY), rng.randint(0, 40 * DAY)])
    if end_kind == "subday" and rng.random() < 0.8:
        delta = rng.choice([0, 1000, 60 * 10**6, 3600 * 10**6, DAY - 1000, DAY - 60 * 10**6, DAY - 3600 * 10**6, rng.randint(0, DAY - 1)])
        if end and end[0] in ("minute", "second"):    # stay within the unit that is added on roll-over
            unit = SUPERIOR_US[end[0]]
            delta = rng.choice([0, 1000, 10**6, unit - 1000, unit - 10**6, unit // 2, rng.randint(0, unit - 1)])
    try:
        e = s + dt.timedelta(microseconds=delta)
    except OverflowError:
        e = s
    if y2 and not wild and not 1965 <= e.year <= 2064:
        e = s
    if wild and rng.random() < 0.1:
        e = s - dt.timedelta(microseconds=rng.choice([1000, 10**6, DAY])) if s.year > 1 else s
    if not wild or rng.random() < 0.7:
        e = trunc(e, set(end) | (allF if end_kind == "subday" else set()))
        if e < s:
            e = s
    # fill
    fill = {}
    for u in users:
        r = env.get(u, ["P"])
        if wild and rng.random() < 0.15:
            continue                                   # unfilled
        fill[u] = gen_value(rng, r, wild and rng.random() < 0.3)
        if wild and rng.random() < 0.05:
            fill[u] += rng.choice("*?|(")
    if not wild:
        # keep the promise of `unambiguous`: the literal following a variable-width value must not occur in it
        pass
    mode = rng.choice(["f", "f", "f", "b", "b", "h"])
    tc = rng.choice([None, None, 3600 * 10**6, 1000, DAY, 90 * 60 * 10**6])
    single = not any(t[0] != "L" for t in toks)
    if single:
        tc = None
    handler = None
    if mode != "f":
        hk = rng.choice(["both", "start", "none", "end", "both"])
        hs = us(gen_datetime(rng, False)) if hk in ("both", "start") else None
        he = (hs if hs is not None else us(gen_datetime(rng, False))) + rng.choice([0, 10**6, DAY]) if hk in ("both", "end") else None
        if he is not None and he > us(dt.datetime.max):
            he = hs
        hattrs = {}
        if rng.random() < 0.6:
            hattrs[rng.choice(users + ["orbit", "sat"])] = rng.choice(["H1", "x", "42"])
        if rng.random() < 0.3:
            hattrs["extra"] = "e"
        handler = {"s": hs, "e": he, "attrs": hattrs}
    case = {"toks": toks, "env": env, "env_as_list": rng.random() < 0.3, "s": us(s), "e": us(e), "fill": fill,
            "mode": mode, "tc": tc, "handler": handler, "names": [], "stream": stream,
            "unambiguous": unamb and not special_lit and not any(t[0] == "S" for t in toks)}
    if any(not plain(r) for r in env.values()):
        # out of the claim: judged by the oracle only (real code vs Python's re semantics: an accepted name must
        # re-instantiate the template), never against the literal reading of the model
        case["nonplain"] = True
        case["unambiguous"] = False
    if special_lit and any(c in "([?|" for t in toks if t[0] == "L" for c in t[1]):
        case["format_only"] = True                    # regex-active literal: outside the matcher fragment
    if rng.random() < 0.12:
        case["single_time"] = True              # get_filename(t): one datetime, end = start
        case["e"] = case["s"]
    fields = {t[1] for t in toks if t[0] in "TE"}
    if (fields - FILLABLE) and all(u in fill for u in users) and us(s) <= case["e"] \
            and not any(t[0] == "S" for t in toks) and not special_lit:
        # get_filename cannot fill deci/centi/microsecond: the harness writes the name itself
        case["rendered"] = instantiate(toks, s, from_us(case["e"]), fill)[0]
    if wild and rng.random() < 0.1:
        t2 = [list(t) for t in toks]
        t2.insert(rng.randint(1, len(t2)), ["U", rng.choice(["zzz", "sat", "unknown_1"])])
        case["tpl2"] = t2
    # the value of a variable-width placeholder must not contain the character that follows it
    if case["unambiguous"]:
        for i, t in enumerate(toks):
            if t[0] == "U" and not fixed_width(env.get(t[1], ["P"])) and t[1] in fill:
                nxt = toks[i + 1] if i + 1 < len(toks) else None
                if nxt is None or nxt[0] != "L" or nxt[1][0] in fill[t[1]] or "\n" in fill[t[1]]:
                    case["unambiguous"] = False
                fc = first_char_set(env.get(t[1], ["P"]))
                if nxt is not None and nxt[0] == "L" and fc is not None and nxt[1][0] in fc:
                    case["unambiguous"] = False
    return case


def mutate_names(rng, case, name):
    """names derived from a valid one; returns [(name, definitely_bad)]"""
    out = []
    toks = case["toks"]
    fixed_only = all(t[0] in "LTE" or (t[0] == "U" and fixed_width(case["env"].get(t[1], ["P"]))) for t in toks)
    if case.get("nonplain"):
        fixed_only = False                     # a word with a metacharacter is a regex: its width is not fixed
    if fixed_only:
        # only a well-formed name (every field at its nominal width, e.g. no 3-digit year) has a known length
        def _w(t):
            if t[0] == "L":
                return len(t[1])
            if t[0] in "TE":
                return WIDTH[t[1]]
            r = case["env"].get(t[1], ["P"])
            return r[1] if r[0] == "D" else r[2] if r[0] == "C" else len(r[1][0])
        fixed_only = sum(_w(t) for t in toks) == len(name)
    out.append(("x" + name[1:], True))
    if toks[-1][0] == "L":
        c = name[-1]
        out.append((name[:-1] + ("q" if c != "q" else "r"), True))
    if fixed_only:
        out.append((name[:-1], True))
        out.append((name + "0", True))
        digs = [i for i, c in enumerate(name) if c.isdigit() and i >= len(BASE)]
        has_digit_lit = any(c.isdigit() for t in toks[1:] if t[0] == "L" for c in t[1])
        if digs and not has_digit_lit and not any(t[0] == "U" for t in toks):
            i = rng.choice(digs)
            out.append((name[:i] + "a" + name[i + 1:], True))
    else:
        i = rng.randint(len(BASE), max(len(BASE), len(name) - 1))
        out.append((name[:i] + rng.choice("_.a0/") + name[i:], False))
        out.append((name[:i] + name[i + 1:], False))
    # numeric mutations that stay syntactically valid: month 13, day 32, doy 000/367/999, hour 24 ...
    if fixed_only and rng.random() < 0.7:
        pos = len(BASE)
        spans = []
        p = 0
        for t in toks:
            if t[0] == "L":
                p += len(t[1])
            elif t[0] in "TE":
                spans.append((p, WIDTH[t[1]], t[1]))
                p += WIDTH[t[1]]
            else:
                r = case["env"].get(t[1], ["P"])
                p += r[1] if r[0] == "D" else r[2] if r[0] == "C" else len(r[1][0])
        if spans and p == len(name):
            a, w, f = rng.choice(spans)
            bad = {"month": ["13", "00"], "day": ["32", "00", "31", "30", "29"], "doy": ["000", "366", "367", "999"],
                   "hour": ["24", "99"], "minute": ["60"], "second": ["60", "61"], "year": ["0000", "9999", "0001"],
                   "year2": ["64", "65", "00", "99"], "millisecond": ["999"], "microsecond": ["999999"],
                   "centisecond": ["99"], "decisecond": ["9"]}[f]
            out.append((name[:a] + rng.choice(bad) + name[a + w:], False))
    return out


# ------------------------------------------------------------------ one batch: real code + oracle + model
def dup_alt(case):
    """a user placeholder whose regex is a top-level alternation occurs more than once"""
    names = [t[1] for t in case["toks"] if t[0] == "U"]
    return any(names.count(n) > 1 and case["env"].get(n, ["P"])[0] == "A" and len(case["env"][n][1]) > 1 for n in set(names))


def classify(what):
    for k in ("name-mismatch", "start-mismatch", "end-mismatch", "attrs-mismatch", "caps-mismatch", "not-rejected",
              "error-class", "unsound-parse"):
        if what.startswith(k):
            return k
    return "other"


def check_oracle(ck, case, real):
    exp = expected(case)
    slim = {k: v for k, v in case.items() if k != "names" and not k.startswith("_")}
    viol = lambda what: ck.violation("dup-alternation" if dup_alt(case) else classify(what), what, slim)
    if "ctor" in real:
        viol(f"error-class: FileSet() raised {real['ctor']}")
        return False
    if "fmt" in exp and real["fmt"] != exp["fmt"]:
        viol(f"name-mismatch: get_filename gave {real['fmt']}, expected {exp['fmt']}" if exp["fmt"][0] == "ok" and real["fmt"][0] == "ok"
             else f"error-class: get_filename gave {real['fmt']}, expected {exp['fmt']}")
        return False
    if (real.get("fmt", ("err",))[0] != "ok" and not case.get("rendered")) or not real["names"] or case.get("tpl2") \
            or case.get("format_only"):
        return False
    r0 = real["names"][0]
    nontrivial = False
    if "caps" in exp:
        want = [(key_of_pyname(k), v) for k, v in exp["caps"].items()]
        if r0["parse"] != ("ok", want):
            viol(f"caps-mismatch: parse_filename({r0['name']!r}) gave {r0['parse']}, expected {want}")
    if "info_err" in exp:
        if r0["info"][0] != "err":
            viol(f"error-class: get_info gave {r0['info']}, expected an error")
    if r0["info"][0] == "ok":
        _, a, b, attrs = r0["info"]
        if "start" in exp:
            nontrivial = True
            if a != us(exp["start"]):
                viol(f"start-mismatch: get_info({r0['name']!r}) start {from_us(a)} expected {exp['start']}")
        if "end" in exp and b != us(exp["end"]):
            viol(f"end-mismatch: get_info({r0['name']!r}) end {from_us(b)} expected {exp['end']}")
        if "attrs" in exp and attrs != exp["attrs"]:
            viol(f"attrs-mismatch: get_info({r0['name']!r}) attrs {attrs} expected {exp['attrs']}")
    elif "start" in exp:
        viol(f"error-class: get_info({r0['name']!r}) raised {r0['info'][1]}, expected start {exp['start']}")
    # rejection of names that certainly do not match
    bad = case.get("_definitely_bad", [])
    for r in real["names"][1:]:
        if r["name"] in bad:
            if case.get("nonplain"):
                # outside the claim the regex itself may be invalid (re.error): any rejection is fine
                if r["parse"][0] != "err" or (case["mode"] in ("f", "b") and r["info"][0] != "err"):
                    viol(f"not-rejected: {r['name']!r} gave {r['parse']} / {r['info']} for template {tpl_str(case['toks'])!r}")
                continue
            if r["parse"] != ("err", "valueError"):
                viol(f"not-rejected: parse_filename({r['name']!r}) gave {r['parse']} for template {tpl_str(case['toks'])!r}")
            if case["mode"] in ("f", "b") and r["info"] != ("err", "valueError"):
                viol(f"not-rejected: get_info({r['name']!r}) gave {r['info']} for template {tpl_str(case['toks'])!r}")
    # soundness of every accepted name (templates without star and without repeated placeholders)
    phs = [tuple(t) for t in case["toks"] if t[0] != "L"]
    import re

    def self_contained(r):
        """a non-plain regex still leaves the structure of the whole pattern intact"""
        try:
            return re.compile("(?:" + regex_src(r) + ")").groups == 0
        except re.error:
            return False
    if len(set(phs)) == len(phs) and not any(t[0] == "S" for t in case["toks"]) \
            and all(plain(r) or self_contained(r) for r in case["env"].values()):
        for r in real["names"]:
            if r["parse"][0] != "ok":
                continue
            caps = dict(r["parse"][1])
            rebuilt = []
            ok = True
            for t in case["toks"]:
                if t[0] == "L":
                    rebuilt.append(t[1])
                else:
                    key = ("T%d" % FIELDS.index(t[1])) if t[0] == "T" else ("E%d" % FIELDS.index(t[1])) if t[0] == "E" else "U" + enc_str(t[1])
                    v = caps.get(key)
                    if v is None:
                        ok = False
                        break
                    rx = r"\d{%d}" % WIDTH[t[1]] if t[0] in "TE" else regex_src(case["env"].get(t[1], ["P"]))
                    try:
                        full = re.fullmatch("(?:" + rx + ")", v, re.ASCII)
                    except re.error:
                        full = True                     # invalid regex (outside the claim): nothing to check
                    if not full and not (v.endswith("\n")):
                        ok = False
                    rebuilt.append(v)
            rb = "".join(rebuilt)
            if not ok or (rb != r["name"] and rb + "\n" != r["name"]):
                viol(f"unsound-parse: parse_filename({r['name']!r}) = {caps} does not instantiate {tpl_str(case['toks'])!r}")
    return nontrivial


def canon(r):
    """Outside the claim only 'both reject or both accept with equal result' is required: the exception class
    counts only for the errors the property names (ValueError for a name that does not match the template)."""
    out = dict(r)
    p, i = r.get("parse"), r.get("info")
    if p and p[0] == "err" and p[1] != "valueError":
        out["parse"] = ("err", "reject")
    if i and i[0] == "err" and not (i[1] == "valueError" and p == ("err", "valueError")):
        out["info"] = ("err", "reject")
    return out


def canon_fmt(f):
    if f[0] == "err" and f[1] not in ("unknownPlaceholder", "unfilledPlaceholder"):
        return ("err", "reject")
    return f


def run_batch(ck, cases, use_model=True):
    reals = []
    for case in cases:
        real = run_real(case)
        # derive mutated names from the generated one (needs the real/expected name)
        base = real["fmt"][1] if real.get("fmt", ("err",))[0] == "ok" else case.get("rendered")
        if base and "ctor" not in real and not case.get("tpl2") and not case.get("format_only") and case.get("_mutate"):
            rng = case.pop("_mutate")
            muts = mutate_names(rng, case, base)
            case["names"] = list(case.get("names", [])) + [m for m, _ in muts]
            case["_definitely_bad"] = [m for m, b in muts if b]
            real = run_real(case)
        case.pop("_mutate", None)
        reals.append(real)
    lines, spans = [], []
    for case, real in zip(cases, reals):
        names = [r["name"] for r in real["names"]]
        ls = model_lines(case, names)
        spans.append((len(lines), len(ls), names))
        lines += ls
    out = ck.driver(lines) if use_model else None
    for case, real, (a, n, names) in zip(cases, reals, spans):
        ood = out_of_domain(case)
        if ood:
            ck.count("out-of-domain/" + ood)
            case.pop("_definitely_bad", None)
            nontriv = False
            exp0 = expected(case)               # only the time-independent error classes of get_filename remain claimed
            if "fmt" in exp0 and "ctor" not in real and real["fmt"] != exp0["fmt"]:
                ck.violation(classify("error-class"), f"error-class: get_filename gave {real['fmt']}, expected {exp0['fmt']}",
                             {k: v for k, v in case.items() if k != "names" and not k.startswith("_")})
        else:
            nontriv = check_oracle(ck, case, real)
        case.pop("_definitely_bad", None)
        slim = {k: v for k, v in case.items() if not k.startswith("_")}
        tpl = tpl_str(case["toks"])
        kind = f"{case.get('stream', 'corpus')}/{case['mode']}/" + (real.get("fmt", ("ctor", ""))[0] if real.get("fmt", ("x", ""))[0] != "err" else real["fmt"][1])
        ck.case(key=(tpl, case["s"], case["e"]) if nontriv else None, kind=kind,
                sample={"template": tpl, "s": str(from_us(case["s"])), "e": str(from_us(case["e"])), "fill": case["fill"],
                        "name": real.get("fmt", ("", ""))[1]})
        if case.get("rendered"):
            ck.count("feature/harness-rendered-subsecond-name")
        if case.get("single_time"):
            ck.count("feature/get_filename(single datetime)")
        E_ = {t[1] for t in case["toks"] if t[0] == "E"}
        if E_ and E_ <= set(TIME_KINDS) and "hour" not in E_:
            ck.count("feature/sub-day end without end_hour")
        if not use_model or "ctor" in real:
            continue
        model = parse_model(out[a:a + n], case, names)
        if ood:
            # diagnostic only: a difference on out-of-domain input is recorded, it is not a verdict
            def disagree(what, c, _ood=ood):
                ck.count("out-of-domain/diagnostic-disagreement")
                if len(ck.notes) < 20:
                    ck.notes.append(f"diagnostic (out-of-domain, {_ood}): {what[:300]}")
        else:
            disagree = ck.disagree
        if "bad" in model:
            disagree(f"driver rejected the case: {model['bad']}", slim)
            continue
        if canon_fmt(model["fmt"]) != canon_fmt(real["fmt"]):
            disagree(f"get_filename: model {model['fmt']} vs code {real['fmt']}", slim)
            continue
        if case.get("nonplain"):
            ck.count("out-of-claim/regex-metacharacter-in-value-list-or-class")
            continue
        for rm, rr in zip(model["names"], real["names"]):
            rm, rr = canon(rm), canon(rr)
            if rm.get("parse") != rr.get("parse"):
                disagree(f"parse_filename({rr['name']!r}): model {rm.get('parse')} vs code {rr.get('parse')}", dict(slim, names=[rr["name"]]))
            if rm.get("info") != rr.get("info"):
                disagree(f"get_info({rr['name']!r}): model {rm.get('info')} vs code {rr.get('info')}", dict(slim, names=[rr["name"]]))


def explore(ck, n, use_model=True):
    import random
    batch = []
    for i in range(n):
        stream = "valid" if ck.rng.random() < 0.8 else "wild"
        case = gen_case(ck.rng, stream)
        if case is None:
            continue
        case["_mutate"] = random.Random(ck.rng.getrandbits(32))
        batch.append(case)
        if len(batch) >= 400:
            run_batch(ck, batch, use_model)
            batch = []
    if batch:
        run_batch(ck, batch, use_model)


# ------------------------------------------------------------------ calendar stream (model vs CPython datetime)
def calendar_stream(ck, n):
    rng = ck.rng
    lines, want = [], []
    for _ in range(n):
        t = gen_datetime(rng, False, wild=True)
        lines.append(f"tom {t.year} {t.month} {t.day} {t.hour} {t.minute} {t.second} {t.microsecond}")
        want.append(str(us(t)))
        lines.append(f"ofm {us(t)}")
        want.append(f"{t.year} {t.month} {t.day} {t.hour} {t.minute} {t.second} {t.microsecond}")
        y, doy = t.year, rng.choice([0, 1, 59, 60, 61, 365, 366, 367, 999, rng.randint(0, 999)])
        lines.append(f"doy {y} {doy}")
        try:
            d = dt.datetime(y, 1, 1) + dt.timedelta(doy - 1)
            want.append(f"{d.year} {d.month} {d.day}")
        except OverflowError:
            want.append("none")
    for bad in ["2018 2 29 0 0 0 0", "2018 13 1 0 0 0 0", "0 1 1 0 0 0 0", "10000 1 1 0 0 0 0", "2018 4 31 0 0 0 0",
                "2018 1 1 24 0 0 0", "2018 1 1 0 60 0 0", "2018 1 1 0 0 60 0", "2018 1 1 0 0 0 1000000", "1900 2 29 0 0 0 0"]:
        lines.append("tom " + bad)
        want.append("invalid")
    lines += ["ofm -1", f"ofm {us(dt.datetime.max) + 1}", f"ofm {us(dt.datetime.max)}", "ofm 0"]
    want += ["none", "none", "9999 12 31 23 59 59 999999", "1 1 1 0 0 0 0"]
    out = ck.driver(lines)
    for l, w, o in zip(lines, want, out):
        ck.count("calendar")
        if w != o:
            ck.disagree(f"calendar: '{l}' model '{o}' vs datetime '{w}'", {"op": "calendar", "line": l})
    ck.evaluations += len(lines)


# ------------------------------------------------------------------ exhaustive year2/doy sweep (thorough)
def exhaustive_year2_doy(ck, use_model=True):
    """every day of 1965-01-01 .. 2064-12-31 through {year2}{doy} (+ a full end and a sub-day end)"""
    from typhon.files import FileSet
    tplA = [["L", BASE + "d"], ["T", "year2"], ["T", "doy"], ["L", "_"], ["E", "year2"], ["E", "doy"], ["L", ".nc"]]
    tplB = [["L", BASE], ["T", "year2"], ["L", "/"], ["T", "doy"], ["L", "/f"], ["T", "hour"], ["L", "-"], ["E", "hour"], ["L", ".dat"]]
    fsA, fsB = FileSet(tpl_str(tplA)), FileSet(tpl_str(tplB))
    day = dt.datetime(1965, 1, 1)
    last = dt.datetime(2064, 12, 31)
    lines = ["tpl " + enc_toks(tplA), "env"]
    recs = []
    while day <= last:
        nxt = min(day + dt.timedelta(days=1), last)
        name = fsA.get_filename((day, nxt))
        fsA.reset_cache()
        info = fsA.get_info(name)
        want_name = f"{BASE}d{day.year % 100:02d}{day.timetuple().tm_yday:03d}_{nxt.year % 100:02d}{nxt.timetuple().tm_yday:03d}.nc"
        c = {"op": "exh", "tpl": "A", "day": us(day)}
        if name != want_name:
            ck.violation("name-mismatch", f"name-mismatch: get_filename({day}) = {name!r} expected {want_name!r}", c)
        if info.times != [day, nxt]:
            ck.violation("start-mismatch", f"start-mismatch: get_info({name!r}) = {info.times} expected {[day, nxt]}", c)
        lines.append(f"fmt {us(day)} {us(nxt)}")
        lines.append(f"info f - - - {enc_str(name)}")
        recs.append((c, name, us(info.times[0]), us(info.times[1])))
        ck.case(key=("A", us(day)), kind="exhaustive/year2-doy")
        day += dt.timedelta(days=1)
    if use_model:
        out = ck.driver(lines)
        for i, (c, name, a, b) in enumerate(recs):
            o1, o2 = out[2 + 2 * i], out[3 + 2 * i]
            if o1 != "ok " + enc_str(name) or o2.split()[:3] != ["ok", str(a), str(b)]:
                ck.disagree(f"exhaustive A: model {o1[:40]} / {o2} vs code {name} {a} {b}", c)
    # B: 23h -> 01h next day over every midnight (sub-day end rolls to the next day)
    day = dt.datetime(1965, 1, 1, 23)
    lines = ["tpl " + enc_toks(tplB), "env"]
    recs = []
    while day + dt.timedelta(hours=2) <= dt.datetime(2064, 12, 31, 23):
        e = day + dt.timedelta(hours=2)
        name = fsB.get_filename((day, e))
        fsB.reset_cache()
        info = fsB.get_info(name)
        c = {"op": "exh", "tpl": "B", "day": us(day)}
        if info.times != [day, e]:
            ck.violation("end-mismatch", f"end-mismatch: get_info({name!r}) = {info.times} expected {[day, e]}", c)
        lines.append(f"info f - - - {enc_str(name)}")
        recs.append((c, name, us(info.times[0]), us(info.times[1])))
        ck.case(key=("B", us(day)), kind="exhaustive/midnight-rollover")
        day += dt.timedelta(days=1)
    if use_model:
        out = ck.driver(lines)
        for i, (c, name, a, b) in enumerate(recs):
            if out[2 + i].split()[:3] != ["ok", str(a), str(b)]:
                ck.disagree(f"exhaustive B: model {out[2 + i]} vs code {name} {a} {b}", c)


def replay_exh(ck, c):
    from typhon.files import FileSet
    day = from_us(c["day"])
    if c["tpl"] == "A":
        fs = FileSet(BASE + "d{year2}{doy}_{end_year2}{end_doy}.nc")
        nxt = min(day + dt.timedelta(days=1), dt.datetime(2064, 12, 31))
    else:
        fs = FileSet(BASE + "{year2}/{doy}/f{hour}-{end_hour}.dat")
        nxt = day + dt.timedelta(hours=2)
    info = fs.get_info(fs.get_filename((day, nxt)))
    if info.times != [day, nxt]:
        ck.violation("start-mismatch", f"get_info(get_filename({day}, {nxt})) = {info.times}", c)



# ------------------------------------------------------------------ boundary sweep of two-digit years (every tier)
def boundary_year2(ck, use_model=True):
    """first / last day and leap day of the years around the threshold through year2 templates (start AND end)"""
    cases = []
    L, T, E = (lambda s: ["L", s]), (lambda f: ["T", f]), (lambda f: ["E", f])
    tpls = [[L(BASE + "b"), T("year2"), T("doy"), L("-"), E("year2"), E("doy"), L(".nc")],
            [L(BASE), T("year2"), L("/"), T("month"), T("day"), L("_"), E("year2"), E("month"), E("day"), L(".dat")]]
    for y in (1965, 1966, 1999, 2000, 2063, 2064):
        for (m, d) in ((1, 1), (2, 28), (12, 31)):
            s = dt.datetime(y, m, d)
            for e in (s, min(s + dt.timedelta(days=1), dt.datetime(2064, 12, 31)), dt.datetime(2064, 12, 31)):
                for toks in tpls:
                    cases.append({"toks": toks, "env": {}, "env_as_list": False, "s": us(s), "e": us(e), "fill": {},
                                  "mode": "f", "tc": None, "handler": None, "names": [], "stream": "year2-boundary",
                                  "unambiguous": True})
    run_batch(ck, cases, use_model)


# ------------------------------------------------------------------ oracle-only stream: user regexes outside the model's fragment
def _rx_pieces(rng):
    """(regex source, sampler) pairs; samplers only produce letters, digits, '-' and '_' (never a special character)"""
    up, lo, dg = "ABCDEFGHXYZ", "abcdefgxyz", "0123456789"
    word = lambda k=3: "".join(rng.choice(lo) for _ in range(rng.randint(1, k)))
    alts = [rng.choice(["NOAA", "Metop", "a", "bc", "v", "V", "sat", "x1"]) for _ in range(rng.randint(2, 3))]
    alts = list(dict.fromkeys(alts))
    return [
        ("(?:" + "|".join(alts) + ")", lambda: rng.choice(alts)),
        (r"-\w", lambda: "-" + rng.choice(up + lo + dg)),
        (r"\d+", lambda: "".join(rng.choice(dg) for _ in range(rng.randint(1, 3)))),
        (r"[a-z]", lambda: rng.choice(lo)),
        (r"[A-Z]{2}", lambda: rng.choice(up) + rng.choice(up)),
        (r"(?:_x)?", lambda: rng.choice(["", "_x"])),
        (r"(?:v|V)\d", lambda: rng.choice("vV") + rng.choice(dg)),
        (r"(?:[a-c]+|Z)", lambda: rng.choice(["Z", "".join(rng.choice("abc") for _ in range(rng.randint(1, 3)))])),
        (r"[a-z]+(?:-[0-9]{2})?", lambda: word() + rng.choice(["", "-" + rng.choice(dg) + rng.choice(dg)])),
        ("_", lambda: "_"),
    ]


def gen_outside_regex(rng):
    pieces = _rx_pieces(rng)
    k = rng.randint(1, 3)
    chosen = [rng.choice(pieces) for _ in range(k)]
    if rng.random() < 0.6:                       # a group that is NOT the end of the regex
        chosen = [pieces[0]] + chosen[:2]
    return "".join(p[0] for p in chosen), "".join(p[1]() for p in chosen)


def own_regex(toks, env):
    """independent construction of the pattern a template denotes: literal text escaped, every placeholder a named
    group at its first occurrence and the same regex, non-capturing, afterwards"""
    import re
    out, seen = ["^"], set()
    for t in toks:
        if t[0] == "L":
            out.append(re.escape(t[1]))
            continue
        name = t[1] if t[0] in "TU" else "end_" + t[1]
        rx = r"\d{%d}" % WIDTH[t[1]] if t[0] in "TE" else env[t[1]]
        out.append(("(?:%s)" % rx) if name in seen else ("(?P<%s>%s)" % (name, rx)))
        seen.add(name)
    return "".join(out) + r"\Z"


def regex_outside_stream(ck, n):
    """ORACLE ONLY (no model): custom user regexes with groups / alternations / classes / quantifiers, the placeholder
    occurring 1..3 times; the property's own sentence is required of the real code."""
    import re
    from typhon.files import FileSet
    rng = ck.rng
    L, T, E, U = (lambda s: ["L", s]), (lambda f: ["T", f]), (lambda f: ["E", f]), (lambda u: ["U", u])
    for _ in range(n):
        nuser = rng.choice([1, 1, 2])
        env, fill = {}, {}
        for u in rng.sample(["sat", "orbit", "ver"], nuser):
            env[u], fill[u] = gen_outside_regex(rng)
        y2 = rng.random() < 0.3
        date = ([T("year2")] if y2 else [T("year")]) + rng.choice([[T("month"), T("day")], [T("doy")]])
        ntime = rng.choice([0, 2, 3])
        start = date + [T(k) for k in TIME_KINDS[:ntime]]
        endk = rng.choice(["none", "full", "subday"]) if ntime else rng.choice(["none", "full"])
        end = [] if endk == "none" else [E(t[1]) for t in start] if endk == "full" else [E(k) for k in TIME_KINDS[:ntime]]
        items = [[t] for t in start] + ([[L("-")] + [[x] for x in end][0]] + [[x] for x in end][1:] if end else [])
        # user placeholders: each 1..3 times, always between '%'-free literal separators that cannot occur in a fill
        seps = ["/", "=", "+", ".", "~", ","]
        toks = [L(BASE)]
        occ = [u for u in env for _ in range(rng.randint(1, 3))]
        rng.shuffle(occ)
        slots = sorted(rng.sample(range(len(items) + 1), min(len(items) + 1, len(occ)))) if occ else []
        occ = occ[:len(slots)]
        for i, grp in enumerate(items + [[]]):
            while slots and slots[0] == i:
                slots.pop(0)
                u = occ.pop(0)
                toks += [L(rng.choice(["=", "~", ","])), U(u), L(rng.choice(["=", "~", ","]))]
            toks += grp
            if grp and rng.random() < 0.3:
                toks.append(L(rng.choice(["_", ".", "/d", "x"])))
        toks.append(L(rng.choice([".nc", ".dat", ".h5"])))
        merged = []
        for t in toks:
            if t[0] == "L" and merged and merged[-1][0] == "L":
                merged[-1] = ["L", merged[-1][1] + t[1]]
            else:
                merged.append(list(t))
        toks = merged
        path = tpl_str(toks)
        if any(c in ("", ".", "..") for c in path.split("/")[1:]) or "+" in path:
            continue
        S = {t[1] for t in toks if t[0] == "T"}
        Eset = {t[1] for t in toks if t[0] == "E"}
        s = trunc(gen_datetime(rng, y2), S)
        delta = rng.choice([0, 60 * 10**6, 3600 * 10**6, DAY - 60 * 10**6, DAY, 40 * DAY]) if endk != "subday" else \
            rng.choice([0, 60 * 10**6, 3600 * 10**6, DAY - 60 * 10**6])
        try:
            e = s + dt.timedelta(microseconds=delta)
        except OverflowError:
            e = s
        e = trunc(e, Eset | (S if endk == "subday" else set())) if Eset else e
        if e < s or (y2 and not 1965 <= e.year <= 2064):
            e = s
        case = {"op": "regex-outside", "toks": toks, "env": env, "fill": fill, "s": us(s), "e": us(e)}
        regex_outside_case(ck, case)


def regex_outside_case(ck, case):
    import re
    from typhon.files import FileSet
    toks, env, fill = case["toks"], case["env"], case["fill"]
    s, e = from_us(case["s"]), from_us(case["e"])
    S = {t[1] for t in toks if t[0] == "T"}
    Eset = {t[1] for t in toks if t[0] == "E"}
    name, caps = instantiate(toks, s, e, fill)
    # the case is in the claim only when the template's own (independently built) pattern gives the fills back
    try:
        m = re.match(own_regex(toks, env), name)
    except re.error:
        m = None
    if not m or {k: v for k, v in m.groupdict().items()} != caps or any(not re.fullmatch(env[u], fill[u]) for u in env):
        ck.count("oracle-only/regex-outside-fragment (ambiguous, skipped)")
        return
    ck.count("oracle-only/regex-outside-fragment")
    want_start = trunc(s, S)
    want_end = None
    if not Eset:
        want_end = want_start
    elif has_date(Eset, e) and e == trunc(e, Eset):
        want_end = e
    elif Eset <= set(TIME_KINDS) and "hour" in Eset and e == trunc(e, Eset | S):
        c = want_start.replace(**{("microsecond" if k == "millisecond" else k):
                                  ((e.microsecond // 1000) * 1000 if k == "millisecond" else getattr(e, k)) for k in Eset})
        want_end = c + dt.timedelta(days=1) if c < want_start else c
    viol = lambda what: ck.violation("regex-outside-fragment", what, case)
    nrep = max([sum(1 for t in toks if t == ["U", u]) for u in env] + [0])
    key = (tpl_str(toks), case["s"], json.dumps(fill, sort_keys=True))
    try:
        fs = FileSet(tpl_str(toks), placeholder=dict(env))
        got = fs.get_filename((s, e), fill=dict(fill))
        if got != name:
            viol(f"name-mismatch: get_filename gave {got!r}, expected {name!r}")
            return
        d = fs.parse_filename(got)
        if dict(d) != caps:
            viol(f"caps-mismatch: parse_filename({got!r}) gave {dict(d)}, expected {caps} (regex {fs._filled_path!r})")
            return
        fs.reset_cache()
        info = fs.get_info(got)
    except Exception as ex:
        viol(f"error-class: {type(ex).__name__}: {str(ex)[:80]} for the name {name!r} generated from "
             f"{tpl_str(toks)!r} with placeholder={env} fill={fill}")
        ck.case(key=key, kind=f"regex-outside/rep{nrep}")
        return
    if info.times[0] != want_start:
        viol(f"start-mismatch: get_info({got!r}) start {info.times[0]} expected {want_start}")
    if want_end is not None and info.times[1] != want_end:
        viol(f"end-mismatch: get_info({got!r}) end {info.times[1]} expected {want_end}")
    want_attrs = {t[1]: fill[t[1]] for t in toks if t[0] == "U"}
    if {str(k): str(v) for k, v in info.attr.items()} != want_attrs:
        viol(f"attrs-mismatch: get_info({got!r}) attrs {info.attr} expected {want_attrs}")
    ck.case(key=key, kind=f"regex-outside/rep{nrep}",
            sample={"template": tpl_str(toks), "placeholder": env, "fill": fill, "name": got})

# ------------------------------------------------------------------ main
TRUSTED = [
    "hand-written model Model/{Digits,Time,Template}.lean tied to FileSet.get_filename/parse_filename/get_info by the correspondence run of this check (driver drv_c02: same templates, periods, fills, names; compared: name string, capture list in order, start/end in µs, attribute dict, error class)",
    "Python's `re` engine is represented by Template.matchItems for the fragment {literal, \\d{n}, .+?, .*?, alternation of literal words, character class with + * {n}}; `str.format`, `int()`, `datetime` are modelled (Digits/Time) and checked against CPython by the calendar stream",
    "the harness renders token lists / regex ASTs to the template and regex strings handed to typhon (tpl_str, regex_src)",
]
ASSUMPTIONS = [
    "ASCII names (\\d is modelled as [0-9]); user regexes inside the fragment; user placeholder names differ from the temporal ones",
    "templates are absolute paths without '.'/'..'/empty components (os.path.abspath is the identity on them)",
    "an end naming day/month but not the next coarser unit rolls over by a fixed 31 d / 366 d: reproduced by the model, outside C02's claim (observation in DESIGN §6)",
]
ANCHORS = [("typhon/files/fileset.py", "FileSet." + n) for n in
           ["get_filename", "_fill_placeholders", "_complete_placeholders_regex", "_remove_group_capturing",
            "_add_group_capturing", "parse_filename", "_to_datetime_args", "_standardise_datetime_args",
            "_retrieve_time_coverage", "_get_superior_time_resolution", "get_info", "path", "set_placeholders"]] + \
          [("typhon/files/handlers/common.py", "FileInfo.update")]


def new_check():
    ck = vlib.Check(PROP, pkg="fileset", props="Proofs.Props.C02", driver="drv_c02",
                    lemma_files=["Proofs/Lemmas/Digits.lean", "Proofs/Lemmas/Time.lean", "Proofs/Lemmas/Template.lean", "Proofs/Lemmas/TemplateEnd.lean", "Proofs/Lemmas/TemplateVar.lean"],
                    model_files=["Model/Digits.lean", "Model/Time.lean", "Model/Template.lean"],
                    trusted=TRUSTED, assumptions=ASSUMPTIONS)
    ck.rule = ("templates from a token grammar (directory+file part, year|year2, month+day|doy, hour..millisecond, end_ fields "
               "complete / sub-day / partial, user placeholders with value lists or regexes of the fragment, dots, repeated "
               "placeholders, 20% wild stream: missing date parts, special characters, unfilled/unknown placeholders, "
               "ambiguous layouts), boundary-biased periods, mutated names; non-trivial = distinct (template, s, e) whose "
               "generated name was parsed back and compared with the oracle's start")
    return ck


def run_corpus_case(ck, c, use_model=True):
    if c.get("op") == "exh":
        replay_exh(ck, c)
        return
    if c.get("op") == "calendar":
        return
    if c.get("op") == "regex-outside":
        regex_outside_case(ck, c)
        return
    c = json.loads(json.dumps(c))
    run_batch(ck, [c], use_model)


def main():
    ck = new_check()
    ck.anchors(ANCHORS)
    ck.build()
    use_model = os.path.exists(os.path.join(ck.pkgdir, ".lake/build/bin/drv_c02"))
    for name, c in vlib.load_corpus(PROP):
        run_corpus_case(ck, c.get("case", c), use_model)
    if use_model:
        calendar_stream(ck, ck.budget(400, 20000))
    if ck.tier == "thorough":
        exhaustive_year2_doy(ck, use_model)
        ck.exhaustive = True
        ck.notes.append("exhaustive: every day 1965-01-01..2064-12-31 through {year2}{doy}_{end_year2}{end_doy} and every "
                        "midnight through {year2}/{doy}/f{hour}-{end_hour}")
    boundary_year2(ck, use_model)
    regex_outside_stream(ck, ck.budget(600, 20000))
    explore(ck, ck.budget(3000, 150000), use_model)
    if ck.broken() and not ck.violations:
        explore(ck, 60000, use_model=False)
    ck.finish()


def replay(path):
    obj = json.load(open(path))
    ck = vlib.Check(PROP, pkg="fileset", props="Proofs.Props.C02", driver="drv_c02")
    c = obj.get("case")
    if not c:
        print(json.dumps(obj, indent=1)[:2000])
        raise SystemExit(1)
    run_corpus_case(ck, c, use_model=False)
    for v in ck.violations:
        print("REPRODUCED:", v["what"])
    raise SystemExit(1 if ck.violations else 0)
