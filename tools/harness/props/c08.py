"""C08 — Planck radiance, brightness temperature and spectral units are consistent.

Tie: translator (lean/numeric/GenReal/Em.lean regenerated from /repo each run; theorems
Proofs/Props/C08.lean and Proofs/Props/C08Complex.lean re-checked) + Float cross-run + longdouble
expm1/log1p oracle on the real code.  The complex-refractive-index branch of snell / fresnel is the
second translation `snell_c` / `fresnel_c` (spec variant "c"): cross-run per component against
em.snell / em.fresnel, oracle = complex Snell law (Re sqrt(m^2 - sin^2)) computed independently.
"""
import cmath
import json
import math
import os

import numlib
import vlib

PROP = "C08"
FUNCS = ["planck", "planck_wavelength", "planck_wavenumber", "rayleighjeans", "rayleighjeans_wavelength",
         "radiance2planckTb", "radiance2rayleighjeansTb", "frequency2wavelength", "frequency2wavenumber",
         "wavelength2frequency", "wavelength2wavenumber", "wavenumber2frequency", "wavenumber2wavelength",
         "perfrequency2perwavelength", "perwavelength2perfrequency", "perfrequency2perwavenumber",
         "perwavenumber2perfrequency", "snell", "fresnel"]
NEEDED = ["Em." + n for n in FUNCS] + ["Em.snell_c", "Em.fresnel_c"]
COMPLEX_PROPS = "Proofs/Props/C08Complex.lean"
H, K, C = 6.62607015e-34, 1.380649e-23, 299792458.0
EPS = 2.220446049250313e-16


def rel(a, b):
    a, b = float(a), float(b)
    return abs(a - b) / max(abs(a), abs(b), 1e-300)


def gen_fT(rng):
    """f in 1e8..1e15 Hz, T in 2..1e4 K with x = hf/kT in [1e-6, 600]; every 6th point is placed
    deliberately near the ends of the x range (1e-6 and 600) and in the band 450..600"""
    if rng.random() < 0.17:
        x = rng.choice([1.0000001e-6, 1.5e-6, 599.999, 590.0, rng.uniform(450, 600), 10 ** rng.uniform(-6, -5)])
        for _ in range(100):
            T = numlib.loguniform(rng, 2.0, 1e4)
            f = x * K * T / H
            if 1e8 <= f <= 1e15 and 1e-6 <= H * f / (K * T) <= 600:
                return f, T, H * f / (K * T)
    while True:
        f = numlib.loguniform(rng, 1e8, 1e15)
        T = numlib.loguniform(rng, 2.0, 1e4)
        x = H * f / (K * T)
        if 1e-6 <= x <= 600:
            return f, T, x


def complex_ref(n1, n2c, th):
    """independent reference for the complex branch of snell (Born & Wolf / Liou): the real angle of the
    planes of constant phase, tan(theta2) = sin(theta1) / Re sqrt(m^2 - sin^2 theta1), m = n2/n1.
    Returns (theta2 [deg], cos(theta2), tolerance [deg], nan_ok)."""
    sin1 = math.sin(math.radians(th))
    m = n2c / n1
    z = m * m - sin1 * sin1
    q = abs(cmath.sqrt(z).real)
    nr2 = sin1 * sin1 + q * q
    t2 = math.degrees(math.atan2(sin1, q))
    c2 = q / math.sqrt(nr2)
    # rounding of x = sin1/Nr in the code: cancellation factor K of (mr2 - mi2 + s2) + sqrt(...)
    mr2, mi2, s2 = m.real ** 2, m.imag ** 2, sin1 * sin1
    big = abs(mr2 - mi2 + s2) + math.sqrt((mr2 - mi2 - s2) ** 2 + 4 * mr2 * mi2)
    K = max(1.0, big / (2 * nr2))
    # ... and of the reference itself: cancellation in Re z near the critical angle
    K = max(K, (mr2 + mi2 + s2) / max(abs(z), 1e-300))
    err_x = 64 * EPS * K
    if c2 * c2 > 8 * err_x:
        return t2, c2, 1e-7 + math.degrees(2 * err_x / c2), False
    # total-reflection limit (theta2 within sqrt(eps) of 90 deg): arcsin is evaluated at 1 -+ rounding,
    # the code returns 90 or NaN ("NaN beyond total reflection")
    return t2, c2, 1e-7 + math.degrees(2 * math.sqrt(2 * err_x) + c2), True


def gen_complex(rng):
    """(n1, n2re, n2im, theta1, kind): deliberate corners first, then random ones"""
    n1 = numlib.loguniform(rng, 0.5, 4.0)
    n2re = numlib.loguniform(rng, 0.5, 4.0)
    kind = rng.choice(["tiny-imag", "tiny-imag", "weak", "strong", "metal", "dense-n1"])
    if kind == "tiny-imag":
        n2im = 1e-12
    elif kind == "weak":
        n2im = numlib.loguniform(rng, 1e-9, 1e-3)
    elif kind == "strong":
        n2im = numlib.loguniform(rng, 1e-3, 3.0)
    elif kind == "metal":
        n2re, n2im = rng.choice([(0.2, 3.0), (0.2, 3.0), (numlib.loguniform(rng, 0.2, 1.0), numlib.loguniform(rng, 2.0, 6.0))])
    else:                                   # n1 > Re n2: beyond the critical angle of the real part
        n2re = n1 * rng.uniform(0.2, 0.95)
        n2im = rng.choice([1e-12, numlib.loguniform(rng, 1e-9, 1e-1), numlib.loguniform(rng, 1e-3, 3.0)])
    th = rng.choice([0.0, 90.0, 90.0 - 10 ** rng.uniform(-9, -1), rng.uniform(85.0, 90.0), rng.uniform(0, 90), rng.uniform(0, 90)])
    return n1, n2re, n2im, th, kind


def explore_complex(ck, n, em, np, calls, xrun):
    """complex n2 = n2re + i n2im (Im > 0): real code vs the independent complex Snell law, |R| <= 1,
    normal incidence; cross-run of the translated variant snell_c / fresnel_c (appended to `calls`)"""
    rng = ck.rng
    fixed = [(1.0, 0.2, 3.0, 0.0, "metal"), (1.0, 0.2, 3.0, 90.0, "metal"), (1.0, 0.2, 3.0, 89.999999, "metal"),
             (2.0, 1.5, 1e-12, 10.0, "tiny-imag"), (2.0, 1.5, 1e-12, 80.0, "dense-n1"), (2.0, 1.5, 1e-12, 90.0, "dense-n1"),
             (1.0, 1.5, 1e-12, 90.0, "tiny-imag"), (1.0, 1.33, 1e-3, 60.0, "weak"), (1.5, 1.0, 0.5, 89.9, "dense-n1"),
             (1.0, 3.0, 4.0, 0.0, "strong")]
    for i in range(n + len(fixed)):
        n1, n2re, n2im, th, kind = fixed[i] if i < len(fixed) else gen_complex(rng)
        n2c = complex(n2re, n2im)
        carg = [n1, [n2re, n2im], th]
        t2_ref, c2_ref, tol, nan_ok = complex_ref(n1, n2c, th)
        with np.errstate(all="ignore"):
            t2 = float(np.real(em.snell(n1, n2c, th)))
            Rv, Rh = em.fresnel(n1, n2c, th)
            Rv, Rh = complex(Rv), complex(Rh)
        angle = "theta=0" if th == 0.0 else "theta=90" if th == 90.0 else "theta>85" if th > 85 else "theta<=85"
        ck.case(key=("cx", n1, n2re, n2im, th), kind=f"complex/{kind}/{angle}" + ("/limit" if nan_ok else ""),
                sample={"n1": n1, "n2": [n2re, n2im], "theta1": th, "theta2": t2, "theta2_ref": t2_ref})
        if math.isnan(t2):
            if not nan_ok:
                ck.violation("other", f"snell({n1!r},{n2c!r},{th!r}) = NaN although the complex Snell law gives {t2_ref!r} "
                             f"(cos theta2 = {c2_ref:.3g}: not at the total-reflection limit)", {"fn": "snell", "args": carg})
            ck.count("complex/NaN-at-limit")
        elif abs(t2 - t2_ref) > tol:
            ck.violation("other", f"snell({n1!r},{n2c!r},{th!r}) = {t2!r}, complex Snell law gives {t2_ref!r} (tolerance {tol:.3g})",
                         {"fn": "snell", "args": carg})
        bad = [nm for nm, R in (("Rv", Rv), ("Rh", Rh)) if not abs(R) <= 1 + 1e-9]
        if bad and not (nan_ok and math.isnan(t2)):
            ck.violation("other", f"fresnel({n1!r},{n2c!r},{th!r}): |Rv|={abs(Rv)!r}, |Rh|={abs(Rh)!r} exceed 1 / are NaN",
                         {"fn": "fresnel", "args": carg})
        if th == 0.0:
            want = (n2c - n1) / (n2c + n1)
            if abs(Rv - want) > 1e-13 or abs(Rh + want) > 1e-13 or abs(abs(Rv) - abs(Rh)) > 1e-13:
                ck.violation("other", f"fresnel({n1!r},{n2c!r},0) = ({Rv!r},{Rh!r}); normal incidence requires Rv = -Rh = {want!r}",
                             {"fn": "fresnel", "args": carg})
        if xrun:
            if nan_ok or c2_ref * c2_ref < 1e-6:
                ck.count("xrun/skipped-total-reflection-limit")     # arcsin at 1 -+ 1 ulp: NaN / 90 decided by the last bit
            else:
                calls.append(("snell_c", (n1, n2re, n2im, th), t2))
                calls.append(("fresnel_c", (n1, n2re, n2im, th), (Rv.real, Rv.imag, Rh.real, Rh.imag)))
    # guards of the complex variant: the model's `_rejects` against what the real code raises
    gcases = [(1.0, -0.5, 1.0, 10.0), (1.0, 0.0, 1.0, 10.0), (0.0, 1.5, 0.1, 10.0), (1.0, 1.5, -0.1, 10.0), (1.0, 1.5, 0.1, 10.0),
              (1.0, 1.5, -1e-300, 10.0), (-1.0, 1.5, 0.1, 10.0)]
    lines = []
    for g in gcases:
        lines += [f"{fn}!rejects " + " ".join(str(numlib.bits(a)) for a in g) for fn in ("snell_c", "fresnel_c")]
    out = ck.driver(lines, exe="drv_em") if xrun else None
    for j, (n1, n2re, n2im, th) in enumerate(gcases):
        raised = []
        for fn in (em.snell, em.fresnel):
            try:
                with np.errstate(all="ignore"):
                    fn(n1, complex(n2re, n2im), th)
                raised.append(False)
            except Exception:
                raised.append(True)
        want_snell = n1 <= 0 or n2re <= 0
        want_fres = n2im < 0 or want_snell          # fresnel calls snell after its own guard
        if raised != [want_snell, want_fres]:
            ck.violation("other", f"guards: snell/fresnel({n1!r},{complex(n2re, n2im)!r},{th!r}) raised {raised}, "
                         f"expected {[want_snell, want_fres]}", {"fn": "guards", "args": [n1, [n2re, n2im], th]})
        if out is not None:
            ms = numlib.unbits(out[2 * j]) == 1.0 if out[2 * j] not in ("unknown", "bad-op") else None
            mf = numlib.unbits(out[2 * j + 1]) == 1.0 if out[2 * j + 1] not in ("unknown", "bad-op") else None
            if ms is None or mf is None:
                ck.disagree("Float model has no guard snell_c!rejects / fresnel_c!rejects", {"fn": "guards"})
            elif [ms, mf or ms] != raised:
                ck.disagree(f"guards of the model ({ms}, {mf}) differ from the real code {raised} at {(n1, n2re, n2im, th)}",
                            {"fn": "guards", "args": [n1, [n2re, n2im], th]})
            ck.count("xrun/guards")
    # complex dtype with Im n2 == 0 takes the all-real branch (np.isreal looks at values): same answers as for the float
    # (fixed by /repo 983f0d9: TypeError from np.rad2deg of a complex arcsin)
    for _ in range(max(n // 10, 5)):
        n1 = rng.uniform(1.0, 2.0)
        n2 = rng.uniform(1.0, 3.0)
        th = rng.choice([0.0, 30.0, rng.uniform(0, 90)])
        case = {"fn": "snell-complex-dtype-zero-imag", "args": [n1, [n2, 0.0], th]}
        ck.case(key=("snell-cz", n1, n2, th), kind="snell/complex-dtype-zero-imag")
        try:
            with np.errstate(all="ignore"):
                a, b = em.snell(n1, complex(n2, 0.0), th), em.snell(n1, n2, th)
                ra, rb = em.fresnel(n1, complex(n2, 0.0), th), em.fresnel(n1, n2, th)
                arr = em.snell(n1, np.array([complex(n2, 0.0), complex(n2 + 0.5, 0.0)]), th)
        except TypeError as e:
            ck.violation("snell-complex-dtype-zero-imag", f"snell/fresnel({n1!r}, {complex(n2, 0.0)!r}, {th!r}) raised TypeError: {str(e)[:80]}", case)
            continue
        same = lambda u, v: (np.isnan(u) and np.isnan(v)) or abs(complex(u) - complex(v)) <= 1e-12 * max(1.0, abs(complex(v)))
        if not (same(a, b) and same(ra[0], rb[0]) and same(ra[1], rb[1]) and same(np.asarray(arr).ravel()[0], b)):
            ck.violation("snell-complex-dtype-zero-imag", f"complex-typed n2 = {complex(n2, 0.0)!r} gives snell {a!r} / fresnel {ra!r}, float n2 gives {b!r} / {rb!r}", case)


def explore(ck, n, em, np, xrun=True):
    L = np.longdouble
    rng = ck.rng
    calls = []
    for _ in range(n):
        f, T, x = gen_fT(rng)
        case = {"fn": "planck", "args": [f, T]}
        B = float(em.planck(f, T))
        want = 2 * L(H) * L(f) ** 3 / (L(C) ** 2 * np.expm1(L(H) * L(f) / (L(K) * L(T))))
        tol = 1e-12 + 20 * EPS / x
        ck.case(key=("pl", f, T), kind="planck/x<1e-3" if x < 1e-3 else "planck/x<10" if x < 10 else "planck/x>=10",
                sample={"f": f, "T": T, "x": x, "planck": B})
        if rel(B, want) > tol:
            ck.violation("other", f"planck({f!r},{T!r}) = {B!r}, reference {float(want)!r} (x={x:.3g})", case)
        if not B > 0:
            ck.violation("other", f"planck({f!r},{T!r}) = {B!r} is not positive", case)
        Tb = float(em.radiance2planckTb(f, em.planck(f, T)))
        if rel(Tb, T) > tol * 3:
            ck.violation("other", f"radiance2planckTb(f, planck(f,T)) = {Tb!r} != T = {T!r} (f={f!r}, x={x:.3g})", {"fn": "radiance2planckTb∘planck", "args": [f, T]})
        rj = float(em.rayleighjeans(f, T))
        if rel(rj, 2 * L(f) ** 2 * L(K) * L(T) / L(C) ** 2) > 1e-13:
            ck.violation("other", f"rayleighjeans({f!r},{T!r}) = {rj!r}", {"fn": "rayleighjeans", "args": [f, T]})
        Trj = float(em.radiance2rayleighjeansTb(f, rj))
        if rel(Trj, T) > 1e-13:
            ck.violation("other", f"radiance2rayleighjeansTb(f, rayleighjeans(f,T)) = {Trj!r} != {T!r}", {"fn": "rjTb∘rj", "args": [f, T]})
        if B > rj * (1 + tol):
            ck.violation("other", f"planck {B!r} exceeds Rayleigh-Jeans {rj!r} at f={f!r}, T={T!r}", {"fn": "planck<=rj", "args": [f, T]})
        if x < 1e-3 and abs(B / rj - 1) > x:
            ck.violation("other", f"planck/rayleighjeans = {B / rj!r} does not approach 1 at x={x:.3g}", {"fn": "planck/rj", "args": [f, T]})
        # monotone in T
        T2 = T * (1 + rng.uniform(1e-3, 0.5))
        if H * f / (K * T2) >= 1e-6:
            B2 = float(em.planck(f, T2))
            if not B2 > B:
                ck.violation("other", f"planck not increasing in T: B({T!r})={B!r}, B({T2!r})={B2!r}, f={f!r}", {"fn": "planck-mono", "args": [f, T, T2]})
        # wavelength / wavenumber forms
        lam, wn = C / f, f / C
        Bl = float(em.planck_wavelength(lam, T))
        Bn = float(em.planck_wavenumber(wn, T))
        if rel(Bl, B * f ** 2 / C) > tol * 3:
            ck.violation("other", f"planck_wavelength(c/f,T) = {Bl!r} != planck f^2/c = {B * f ** 2 / C!r} (f={f!r},T={T!r})", {"fn": "planck_wavelength", "args": [lam, T]})
        if rel(Bn, C * B) > tol * 3:
            ck.violation("other", f"planck_wavenumber(f/c,T) = {Bn!r} != c planck = {C * B!r} (f={f!r},T={T!r})", {"fn": "planck_wavenumber", "args": [wn, T]})
        rjl = float(em.rayleighjeans_wavelength(lam, T))
        if rel(rjl, 2 * L(C) * L(K) * L(T) / L(lam) ** 4) > 1e-13:
            ck.violation("other", f"rayleighjeans_wavelength({lam!r},{T!r}) = {rjl!r}", {"fn": "rayleighjeans_wavelength", "args": [lam, T]})
        if xrun:
            calls += [("planck", (f, T), B), ("radiance2planckTb", (f, B), float(em.radiance2planckTb(f, B))), ("rayleighjeans", (f, T), rj),
                      ("radiance2rayleighjeansTb", (f, rj), Trj), ("planck_wavelength", (lam, T), Bl),
                      ("planck_wavenumber", (wn, T), Bn), ("rayleighjeans_wavelength", (lam, T), rjl)]
        # unit converters
        for a, b in (("frequency2wavelength", "wavelength2frequency"), ("frequency2wavenumber", "wavenumber2frequency"),
                     ("wavelength2wavenumber", "wavenumber2wavelength")):
            for g, hfn in ((a, b), (b, a)):
                v = numlib.loguniform(rng, 1e-7, 1e15)
                back = float(getattr(em, hfn)(getattr(em, g)(v)))
                if rel(back, v) > 4 * EPS:
                    ck.violation("other", f"{hfn}({g}({v!r})) = {back!r}", {"fn": f"{hfn}∘{g}", "args": [v]})
                if xrun:
                    calls.append((g, (v,), float(getattr(em, g)(v))))
        if rel(em.frequency2wavelength(f), C / f) > 2 * EPS or rel(em.frequency2wavenumber(f), f / C) > 2 * EPS \
                or rel(em.wavelength2wavenumber(lam), 1 / lam) > 2 * EPS:
            ck.violation("other", f"unit converter wrong at f={f!r}", {"fn": "units", "args": [f]})
    # array / scalar agreement of every function (numpy glue vs the pointwise model)
    fs_ = np.array([numlib.loguniform(rng, 1e9, 1e13) for _ in range(5)])
    Ts_ = np.array([numlib.loguniform(rng, 20, 3e3) for _ in range(5)])
    for name, a1, a2 in (("planck", fs_, Ts_), ("planck_wavelength", C / fs_, Ts_), ("planck_wavenumber", fs_ / C, Ts_),
                         ("rayleighjeans", fs_, Ts_), ("rayleighjeans_wavelength", C / fs_, Ts_),
                         ("radiance2planckTb", fs_, np.asarray(em.planck(fs_, Ts_))), ("radiance2rayleighjeansTb", fs_, np.asarray(em.rayleighjeans(fs_, Ts_)))):
        va = np.asarray(getattr(em, name)(a1, a2))
        for i in range(5):
            sv = float(getattr(em, name)(float(a1[i]), float(a2[i])))
            if va.shape != (5,) or rel(va[i], sv) > 4 * EPS:
                ck.violation("other", f"{name}: array element {i} = {float(va[i])!r} differs from the scalar call {sv!r}", {"fn": name, "args": [float(a1[i]), float(a2[i])]})
    for name in ("frequency2wavelength", "frequency2wavenumber", "wavelength2frequency", "wavelength2wavenumber", "wavenumber2frequency", "wavenumber2wavelength"):
        va = np.asarray(getattr(em, name)(fs_))
        if va.shape != (5,) or any(rel(va[i], getattr(em, name)(float(fs_[i]))) > 2 * EPS for i in range(5)):
            ck.violation("other", f"{name}: array result differs from scalar calls", {"fn": name, "args": fs_.tolist()})
    # broadcasting of planck: f column x T row
    fs = np.array([1e10, 1e11, 1e12])
    Ts = np.array([100.0, 250.0])
    grid = np.asarray(em.planck(fs[:, None], Ts[None, :]))
    for i in range(3):
        for j in range(2):
            if float(grid[i, j]) != float(em.planck(float(fs[i]), float(Ts[j]))):
                ck.violation("other", "planck broadcast element differs from scalar call", {"fn": "planck", "args": [float(fs[i]), float(Ts[j])]})
    # ---------------- spectral density converters on grids (incl. multi-dimensional spectra)
    for _ in range(max(n // 5, 8)):
        m = rng.randint(2, 12)
        f_grid = np.sort(np.array([numlib.loguniform(rng, 1e8, 1e15) for _ in range(m)]))
        if len(set(f_grid.tolist())) < m:
            continue
        T = numlib.loguniform(rng, 50.0, 1e4)
        extra = rng.choice([(), (3,), (2, 2)])
        spec = np.asarray(em.planck(f_grid.reshape((m,) + (1,) * len(extra)), T)) * (1 + np.arange(int(np.prod(extra or (1,)))).reshape(extra or ()) if extra else 1)
        spec = np.asarray(spec, dtype=float)
        ck.case(key=("dens", m, len(extra), float(f_grid[0])), kind=f"density/dim{len(extra) + 1}")
        dcase = {"fn": "density/glue", "args": f_grid.tolist(), "T": T, "extra": list(extra)}
        if numlib.pure_call(ck, np, em.perfrequency2perwavelength, [spec, f_grid], "perfrequency2perwavelength", dcase, rtol=1e-15) is not None:
            pm0, lm0 = em.perfrequency2perwavelength(spec.copy(), f_grid.copy())
            numlib.pure_call(ck, np, em.perwavelength2perfrequency, [np.asarray(pm0), np.asarray(lm0)], "perwavelength2perfrequency", dcase, rtol=1e-15)
        nu_grid = f_grid / C
        numlib.pure_call(ck, np, em.perfrequency2perwavenumber, [spec, f_grid], "perfrequency2perwavenumber", dcase, rtol=1e-15)
        numlib.pure_call(ck, np, em.perwavenumber2perfrequency, [spec, nu_grid], "perwavenumber2perfrequency", dcase, rtol=1e-15)
        numlib.pure_call(ck, np, em.planck, [f_grid, np.full(m, T)], "planck", dcase, rtol=1e-15)
        numlib.pure_call(ck, np, em.radiance2planckTb, [f_grid, np.asarray(em.planck(f_grid, T))], "radiance2planckTb", dcase, rtol=1e-15)
        numlib.pure_call(ck, np, em.planck_wavenumber, [nu_grid, np.full(m, T)], "planck_wavenumber", dcase, rtol=1e-15)
        perm, lam = em.perfrequency2perwavelength(spec.copy(), f_grid.copy())
        if not np.all(np.diff(lam) > 0):
            ck.violation("other", "perfrequency2perwavelength: wavelength grid not ascending", {"fn": "perfrequency2perwavelength", "args": f_grid.tolist()})
        want = (spec * f_grid.reshape((m,) + (1,) * len(extra)) ** 2 / C)[::-1]
        if perm.shape != spec.shape or np.max(np.abs(perm - want) / np.abs(want)) > 1e-13 or np.max(np.abs(lam - (C / f_grid)[::-1]) / lam) > 1e-14:
            ck.violation("other", "perfrequency2perwavelength is not the Jacobian-scaled, reversed spectrum", {"fn": "perfrequency2perwavelength", "args": f_grid.tolist()})
        back, fb = em.perwavelength2perfrequency(perm.copy(), lam.copy())
        if np.max(np.abs(back - spec) / np.abs(spec)) > 1e-12 or np.max(np.abs(fb - f_grid) / f_grid) > 1e-14:
            ck.violation("other", "perwavelength2perfrequency does not invert perfrequency2perwavelength", {"fn": "perwl∘perfreq", "args": f_grid.tolist()})
        if not extra:
            pl = np.asarray(em.planck_wavelength(lam, T))
            x = H * f_grid / (K * T)
            xr = x[::-1]
            dom = (xr >= 1e-6) & (xr <= 600)      # the property's range of h f / k T (beyond it planck is denormal / underflows)
            if dom.any() and np.max((np.abs(pl - perm) / np.abs(perm) - (1e-12 + 60 * EPS / xr))[dom]) > 0:
                ck.violation("other", "perfrequency2perwavelength(planck) is not planck_wavelength on the converted grid", {"fn": "density-maps-planck", "args": [f_grid.tolist(), T]})
        pwn, wn = em.perfrequency2perwavenumber(spec.copy(), f_grid.copy())
        b2, f2 = em.perwavenumber2perfrequency(pwn, wn)
        if np.max(np.abs(pwn - spec * C) / np.abs(spec * C)) > 1e-14 or np.max(np.abs(b2 - spec) / np.abs(spec)) > 1e-14 \
                or np.max(np.abs(f2 - f_grid) / f_grid) > 1e-14 or np.max(np.abs(wn - f_grid / C) / wn) > 1e-14:
            ck.violation("other", "per-frequency <-> per-wavenumber converters inconsistent", {"fn": "perwn", "args": f_grid.tolist()})
        if xrun:
            # cross-run the pointwise model against the REAL converters (element 0 of the input maps to the
            # last element of the reversed output)
            p0, g0 = float(spec.flat[0]) if not extra else float(spec[(0,) + (0,) * len(extra)]), float(f_grid[0])
            calls.append(("perfrequency2perwavelength", (p0, g0), (float(perm[(-1,) + (0,) * len(extra)]), float(lam[-1]))))
            calls.append(("perfrequency2perwavenumber", (p0, g0), (float(pwn[(0,) + (0,) * len(extra)]), float(wn[0]))))
            pm0, l0 = float(perm[(0,) + (0,) * len(extra)]), float(lam[0])
            calls.append(("perwavelength2perfrequency", (pm0, l0), (float(back[(-1,) + (0,) * len(extra)]), float(fb[-1]))))
            calls.append(("perwavenumber2perfrequency", (float(pwn[(0,) + (0,) * len(extra)]), float(wn[0])), (float(b2[(0,) + (0,) * len(extra)]), float(f2[0]))))
    # ---------------- snell / fresnel: exact boundaries.  Identical media transmit at every angle incl. grazing
    # incidence (n1 sin(theta1) / n2 == 1 exactly at 90 deg: no total reflection, theta2 = theta1, R = 0 resp. 0/0-free);
    # the critical angle itself (n1 sin(theta1) == n2 up to rounding) may go either way and is not judged.
    for nn in (1.0, 1.33, rng.uniform(0.5, 4.0)):
        for th in (0.0, 30.0, 89.0, 90.0, rng.uniform(0, 90)):
            ck.case(key=("snell-same", nn, th), kind="snell/identical-media")
            cse = {"fn": "snell/identical-media", "args": [nn, nn, th]}
            with np.errstate(all="ignore"):
                t2 = float(em.snell(nn, nn, th))
                ta = np.asarray(em.snell(nn, nn, np.array([th, th])))
                Rv, Rh = em.fresnel(nn, nn, th)
            if not (abs(t2 - th) <= 1e-6 * max(th, 1.0)) or not np.all(np.abs(ta - th) <= 1e-6 * max(th, 1.0)):
                ck.violation("other", f"snell({nn!r},{nn!r},{th!r}) = {t2!r} (array call {ta.tolist()!r}): identical media must transmit unchanged", cse)
            if th < 90.0 and not (abs(float(Rv)) <= 1e-7 and abs(float(Rh)) <= 1e-7):
                ck.violation("other", f"fresnel({nn!r},{nn!r},{th!r}) = ({Rv!r},{Rh!r}), identical media reflect nothing", cse)
    # ---------------- array n2 mixing real and complex refractive indices: every element as the scalar call
    # (no total reflection: n1 <= Re n2, where the real and the complex formula agree for Im n2 = 0)
    for _ in range(max(n // 15, 6)):
        n1 = rng.uniform(0.8, 1.2)
        th = rng.choice([0.0, 30.0, rng.uniform(0, 89)])
        elems = [rng.uniform(1.3, 3.0), complex(rng.uniform(1.3, 3.0), numlib.loguniform(rng, 1e-3, 3.0)),
                 complex(rng.uniform(1.3, 2.0), 0.0), complex(0.2 + 1.1, 3.0), rng.uniform(1.3, 3.0)]
        rng.shuffle(elems)
        arr = np.array(elems[:rng.randint(2, 5)], dtype=complex)
        if not (np.any(arr.imag != 0) and np.any(arr.imag == 0)):
            arr = np.array([1.5, complex(1.4, 0.7)], dtype=complex)
        cm = {"fn": "snell/mixed-array", "args": [n1, [[float(z.real), float(z.imag)] for z in arr], th]}
        ck.case(key=("snell-mixed", n1, th, float(arr[0].real)), kind="snell/mixed-array")
        try:
            with np.errstate(all="ignore"):
                got = np.asarray(em.snell(n1, arr, th), dtype=float)
                each = np.array([float(np.real(em.snell(n1, (float(z.real) if z.imag == 0 else complex(z)), th))) for z in arr])
                Rv, Rh = em.fresnel(n1, arr, th)
        except Exception as e:          # noqa: BLE001
            ck.violation("other", f"snell/fresnel raised {type(e).__name__} for an array n2 mixing real and complex indices: {str(e)[:80]}", cm)
            continue
        if got.shape != each.shape or np.any(np.abs(got - each) > 1e-7 * np.maximum(np.abs(each), 1.0)) or np.any(np.isnan(got) != np.isnan(each)):
            ck.violation("other", f"snell(n1, array n2 mixing real and complex indices) = {got.tolist()}, element-wise scalar calls give {each.tolist()}", cm)
        if np.any(np.abs(np.asarray(Rv)) > 1 + 1e-9) or np.any(np.abs(np.asarray(Rh)) > 1 + 1e-9):
            ck.violation("other", f"fresnel with a mixed real/complex array n2: |R| exceeds 1: {np.abs(np.asarray(Rv)).tolist()}, {np.abs(np.asarray(Rh)).tolist()}", cm)
    # ---------------- snell / fresnel
    for _ in range(max(n // 2, 20)):
        n1 = numlib.loguniform(rng, 0.5, 4.0)
        n2 = numlib.loguniform(rng, 0.5, 4.0)
        th = rng.choice([0.0, 90.0, rng.uniform(0, 90), rng.uniform(0, 90)])
        s1 = n1 * math.sin(math.radians(th))
        with np.errstate(all="ignore"):
            t2 = float(em.snell(n1, n2, th))
        ck.case(key=("snell", n1, n2, th), kind="snell/total-reflection" if s1 > n2 else "snell/refracted",
                sample={"n1": n1, "n2": n2, "theta1": th, "theta2": t2})
        if s1 > n2 * (1 + 1e-12):
            if not math.isnan(t2):
                ck.violation("other", f"snell({n1!r},{n2!r},{th!r}) = {t2!r}, expected NaN beyond total reflection", {"fn": "snell", "args": [n1, n2, th]})
            continue
        if s1 > n2 * (1 - 1e-9):
            continue     # at the critical angle: ill-conditioned, placed deliberately outside
        if math.isnan(t2) or abs(n2 * math.sin(math.radians(t2)) - s1) > 1e-12 * max(n1, n2):
            ck.violation("other", f"snell({n1!r},{n2!r},{th!r}) = {t2!r} violates n1 sin(t1) = n2 sin(t2)", {"fn": "snell", "args": [n1, n2, th]})
        with np.errstate(all="ignore"):
            Rv, Rh = em.fresnel(n1, n2, th)
        if not (abs(Rv) <= 1 + 1e-12 and abs(Rh) <= 1 + 1e-12):
            ck.violation("other", f"fresnel({n1!r},{n2!r},{th!r}) = ({Rv!r},{Rh!r}) exceeds 1", {"fn": "fresnel", "args": [n1, n2, th]})
        if xrun and th not in (90.0,):
            calls.append(("snell", (n1, n2, th), t2))
            calls.append(("fresnel", (n1, n2, th), (float(Rv), float(Rh))))
        Rv0, Rh0 = em.fresnel(n1, n2, 0.0)
        if abs(abs(Rv0) - abs(Rh0)) > 1e-14:
            ck.violation("other", f"|Rv| != |Rh| at normal incidence for n1={n1!r}, n2={n2!r}", {"fn": "fresnel", "args": [n1, n2, 0.0]})
        thB = math.degrees(math.atan(n2 / n1))
        RvB, _ = em.fresnel(n1, n2, thB)
        if abs(RvB) > 1e-12:
            ck.violation("other", f"Rv = {RvB!r} at the Brewster angle {thB!r} (n1={n1!r}, n2={n2!r})", {"fn": "fresnel", "args": [n1, n2, thB]})
        # complex n2 with positive real part: |R| <= 1, normal incidence equality
        n2c = complex(n2, numlib.loguniform(rng, 1e-3, 3.0))
        with np.errstate(all="ignore"):
            Rvc, Rhc = em.fresnel(n1, n2c, th)
            Rvc0, Rhc0 = em.fresnel(n1, n2c, 0.0)
        ck.case(key=("fresnel-c", n1, n2c.real, n2c.imag, th), kind="fresnel/complex")
        # independent value of the refraction angle for an absorbing medium (complex Snell law:
        # the real angle of the planes of constant phase), Born & Wolf / Liou:  tan(theta2) = sin1 / q,
        # q = Re sqrt(m^2 - sin1^2)  with m = n2c / n1
        import cmath
        sin1 = math.sin(math.radians(th))
        mrel = n2c / n1
        qq = cmath.sqrt(mrel * mrel - sin1 * sin1).real
        t2_ref = math.degrees(math.atan2(sin1, qq))
        with np.errstate(all="ignore"):
            t2c = em.snell(n1, n2c, th)
        t2c = float(np.real(t2c))
        if math.isnan(t2c) or abs(t2c - t2_ref) > 1e-7:
            ck.violation("other", f"snell({n1!r},{n2c!r},{th!r}) = {t2c!r}, complex Snell law gives {t2_ref!r}", {"fn": "snell", "args": [n1, [n2c.real, n2c.imag], th]})
        # nearly real index: continuity with the real branch
        with np.errstate(all="ignore"):
            t2eps = float(np.real(em.snell(n1, complex(n2, 1e-12), th)))
        if not math.isnan(t2) and s1 < n2 * (1 - 1e-6) and abs(t2eps - t2) > 1e-6:
            ck.violation("other", f"snell with n2 + 1e-12j = {t2eps!r} differs from the real-index value {t2!r}", {"fn": "snell", "args": [n1, [n2, 1e-12], th]})
        if not (abs(Rvc) <= 1 + 1e-9 and abs(Rhc) <= 1 + 1e-9):
            ck.violation("other", f"fresnel({n1!r},{n2c!r},{th!r}): |Rv|={abs(Rvc)!r}, |Rh|={abs(Rhc)!r} exceed 1", {"fn": "fresnel", "args": [n1, [n2c.real, n2c.imag], th]})
        if abs(abs(Rvc0) - abs(Rhc0)) > 1e-12:
            ck.violation("other", f"complex n2: |Rv| != |Rh| at normal incidence (n1={n1!r}, n2={n2c!r})", {"fn": "fresnel", "args": [n1, [n2c.real, n2c.imag], 0.0]})
    for n1a, n2a in ((np.array([1.0, 0.0]), 1.5), (1.0, np.array([1.5, -1.0])), (np.array([1.0, 1.2]), np.array([-0.5, 1.5]))):
        try:
            with np.errstate(all="ignore"):
                em.snell(n1a, n2a, 10.0)
            ck.violation("other", "snell accepted an array containing a non-positive refractive index", {"fn": "snell-array-guard", "args": [np.asarray(n1a).tolist(), np.asarray(n2a).tolist()]})
        except Exception:
            pass
    for bad in ((0.0, 1.5), (1.0, -1.0)):
        try:
            em.snell(bad[0], bad[1], 10.0)
            ck.violation("other", f"snell accepted non-positive index {bad}", {"fn": "snell", "args": [bad[0], bad[1], 10.0]})
        except Exception:
            pass
    explore_complex(ck, max(n // 2, 20), em, np, calls, xrun)
    if xrun:
        numlib.float_cross(ck, calls, exe="drv_em")


def main():
    ck = vlib.Check(PROP, pkg="numeric", props="Proofs.Props.C08", more_props=["Proofs.Props.C08Complex"], driver="drv_em",
                    lemma_files=["Proofs/Lemmas/Consts.lean", "Proofs/Lemmas/SnellComplex.lean"],
                    model_files=["GenReal/Em.lean", "GenReal/Constants.lean"],
                    trusted=["tools/py2lean (translator), validated each run by the Float cross-run against numpy",
                             "floating-point cancellation in exp(x)-1 / log(1+1/x) is validated over x in [1e-6, 600] with a conditioning-scaled tolerance, not proved",
                             "spectral-density converters: the pointwise Jacobian is proved; array reversal/reshape is glue exercised by the harness (1-D and multi-dimensional spectra)",
                             "complex refractive index n2: translated as the variant snell_c / fresnel_c (np.isreal(n2) decided False: the code path for "
                             "Im n2 != 0; real dialect = Mathlib's field of complex numbers, float dialect = TF.Cplx with textbook product and Smith's division "
                             "as CPython's complex type / numpy complex128, promoted mixed operands), cross-run per component against em.snell / em.fresnel"],
                    assumptions=["1e8 Hz <= f <= 1e15 Hz, 2 K <= T <= 1e4 K with 1e-6 <= h f / k T <= 600; 0 <= theta1 <= 90 deg"])
    ck.rule = ("log-uniform (f, T) with x = hf/kT in [1e-6, 600], ascending positive grids for the density converters incl. multi-dimensional "
               "spectra, random real / complex refractive indices and angles incl. 0, 90, Brewster, beyond total reflection; "
               "non-trivial = distinct argument tuple")
    ck.anchors([("typhon/physics/em.py", n) for n in FUNCS])
    numlib.regenerate(ck, NEEDED)
    ck.build()
    import numpy as np
    from typhon.physics import em
    xrun = True
    try:
        ck.driver(["planck 0 0"], exe="drv_em")
    except vlib.InfraError:
        xrun = False
        ck.notes.append("Float driver not available (build broken): cross-run skipped")
    ck.guard(lambda: explore(ck, ck.budget(150, 5000), em, np, xrun), what="typhon.physics.em")
    if ck.broken() and not ck.violations:
        ck.guard(lambda: explore(ck, 5000, em, np, xrun=False), what="typhon.physics.em")
    ck.finish()


def replay(path):
    import numpy as np
    from typhon.physics import em
    numlib.replay_by_rerun(PROP, path, lambda: vlib.Check(PROP, pkg="numeric", props="Proofs.Props.C08"),
                           lambda ck: ck.guard(lambda: explore(ck, ck.budget(150, 5000), em, np, xrun=False)))
