"""C08 — Planck radiance, brightness temperature and spectral units are consistent.

Tie: translator (lean/numeric/GenReal/Em.lean regenerated from /repo each run; theorems
Proofs/Props/C08.lean re-checked) + Float cross-run + longdouble expm1/log1p oracle on the real code.
"""
import json
import math

import numlib
import vlib

PROP = "C08"
FUNCS = ["planck", "planck_wavelength", "planck_wavenumber", "rayleighjeans", "rayleighjeans_wavelength",
         "radiance2planckTb", "radiance2rayleighjeansTb", "frequency2wavelength", "frequency2wavenumber",
         "wavelength2frequency", "wavelength2wavenumber", "wavenumber2frequency", "wavenumber2wavelength",
         "perfrequency2perwavelength", "perwavelength2perfrequency", "perfrequency2perwavenumber",
         "perwavenumber2perfrequency", "snell", "fresnel"]
NEEDED = ["Em." + n for n in FUNCS]
H, K, C = 6.62607015e-34, 1.380649e-23, 299792458.0
EPS = 2.220446049250313e-16


def rel(a, b):
    a, b = float(a), float(b)
    return abs(a - b) / max(abs(a), abs(b), 1e-300)


def gen_fT(rng):
    """f in 1e8..1e15 Hz, T in 2..1e4 K with x = hf/kT in [1e-6, 600]; every 6th point is placed
    deliberately near the ends of the x range (1e-6 and 600) and in the band 450..600"""
    if rng.random() < 0.17:
        x = rng.choice([1.0000001e-6, 1.5e-6, 599.999, 590.0, rng.uniform(450, 600), 10 ** rng.uniform(-6, -5)])
        for _ in range(100):
            T = numlib.loguniform(rng, 2.0, 1e4)
            f = x * K * T / H
            if 1e8 <= f <= 1e15 and 1e-6 <= H * f / (K * T) <= 600:
                return f, T, H * f / (K * T)
    while True:
        f = numlib.loguniform(rng, 1e8, 1e15)
        T = numlib.loguniform(rng, 2.0, 1e4)
        x = H * f / (K * T)
        if 1e-6 <= x <= 600:
            return f, T, x


def explore(ck, n, em, np, xrun=True):
    L = np.longdouble
    rng = ck.rng
    calls = []
    for _ in range(n):
        f, T, x = gen_fT(rng)
        case = {"fn": "planck", "args": [f, T]}
        B = float(em.planck(f, T))
        want = 2 * L(H) * L(f) ** 3 / (L(C) ** 2 * np.expm1(L(H) * L(f) / (L(K) * L(T))))
        tol = 1e-12 + 20 * EPS / x
        ck.case(key=("pl", f, T), kind="planck/x<1e-3" if x < 1e-3 else "planck/x<10" if x < 10 else "planck/x>=10",
                sample={"f": f, "T": T, "x": x, "planck": B})
        if rel(B, want) > tol:
            ck.violation("other", f"planck({f!r},{T!r}) = {B!r}, reference {float(want)!r} (x={x:.3g})", case)
        if not B > 0:
            ck.violation("other", f"planck({f!r},{T!r}) = {B!r} is not positive", case)
        Tb = float(em.radiance2planckTb(f, em.planck(f, T)))
        if rel(Tb, T) > tol * 3:
            ck.violation("other", f"radiance2planckTb(f, planck(f,T)) = {Tb!r} != T = {T!r} (f={f!r}, x={x:.3g})", {"fn": "radiance2planckTb∘planck", "args": [f, T]})
        rj = float(em.rayleighjeans(f, T))
        if rel(rj, 2 * L(f) ** 2 * L(K) * L(T) / L(C) ** 2) > 1e-13:
            ck.violation("other", f"rayleighjeans({f!r},{T!r}) = {rj!r}", {"fn": "rayleighjeans", "args": [f, T]})
        Trj = float(em.radiance2rayleighjeansTb(f, rj))
        if rel(Trj, T) > 1e-13:
            ck.violation("other", f"radiance2rayleighjeansTb(f, rayleighjeans(f,T)) = {Trj!r} != {T!r}", {"fn": "rjTb∘rj", "args": [f, T]})
        if B > rj * (1 + tol):
            ck.violation("other", f"planck {B!r} exceeds Rayleigh-Jeans {rj!r} at f={f!r}, T={T!r}", {"fn": "planck<=rj", "args": [f, T]})
        if x < 1e-3 and abs(B / rj - 1) > x:
            ck.violation("other", f"planck/rayleighjeans = {B / rj!r} does not approach 1 at x={x:.3g}", {"fn": "planck/rj", "args": [f, T]})
        # monotone in T
        T2 = T * (1 + rng.uniform(1e-3, 0.5))
        if H * f / (K * T2) >= 1e-6:
            B2 = float(em.planck(f, T2))
            if not B2 > B:
                ck.violation("other", f"planck not increasing in T: B({T!r})={B!r}, B({T2!r})={B2!r}, f={f!r}", {"fn": "planck-mono", "args": [f, T, T2]})
        # wavelength / wavenumber forms
        lam, wn = C / f, f / C
        Bl = float(em.planck_wavelength(lam, T))
        Bn = float(em.planck_wavenumber(wn, T))
        if rel(Bl, B * f ** 2 / C) > tol * 3:
            ck.violation("other", f"planck_wavelength(c/f,T) = {Bl!r} != planck f^2/c = {B * f ** 2 / C!r} (f={f!r},T={T!r})", {"fn": "planck_wavelength", "args": [lam, T]})
        if rel(Bn, C * B) > tol * 3:
            ck.violation("other", f"planck_wavenumber(f/c,T) = {Bn!r} != c planck = {C * B!r} (f={f!r},T={T!r})", {"fn": "planck_wavenumber", "args": [wn, T]})
        rjl = float(em.rayleighjeans_wavelength(lam, T))
        if rel(rjl, 2 * L(C) * L(K) * L(T) / L(lam) ** 4) > 1e-13:
            ck.violation("other", f"rayleighjeans_wavelength({lam!r},{T!r}) = {rjl!r}", {"fn": "rayleighjeans_wavelength", "args": [lam, T]})
        if xrun:
            calls += [("planck", (f, T), B), ("radiance2planckTb", (f, B), float(em.radiance2planckTb(f, B))), ("rayleighjeans", (f, T), rj),
                      ("radiance2rayleighjeansTb", (f, rj), Trj), ("planck_wavelength", (lam, T), Bl),
                      ("planck_wavenumber", (wn, T), Bn), ("rayleighjeans_wavelength", (lam, T), rjl)]
        # unit converters
        for a, b in (("frequency2wavelength", "wavelength2frequency"), ("frequency2wavenumber", "wavenumber2frequency"),
                     ("wavelength2wavenumber", "wavenumber2wavelength")):
            for g, hfn in ((a, b), (b, a)):
                v = numlib.loguniform(rng, 1e-7, 1e15)
                back = float(getattr(em, hfn)(getattr(em, g)(v)))
                if rel(back, v) > 4 * EPS:
                    ck.violation("other", f"{hfn}({g}({v!r})) = {back!r}", {"fn": f"{hfn}∘{g}", "args": [v]})
                if xrun:
                    calls.append((g, (v,), float(getattr(em, g)(v))))
        if rel(em.frequency2wavelength(f), C / f) > 2 * EPS or rel(em.frequency2wavenumber(f), f / C) > 2 * EPS \
                or rel(em.wavelength2wavenumber(lam), 1 / lam) > 2 * EPS:
            ck.violation("other", f"unit converter wrong at f={f!r}", {"fn": "units", "args": [f]})
    # array / scalar agreement of every function (numpy glue vs the pointwise model)
    fs_ = np.array([numlib.loguniform(rng, 1e9, 1e13) for _ in range(5)])
    Ts_ = np.array([numlib.loguniform(rng, 20, 3e3) for _ in range(5)])
    for name, a1, a2 in (("planck", fs_, Ts_), ("planck_wavelength", C / fs_, Ts_), ("planck_wavenumber", fs_ / C, Ts_),
                         ("rayleighjeans", fs_, Ts_), ("rayleighjeans_wavelength", C / fs_, Ts_),
                         ("radiance2planckTb", fs_, np.asarray(em.planck(fs_, Ts_))), ("radiance2rayleighjeansTb", fs_, np.asarray(em.rayleighjeans(fs_, Ts_)))):
        va = np.asarray(getattr(em, name)(a1, a2))
        for i in range(5):
            sv = float(getattr(em, name)(float(a1[i]), float(a2[i])))
            if va.shape != (5,) or rel(va[i], sv) > 4 * EPS:
                ck.violation("other", f"{name}: array element {i} = {float(va[i])!r} differs from the scalar call {sv!r}", {"fn": name, "args": [float(a1[i]), float(a2[i])]})
    for name in ("frequency2wavelength", "frequency2wavenumber", "wavelength2frequency", "wavelength2wavenumber", "wavenumber2frequency", "wavenumber2wavelength"):
        va = np.asarray(getattr(em, name)(fs_))
        if va.shape != (5,) or any(rel(va[i], getattr(em, name)(float(fs_[i]))) > 2 * EPS for i in range(5)):
            ck.violation("other", f"{name}: array result differs from scalar calls", {"fn": name, "args": fs_.tolist()})
    # broadcasting of planck: f column x T row
    fs = np.array([1e10, 1e11, 1e12])
    Ts = np.array([100.0, 250.0])
    grid = np.asarray(em.planck(fs[:, None], Ts[None, :]))
    for i in range(3):
        for j in range(2):
            if float(grid[i, j]) != float(em.planck(float(fs[i]), float(Ts[j]))):
                ck.violation("other", "planck broadcast element differs from scalar call", {"fn": "planck", "args": [float(fs[i]), float(Ts[j])]})
    # ---------------- spectral density converters on grids (incl. multi-dimensional spectra)
    for _ in range(max(n // 5, 8)):
        m = rng.randint(2, 12)
        f_grid = np.sort(np.array([numlib.loguniform(rng, 1e8, 1e15) for _ in range(m)]))
        if len(set(f_grid.tolist())) < m:
            continue
        T = numlib.loguniform(rng, 50.0, 1e4)
        extra = rng.choice([(), (3,), (2, 2)])
        spec = np.asarray(em.planck(f_grid.reshape((m,) + (1,) * len(extra)), T)) * (1 + np.arange(int(np.prod(extra or (1,)))).reshape(extra or ()) if extra else 1)
        spec = np.asarray(spec, dtype=float)
        ck.case(key=("dens", m, len(extra), float(f_grid[0])), kind=f"density/dim{len(extra) + 1}")
        perm, lam = em.perfrequency2perwavelength(spec.copy(), f_grid.copy())
        if not np.all(np.diff(lam) > 0):
            ck.violation("other", "perfrequency2perwavelength: wavelength grid not ascending", {"fn": "perfrequency2perwavelength", "args": f_grid.tolist()})
        want = (spec * f_grid.reshape((m,) + (1,) * len(extra)) ** 2 / C)[::-1]
        if perm.shape != spec.shape or np.max(np.abs(perm - want) / np.abs(want)) > 1e-13 or np.max(np.abs(lam - (C / f_grid)[::-1]) / lam) > 1e-14:
            ck.violation("other", "perfrequency2perwavelength is not the Jacobian-scaled, reversed spectrum", {"fn": "perfrequency2perwavelength", "args": f_grid.tolist()})
        back, fb = em.perwavelength2perfrequency(perm.copy(), lam.copy())
        if np.max(np.abs(back - spec) / np.abs(spec)) > 1e-12 or np.max(np.abs(fb - f_grid) / f_grid) > 1e-14:
            ck.violation("other", "perwavelength2perfrequency does not invert perfrequency2perwavelength", {"fn": "perwl∘perfreq", "args": f_grid.tolist()})
        if not extra:
            pl = np.asarray(em.planck_wavelength(lam, T))
            x = H * f_grid / (K * T)
            if np.max(np.abs(pl - perm) / np.abs(perm) - (1e-12 + 60 * EPS / x[::-1])) > 0:
                ck.violation("other", "perfrequency2perwavelength(planck) is not planck_wavelength on the converted grid", {"fn": "density-maps-planck", "args": [f_grid.tolist(), T]})
        pwn, wn = em.perfrequency2perwavenumber(spec.copy(), f_grid.copy())
        b2, f2 = em.perwavenumber2perfrequency(pwn, wn)
        if np.max(np.abs(pwn - spec * C) / np.abs(spec * C)) > 1e-14 or np.max(np.abs(b2 - spec) / np.abs(spec)) > 1e-14 \
                or np.max(np.abs(f2 - f_grid) / f_grid) > 1e-14 or np.max(np.abs(wn - f_grid / C) / wn) > 1e-14:
            ck.violation("other", "per-frequency <-> per-wavenumber converters inconsistent", {"fn": "perwn", "args": f_grid.tolist()})
        if xrun:
            # cross-run the pointwise model against the REAL converters (element 0 of the input maps to the
            # last element of the reversed output)
            p0, g0 = float(spec.flat[0]) if not extra else float(spec[(0,) + (0,) * len(extra)]), float(f_grid[0])
            calls.append(("perfrequency2perwavelength", (p0, g0), (float(perm[(-1,) + (0,) * len(extra)]), float(lam[-1]))))
            calls.append(("perfrequency2perwavenumber", (p0, g0), (float(pwn[(0,) + (0,) * len(extra)]), float(wn[0]))))
            pm0, l0 = float(perm[(0,) + (0,) * len(extra)]), float(lam[0])
            calls.append(("perwavelength2perfrequency", (pm0, l0), (float(back[(-1,) + (0,) * len(extra)]), float(fb[-1]))))
            calls.append(("perwavenumber2perfrequency", (float(pwn[(0,) + (0,) * len(extra)]), float(wn[0])), (float(b2[(0,) + (0,) * len(extra)]), float(f2[0]))))
    # ---------------- snell / fresnel
    for _ in range(max(n // 2, 20)):
        n1 = numlib.loguniform(rng, 0.5, 4.0)
        n2 = numlib.loguniform(rng, 0.5, 4.0)
        th = rng.choice([0.0, 90.0, rng.uniform(0, 90), rng.uniform(0, 90)])
        s1 = n1 * math.sin(math.radians(th))
        with np.errstate(all="ignore"):
            t2 = float(em.snell(n1, n2, th))
        ck.case(key=("snell", n1, n2, th), kind="snell/total-reflection" if s1 > n2 else "snell/refracted",
                sample={"n1": n1, "n2": n2, "theta1": th, "theta2": t2})
        if s1 > n2 * (1 + 1e-12):
            if not math.isnan(t2):
                ck.violation("other", f"snell({n1!r},{n2!r},{th!r}) = {t2!r}, expected NaN beyond total reflection", {"fn": "snell", "args": [n1, n2, th]})
            continue
        if s1 > n2 * (1 - 1e-9):
            continue     # at the critical angle: ill-conditioned, placed deliberately outside
        if math.isnan(t2) or abs(n2 * math.sin(math.radians(t2)) - s1) > 1e-12 * max(n1, n2):
            ck.violation("other", f"snell({n1!r},{n2!r},{th!r}) = {t2!r} violates n1 sin(t1) = n2 sin(t2)", {"fn": "snell", "args": [n1, n2, th]})
        with np.errstate(all="ignore"):
            Rv, Rh = em.fresnel(n1, n2, th)
        if not (abs(Rv) <= 1 + 1e-12 and abs(Rh) <= 1 + 1e-12):
            ck.violation("other", f"fresnel({n1!r},{n2!r},{th!r}) = ({Rv!r},{Rh!r}) exceeds 1", {"fn": "fresnel", "args": [n1, n2, th]})
        if xrun and th not in (90.0,):
            calls.append(("snell", (n1, n2, th), t2))
            calls.append(("fresnel", (n1, n2, th), (float(Rv), float(Rh))))
        Rv0, Rh0 = em.fresnel(n1, n2, 0.0)
        if abs(abs(Rv0) - abs(Rh0)) > 1e-14:
            ck.violation("other", f"|Rv| != |Rh| at normal incidence for n1={n1!r}, n2={n2!r}", {"fn": "fresnel", "args": [n1, n2, 0.0]})
        thB = math.degrees(math.atan(n2 / n1))
        RvB, _ = em.fresnel(n1, n2, thB)
        if abs(RvB) > 1e-12:
            ck.violation("other", f"Rv = {RvB!r} at the Brewster angle {thB!r} (n1={n1!r}, n2={n2!r})", {"fn": "fresnel", "args": [n1, n2, thB]})
        # complex n2 with positive real part: |R| <= 1, normal incidence equality
        n2c = complex(n2, numlib.loguniform(rng, 1e-3, 3.0))
        with np.errstate(all="ignore"):
            Rvc, Rhc = em.fresnel(n1, n2c, th)
            Rvc0, Rhc0 = em.fresnel(n1, n2c, 0.0)
        ck.case(key=("fresnel-c", n1, n2c.real, n2c.imag, th), kind="fresnel/complex")
        # independent value of the refraction angle for an absorbing medium (complex Snell law:
        # the real angle of the planes of constant phase), Born & Wolf / Liou:  tan(theta2) = sin1 / q,
        # q = Re sqrt(m^2 - sin1^2)  with m = n2c / n1
        import cmath
        sin1 = math.sin(math.radians(th))
        mrel = n2c / n1
        qq = cmath.sqrt(mrel * mrel - sin1 * sin1).real
        t2_ref = math.degrees(math.atan2(sin1, qq))
        with np.errstate(all="ignore"):
            t2c = em.snell(n1, n2c, th)
        t2c = float(np.real(t2c))
        if math.isnan(t2c) or abs(t2c - t2_ref) > 1e-7:
            ck.violation("other", f"snell({n1!r},{n2c!r},{th!r}) = {t2c!r}, complex Snell law gives {t2_ref!r}", {"fn": "snell", "args": [n1, [n2c.real, n2c.imag], th]})
        # nearly real index: continuity with the real branch
        with np.errstate(all="ignore"):
            t2eps = float(np.real(em.snell(n1, complex(n2, 1e-12), th)))
        if not math.isnan(t2) and s1 < n2 * (1 - 1e-6) and abs(t2eps - t2) > 1e-6:
            ck.violation("other", f"snell with n2 + 1e-12j = {t2eps!r} differs from the real-index value {t2!r}", {"fn": "snell", "args": [n1, [n2, 1e-12], th]})
        if not (abs(Rvc) <= 1 + 1e-9 and abs(Rhc) <= 1 + 1e-9):
            ck.violation("other", f"fresnel({n1!r},{n2c!r},{th!r}): |Rv|={abs(Rvc)!r}, |Rh|={abs(Rhc)!r} exceed 1", {"fn": "fresnel", "args": [n1, [n2c.real, n2c.imag], th]})
        if abs(abs(Rvc0) - abs(Rhc0)) > 1e-12:
            ck.violation("other", f"complex n2: |Rv| != |Rh| at normal incidence (n1={n1!r}, n2={n2c!r})", {"fn": "fresnel", "args": [n1, [n2c.real, n2c.imag], 0.0]})
    for n1a, n2a in ((np.array([1.0, 0.0]), 1.5), (1.0, np.array([1.5, -1.0])), (np.array([1.0, 1.2]), np.array([-0.5, 1.5]))):
        try:
            with np.errstate(all="ignore"):
                em.snell(n1a, n2a, 10.0)
            ck.violation("other", "snell accepted an array containing a non-positive refractive index", {"fn": "snell-array-guard", "args": [np.asarray(n1a).tolist(), np.asarray(n2a).tolist()]})
        except Exception:
            pass
    for bad in ((0.0, 1.5), (1.0, -1.0)):
        try:
            em.snell(bad[0], bad[1], 10.0)
            ck.violation("other", f"snell accepted non-positive index {bad}", {"fn": "snell", "args": [bad[0], bad[1], 10.0]})
        except Exception:
            pass
    if xrun:
        numlib.float_cross(ck, calls, exe="drv_em")


def main():
    ck = vlib.Check(PROP, pkg="numeric", props="Proofs.Props.C08", driver="drv_em",
                    lemma_files=["Proofs/Lemmas/Consts.lean"], model_files=["GenReal/Em.lean", "GenReal/Constants.lean"],
                    trusted=["tools/py2lean (translator), validated each run by the Float cross-run against numpy",
                             "floating-point cancellation in exp(x)-1 / log(1+1/x) is validated over x in [1e-6, 600] with a conditioning-scaled tolerance, not proved",
                             "spectral-density converters: the pointwise Jacobian is proved; array reversal/reshape is glue exercised by the harness (1-D and multi-dimensional spectra)",
                             "complex refractive index n2 (|R| <= 1) is validated numerically only; the proved Fresnel/Snell theorems are for real indices"],
                    assumptions=["1e8 Hz <= f <= 1e15 Hz, 2 K <= T <= 1e4 K with 1e-6 <= h f / k T <= 600; 0 <= theta1 <= 90 deg"])
    ck.rule = ("log-uniform (f, T) with x = hf/kT in [1e-6, 600], ascending positive grids for the density converters incl. multi-dimensional "
               "spectra, random real / complex refractive indices and angles incl. 0, 90, Brewster, beyond total reflection; "
               "non-trivial = distinct argument tuple")
    ck.anchors([("typhon/physics/em.py", n) for n in FUNCS])
    numlib.regenerate(ck, NEEDED)
    ck.build()
    import numpy as np
    from typhon.physics import em
    xrun = True
    try:
        ck.driver(["planck 0 0"], exe="drv_em")
    except vlib.InfraError:
        xrun = False
        ck.notes.append("Float driver not available (build broken): cross-run skipped")
    ck.guard(lambda: explore(ck, ck.budget(150, 5000), em, np, xrun), what="typhon.physics.em")
    if ck.broken() and not ck.violations:
        ck.guard(lambda: explore(ck, 5000, em, np, xrun=False), what="typhon.physics.em")
    ck.finish()


def replay(path):
    import numpy as np
    from typhon.physics import em
    numlib.replay_by_rerun(PROP, path, lambda: vlib.Check(PROP, pkg="numeric", props="Proofs.Props.C08"),
                           lambda ck: ck.guard(lambda: explore(ck, ck.budget(150, 5000), em, np, xrun=False)))
