"""C04 — Collocator.collocate finds exactly the point pairs within distance and interval.

Decided by: theorems in lean/colloc/Proofs/Props/C04.lean about the hand-written model
lean/colloc/Model/Collocate.lean (+ Model/GeoIndex.lean) + correspondence of the model's
executable definitions (driver drv_c04) with typhon.collocations.Collocator on the same
inputs (recorded raw tree answers, permutations and pandas groups are fed to the model;
outcome, carried ids, pairs, intervals, distance bits and the object state are compared) +
an independent brute-force oracle (longdouble chord, exact integer ns) on the real code.
"""
import datetime as dt
import json
import math
import os
import struct
from fractions import Fraction

import numpy as np

import vlib
from props import c06 as g

PROP = "C04"
LD = np.longdouble
T_EPOCH = np.datetime64("1970-01-01T00:00:00", "ns")


def bits(x):
    return struct.unpack("<Q", struct.pack("<d", float(x)))[0]


# ---------------------------------------------------------------- case <-> xarray
def to_dataset(d):
    """case dataset dict -> xr.Dataset.  layouts: "c" labelled shared dimension (default), "time" the shared
    dimension IS the time coordinate (unique times), "nolabel" dimension without coordinate (only when the
    window keeps every point); grid: scnline x scnpos, "gridT" = lat/lon stored as (scnpos, scnline)"""
    import xarray as xr
    t = (T_EPOCH + np.array(d["t"], dtype="int64").astype("timedelta64[ns]")).astype("datetime64[ns]")
    lat = np.array([[np.nan if v is None else v for v in row] for row in d["lat"]], dtype=float) if d.get("grid") \
        else np.array([np.nan if v is None else v for v in d["lat"]], dtype=float)
    lon = np.array([[np.nan if v is None else v for v in row] for row in d["lon"]], dtype=float) if d.get("grid") \
        else np.array([np.nan if v is None else v for v in d["lon"]], dtype=float)
    ids = np.array(d["ids"], dtype="int64")
    val = carried_value(ids)            # a second data variable carried along with every point
    layout = d.get("layout", "c")
    if d.get("grid"):
        coords = {"scnline": np.array(d["labels"], dtype="int64")}
        if d.get("pos_labels"):
            coords["scnpos"] = np.array(d["pos_labels"], dtype="int64")
        if layout == "gridT":
            return xr.Dataset({"time": ("scnline", t), "lat": (("scnpos", "scnline"), lat.T), "lon": (("scnpos", "scnline"), lon.T),
                               "id": (("scnpos", "scnline"), ids.T), "val": (("scnpos", "scnline"), val.T)}, coords=coords)
        return xr.Dataset({"time": ("scnline", t), "lat": (("scnline", "scnpos"), lat), "lon": (("scnline", "scnpos"), lon),
                           "id": (("scnline", "scnpos"), ids), "val": (("scnline", "scnpos"), val)}, coords=coords)
    if layout == "time":
        return xr.Dataset({"lat": ("time", lat), "lon": ("time", lon), "id": ("time", ids), "val": ("time", val)}, coords={"time": t})
    if layout == "nolabel":
        return xr.Dataset({"time": ("c", t), "lat": ("c", lat), "lon": ("c", lon), "id": ("c", ids), "val": ("c", val)})
    return xr.Dataset({"time": ("c", t), "lat": ("c", lat), "lon": ("c", lon), "id": ("c", ids), "val": ("c", val)},
                      coords={"c": np.array(d["labels"], dtype="int64")})


def carried_value(ids):
    return np.asarray(ids, dtype="int64") * 0.5 + 0.25


def check_groups(res, call):
    """every variable and coordinate label the result carries for a collocated point must be that of the original
    data point (identified by its id): time, lat, lon, the extra data variable, scan line label, scan position"""
    problems = []
    for grp, key in (("primary", "p"), ("secondary", "s")):
        d = call[key]
        orig = {pt[0]: pt for pt in flat_points(d)}
        ids = res[f"{grp}/id"].values.tolist()
        n = len(ids)
        want_vars = {"time", "lat", "lon", "id", "val"} | ({"scnline", "scnpos"} if d.get("grid") else set())
        have = {v.split("/", 1)[1] for v in res.variables if v.startswith(grp + "/")}
        if not want_vars <= have:
            problems.append(f"{grp}: variables {sorted(want_vars - have)} are missing in the result")
            continue
        tt = res[f"{grp}/time"].values.astype("datetime64[ns]").astype("int64").tolist()
        la, lo = res[f"{grp}/lat"].values.tolist(), res[f"{grp}/lon"].values.tolist()
        va = res[f"{grp}/val"].values.tolist()
        if d.get("grid"):
            sl, sp = res[f"{grp}/scnline"].values.tolist(), res[f"{grp}/scnpos"].values.tolist()
        for k in range(n):
            o = orig.get(ids[k])
            if o is None:
                problems.append(f"{grp}: stored id {ids[k]} is not a point of the input")
                break
            exp = {"time": o[1], "lat": o[2], "lon": o[3], "val": float(carried_value(ids[k]))}
            gotv = {"time": tt[k], "lat": la[k], "lon": lo[k], "val": va[k]}
            if d.get("grid"):
                exp["scnline"] = o[4]
                exp["scnpos"] = d["pos_labels"][o[5]] if d.get("pos_labels") else o[5]
                gotv["scnline"], gotv["scnpos"] = sl[k], sp[k]
            bad = [v for v in exp if gotv[v] != exp[v]]
            if bad:
                v = bad[0]
                problems.append(f"{grp}: the stored point with id {ids[k]} carries {v}={gotv[v]!r}, the original point has {v}={exp[v]!r}")
                break
    return problems


def flat_points(d):
    """[(id, t, lat, lon, label, cell)] row-major"""
    out = []
    if d.get("grid"):
        for i, t in enumerate(d["t"]):
            for j in range(len(d["lat"][i])):
                out.append((d["ids"][i][j], t, d["lat"][i][j], d["lon"][i][j], d["labels"][i], j))
    else:
        for i, t in enumerate(d["t"]):
            out.append((d["ids"][i], t, d["lat"][i], d["lon"][i], d["labels"][i], 0))
    return out


def mi_value(spec):
    """(argument for collocate, exact ns as the generator means it); None = spatial search only"""
    if spec is None:
        return None, None
    k, v = spec["kind"], spec["v"]
    if k == "num":
        return v, int(round(v * 10 ** 6)) * 1000
    if k == "td_us":
        return dt.timedelta(microseconds=v), v * 1000
    return v, spec["ns"]


def when(x):
    return None if x is None else dt.datetime(1970, 1, 1) + dt.timedelta(microseconds=x // 1000)


# ---------------------------------------------------------------- recording wrappers
class Recorder:
    def __init__(self):
        self.events = []      # ("build", index, shuffler) / ("query", index, qlat, qlon, J, D, r)
        self.bins = []        # (label ns, rows)
        self.binned_times = []
        self.sliced_times = []
        self.nbuilt = 0
        self.alias_changed = 0   # queries on an index whose remembered coordinates differ from those at construction


def install(rec):
    """substitute typhon.collocations.collocator.GeoIndex and Collocator._bin_pairs from outside"""
    import typhon.collocations.collocator as cm
    from typhon.geographical import GeoIndex as Real

    class RecIndex(Real):
        def __init__(self, lat, lon, **kw):
            super().__init__(lat, lon, **kw)
            self._kw = kw
            # the coordinates as they were when the tree was built (index.lat / index.lon may alias caller buffers)
            self._lat0, self._lon0 = np.array(self.lat, copy=True), np.array(self.lon, copy=True)
            rec.events.append(("build", self, None if self.shuffler is None else [int(x) for x in self.shuffler]))
            rec.nbuilt += 1
            self.tree = g.TreeProxy(self.tree)

        def query(self, lat, lon, r, **kw):
            n0 = len(self.tree.calls)
            if not (np.array_equal(self.lat, self._lat0, equal_nan=True) and np.array_equal(self.lon, self._lon0, equal_nan=True)):
                rec.alias_changed += 1
            res = super().query(lat, lon, r, **kw)
            call = self.tree.calls[n0]
            J, D = call["res"]
            rec.events.append(("query", self, np.array(lat), np.array(lon), J, D, call["r"]))
            return res

    old_idx, old_bin = cm.GeoIndex, cm.Collocator.__dict__["_bin_pairs"]
    orig_bin = cm.Collocator._bin_pairs

    def rec_bin(chunk1_start, chunk1, primary, secondary, max_interval):
        if not rec.bins:
            rec.binned_times = primary.index.values.astype("datetime64[ns]").astype("int64").tolist()
            rec.sliced_times = secondary.index.values.astype("datetime64[ns]").astype("int64").tolist()
        rec.bins.append((int(chunk1_start.value), len(chunk1)))
        return orig_bin(chunk1_start, chunk1, primary, secondary, max_interval)

    cm.GeoIndex = RecIndex
    cm.Collocator._bin_pairs = staticmethod(rec_bin)

    def restore():
        cm.GeoIndex = old_idx
        cm.Collocator._bin_pairs = old_bin
    return restore


class Codes:
    """equal code <=> equal (lat, lon) doubles"""

    def __init__(self):
        self.m = {}

    def code(self, lat, lon):
        k = (bits(lat), bits(lon))
        if k not in self.m:
            self.m[k] = len(self.m)
        return self.m[k]


def check_cut(ck, rec, case):
    """the hypothesis `ValidCut` of the binning theorems, checked on the groups pandas produced: time-sorted
    data, consecutive runs covering all rows, each label <= its run's (and all later) times and > all earlier"""
    if not rec.bins:
        return
    t, u = rec.binned_times, rec.sliced_times
    bad = None
    if any(a > b for a, b in zip(t, t[1:])) or any(a > b for a, b in zip(u, u[1:])):
        bad = "binned arrays are not sorted by time"
    pos = 0
    for label, n in rec.bins:
        if bad:
            break
        if pos > 0 and not t[pos - 1] < label:
            bad = f"label {label} is not above the earlier time {t[pos - 1]}"
        elif pos < len(t) and not label <= t[pos]:
            bad = f"label {label} is above the time {t[pos]} of its own/later run"
        pos += n
    if not bad and pos != len(t):
        bad = f"runs cover {pos} of {len(t)} rows"
    ck.count("cut/valid" if not bad else "cut/INVALID")
    if bad:
        ck.disagree("pandas groups violate the ValidCut hypothesis: " + bad, case)


def exc_name(e):
    return {"ValueError": "value-error", "IndexError": "index-error"}.get(type(e).__name__, "exc:" + type(e).__name__)


# ---------------------------------------------------------------- oracle
def chord_km(lat1, lon1, lat2, lon2, R):
    u = g.unit_vectors(lat1, lon1)[:, None, :]
    v = g.unit_vectors(lat2, lon2)[None, :, :]
    return np.sqrt(((u - v) ** 2).sum(-1)) * LD(R) / LD(1000)


def oracle(call, R):
    """brute force: returns (must, may, info) as dicts keyed by (id_p, id_s) -> (|dt| ns, dist km)"""
    P = [x for x in flat_points(call["p"])]
    S = [x for x in flat_points(call["s"])]
    _, mi_ns = mi_value(call["mi"])
    rk = g.true_km(call["md"])
    lo, hi = call.get("start"), call.get("end")
    if mi_ns is None:       # spatial-only search: no time criterion (the code then ignores start/end as well)
        lo = hi = None

    def ok(x):
        return x[2] is not None and x[3] is not None and (lo is None or x[1] >= lo) and (hi is None or x[1] <= hi)
    P = [x for x in P if ok(x)]
    S = [x for x in S if ok(x)]
    must, may = {}, {}
    if not P or not S or rk is None:
        return must, may
    rkl = LD(rk.numerator) / LD(rk.denominator)
    D = chord_km([x[2] for x in P], [x[3] for x in P], [x[2] for x in S], [x[3] for x in S], R)
    margin = rkl * LD(1e-7) + LD(2e-11)
    tp = np.array([x[1] for x in P], dtype="int64")[:, None]
    ts = np.array([x[1] for x in S], dtype="int64")[None, :]
    DT = np.abs(tp - ts)
    tok = (DT < mi_ns) if mi_ns is not None else np.ones_like(DT, dtype=bool)
    for i, j in zip(*np.nonzero(tok & (D <= rkl + margin))):
        key = (P[i][0], S[j][0])
        val = (int(DT[i, j]), float(D[i, j]))
        may[key] = val
        if D[i, j] < rkl - margin or (D[i, j] == 0):
            must[key] = val
    return must, may


# ---------------------------------------------------------------- one call
def classify(call, what=""):
    if "corrupt the following index" in what:
        return "colloc-grid-multiindex"
    if "0 sample(s)" in what:
        return "colloc-all-nan-side"
    return call.get("_sig", "other")


def sanitize_layout(call):
    """the unlabelled layout is inside the property's precondition ("uniquely labelled") only when the selection
    by label is the identity, i.e. when the common time window keeps every point of that dataset"""
    _, mi_ns = mi_value(call["mi"])
    if mi_ns is None:
        return
    bf = call.get("bin_factor", 1)
    if bf < 1 and (mi_ns * bf < 1000 or (mi_ns * bf) % 1000 != 0):
        call["bin_factor"] = 1      # a bin width below / off the timedelta resolution is not a meaningful tuning value
    tp, ts = call["p"]["t"], call["s"]["t"]
    if not tp or not ts:
        return
    lo = max(min(tp), min(ts)) - mi_ns
    hi = min(max(tp), max(ts)) + mi_ns
    if call.get("start") is not None:
        lo = max(lo, call["start"])
    if call.get("end") is not None:
        hi = min(hi, call["end"])
    # ... and, for the pre-binned path, when the data are already sorted by time (without labels the selection
    # cannot reorder the points, so nothing sorts them)
    small = len(flat_points(call["p"])) * len(flat_points(call["s"])) <= 250000
    for d in (call["p"], call["s"]):
        if d.get("layout") == "nolabel" and (not all(lo <= t <= hi for t in d["t"]) or
                                             not (small or all(a <= b for a, b in zip(d["t"], d["t"][1:])))):
            d["layout"] = "c"
        if d.get("layout") == "time" and len(set(d["t"])) != len(d["t"]):
            d["layout"] = "c"


def result_map(res):
    """{(primary id, secondary id): (interval s, distance km)} of a collocate() result (None -> {})"""
    if res is None:
        return {}
    P = res["Collocations/pairs"].values
    ip, isec = res["primary/id"].values, res["secondary/id"].values
    iv = res["Collocations/interval"].values.astype("int64")
    dist = res["Collocations/distance"].values
    return {(int(ip[a]), int(isec[b])): (int(iv[k]), float(dist[k])) for k, (a, b) in enumerate(zip(P[0].tolist(), P[1].tolist()))}


def run_call(ck, col, rec, call, R, state, use_model, lines_cb, live=None, report=None, fresh_check=False):
    """one collocate() on the Collocator `col`.  state: dict(built=int) per Collocator.
    live = (primary, secondary) xarray objects to pass instead of fresh ones built from the case (in-place
    mutation histories); report = the case to store with a violation; fresh_check = also compare with what a
    fresh Collocator returns for the same data."""
    sanitize_layout(call)
    from typhon.geographical import to_kilometers
    from typhon.utils.timeutils import to_timedelta
    rec.events.clear()
    rec.bins.clear()
    rec.binned_times, rec.sliced_times = [], []
    rec.alias_changed = 0
    mi_arg, _ = mi_value(call["mi"])
    kw = dict(max_interval=mi_arg, max_distance=call["md"], bin_factor=call.get("bin_factor", 1),
              magnitude_factor=call.get("magnitude_factor", 10), leaf_size=call.get("leaf_size", 40))
    if mi_arg is None:
        del kw["max_interval"]
    if call.get("start") is not None:
        kw["start"] = when(call["start"])
    if call.get("end") is not None:
        kw["end"] = when(call["end"]) if call.get("end_as", "dt") == "dt" else str(when(call["end"]))
    np.random.seed(call.get("seed", 0))
    pds, sds = live if live is not None else (to_dataset(call["p"]), to_dataset(call["s"]))
    err = None
    res = None
    try:
        res = col.collocate(pds, sds, **kw)
    except Exception as e:
        err = exc_name(e)
        errtxt = f"{type(e).__name__}: {e}"
    slim = report if report is not None else {k: v for k, v in call.items()}
    if rec.alias_changed:
        ck.count("diag/index-coordinates-changed-after-construction")
    if fresh_check and err is None:
        # what a brand-new Collocator answers for exactly this data (recording state untouched)
        snap = (list(rec.events), list(rec.bins), rec.binned_times, rec.sliced_times, rec.nbuilt)
        from typhon.collocations import Collocator as _C
        np.random.seed(call.get("seed", 0))
        try:
            fres = result_map(_C().collocate(to_dataset(call["p"]), to_dataset(call["s"]), **kw))
        except Exception as e:
            fres = None
        rec.events[:], rec.bins[:] = snap[0], snap[1]
        rec.binned_times, rec.sliced_times, rec.nbuilt = snap[2], snap[3], snap[4]
        if fres is not None:
            mine = result_map(res)
            if set(mine) != set(fres) or any(mine[k][0] != fres[k][0] or abs(mine[k][1] - fres[k][1]) > 1e-9 * max(1.0, fres[k][1]) for k in mine):
                diff = sorted(set(mine) ^ set(fres))[:3] or [k for k in mine if mine[k] != fres[k]][:3]
                ck.violation(classify(call), f"a reused Collocator answers differently from a fresh one for the same data: "
                             f"{len(mine)} vs {len(fres)} collocations, e.g. {diff}", slim)
            ck.count("fresh-collocator-comparisons")
    if use_model:
        check_cut(ck, rec, slim)
    if call.get("_expect_binned") and not rec.bins and err is None:
        ck.count("big-case-not-binned")
    must, may = oracle(call, R)
    sig = None
    npts = len(flat_points(call["p"])), len(flat_points(call["s"]))
    kind = ("grid" if call["p"].get("grid") or call["s"].get("grid") else "linear") + \
           ("/binned" if rec.bins else "/direct") + ("/hist" if state.get("calls", 0) else "") + \
           ("/spatial-only" if call["mi"] is None else "") + ("/inplace" if live is not None else "")
    state["calls"] = state.get("calls", 0) + 1
    # ---- oracle on the real outcome
    got = None
    if err is not None:
        ck.case(kind=kind + "/exception")
        ck.violation(classify(call, errtxt), f"collocate raised {errtxt[:160]}", slim)
    else:
        if res is None:
            got = {}
        else:
            P = res["Collocations/pairs"].values
            ip, isec = res["primary/id"].values, res["secondary/id"].values
            iv = res["Collocations/interval"].values
            dist = res["Collocations/distance"].values
            got = {}
            problems = []
            if P.ndim != 2 or P.shape[0] != 2 or P.shape[1] == 0:
                problems.append(f"pairs has shape {P.shape}")
            else:
                if P.min() < 0 or P[0].max() >= len(ip) or P[1].max() >= len(isec):
                    problems.append("pair index outside the stored points")
                else:
                    keys = list(zip(ip[P[0]].tolist(), isec[P[1]].tolist()))
                    if len(set(keys)) != len(keys):
                        problems.append("a pair is reported more than once")
                    if len(set(ip.tolist())) != len(ip) or len(set(isec.tolist())) != len(isec):
                        problems.append("a data point is stored twice in the result")
                    if set(P[0].tolist()) != set(range(len(ip))) or set(P[1].tolist()) != set(range(len(isec))):
                        problems.append("stored points without collocation")
                    if iv.dtype != np.dtype("timedelta64[s]"):
                        problems.append(f"interval dtype {iv.dtype}")
                    for k, key in enumerate(keys):
                        got[key] = (int(iv[k].astype("int64")), float(dist[k]))
                    problems += check_groups(res, call)
            for pr in problems:
                ck.violation(classify(call), pr, slim)
        nontriv = len(must) > 0 and (npts[0] * npts[1] > len(may))
        ck.case(key=json.dumps([call["p"]["t"][:5], call["s"]["t"][:5], str(call["md"]), str(call["mi"]), state["calls"], bool(live)]) if nontriv else None,
                kind=kind, sample={"n_primary": npts[0], "n_secondary": npts[1], "mi": (call["mi"] or {}).get("v"), "md": call["md"],
                                   "pairs": len(got), "binned_groups": len(rec.bins)})
        missing = sorted(set(must) - set(got))
        extra = sorted(set(got) - set(may))
        if missing:
            a, b = missing[0]
            ck.violation(sig or classify(call), f"collocation (primary id {a}, secondary id {b}) with |dt|={must[(a, b)][0]} ns, "
                         f"{must[(a, b)][1]:.6g} km is missing ({len(missing)} missing, result {'None' if res is None else len(got)})", slim)
        if extra:
            a, b = extra[0]
            ck.violation(classify(call), f"pair (primary id {a}, secondary id {b}) reported but violates a criterion ({len(extra)} extra)", slim)
        for key, (ivs, d) in got.items():
            if key in may:
                wdt, wd = may[key]
                if ivs != wdt // 10 ** 9:
                    ck.violation(classify(call), f"stored interval of {key} is {ivs} s, |dt| = {wdt} ns", slim)
                    break
                if not abs(d - wd) <= 1e-7 * wd + 1e-10:
                    ck.violation(classify(call), f"stored distance of {key} is {d!r} km, chord is {wd!r} km", slim)
                    break
    if not use_model:
        return
    # ---- model side
    codes = state.setdefault("codes", Codes())     # one numbering per Collocator object (the cache test compares coordinates)
    lines = ["clear"]
    k = state.get("built", 0)
    for ev in rec.events:
        if ev[0] == "build":
            ix = ev[1]
            ix._codes = [codes.code(a, b) for a, b in zip(ix._lat0, ix._lon0)]
            lines.append(f"shuf {k} " + (",".join(map(str, ev[2])) if ev[2] else "-"))
            k += 1
    nb = k - state.get("built", 0)
    for ev in rec.events:
        if ev[0] == "query":
            ix = ev[1]
            ix._codes = [codes.code(a, b) for a, b in zip(ix._lat0, ix._lon0)]
            tp = [ix._codes[j] for j in ix.shuffler] if ix.shuffler is not None else ix._codes
            qp = [codes.code(a, b) for a, b in zip(ev[2], ev[3])]
            J, D = ev[4], ev[5]
            lines.append("ans " + ",".join(map(str, tp)) + " " + ",".join(map(str, qp)) + f" {len(J)} " +
                         " ".join("-" if len(j) == 0 else ",".join(str(int(x)) for x in j) for j in J) + " " +
                         " ".join("-" if len(d) == 0 else ",".join(str(bits(x)) for x in d) for d in D))
    lines.append("cut " + (",".join(f"{a}:{b}" for a, b in rec.bins) if rec.bins else "-"))
    for name, d in (("p", call["p"]), ("s", call["s"])):
        rows = []
        if d.get("grid"):
            for i, t in enumerate(d["t"]):
                cells = "|".join(("n" if (d["lat"][i][j] is None or d["lon"][i][j] is None) else
                                  str(codes.code(d["lat"][i][j], d["lon"][i][j]))) + f"/{d['ids'][i][j]}"
                                 for j in range(len(d["lat"][i])))
                rows.append(f"{d['labels'][i]}:{t}:{cells}")
        else:
            for i, t in enumerate(d["t"]):
                c = "n" if (d["lat"][i] is None or d["lon"][i] is None) else str(codes.code(d["lat"][i], d["lon"][i]))
                rows.append(f"{d['labels'][i]}:{t}:{c}/{d['ids'][i]}")
        lines.append(f"ds {name} " + " ".join(rows))
    try:
        if mi_arg is None:
            mi_model = "-"
        else:
            td = to_timedelta(mi_arg, numbers_as="seconds")
            mi_model = (td // dt.timedelta(microseconds=1)) * 1000
        rb = bits(float(to_kilometers(call["md"])))
    except Exception:
        state["built"] = k
        return
    lines.append(f"collocate p s {mi_model} {rb} {call['start'] if call.get('start') is not None else '-'} "
                 f"{call['end'] if call.get('end') is not None else '-'} {call.get('magnitude_factor', 10)} 1000000")
    state["built"] = k
    real_state = f"st={1 if col.index_with_primary else 0}:{k}"

    def compare(out):
        o = out[-1]
        body, _, st = o.rpartition(" ")
        if any(x != "ok" for x in out[:-1]):
            ck.disagree("driver rejected a set-up line", slim)
            return
        if err is not None:
            if body != "error " + err:
                ck.disagree(f"code raised {err}, model says {body[:80]}", slim)
            return
        # --- verdict: canonicalised OBSERVABLE outcome (None-ness, collocations by carried id with interval
        #     and distance, line/position of gridded points); order, bits, object state are diagnostics only
        if res is None:
            if body != "none":
                ck.disagree(f"code returned None, model says {body[:100]}", slim)
                return
        else:
            if not body.startswith("ok "):
                ck.disagree(f"code returned {len(got)} pairs, model says {body[:100]}", slim)
                return
            f = dict(x.split("=", 1) for x in body[3:].split(" "))
            lst = lambda s: [] if s == "-" else s.split(",")
            mP, mS = [int(x) for x in lst(f["P"])], [int(x) for x in lst(f["S"])]
            mpairs = [tuple(int(y) for y in x.split(":")) for x in lst(f["pairs"])]
            miv = [int(x) for x in lst(f["iv"])]
            md = [struct.unpack("<d", struct.pack("<Q", int(x)))[0] for x in lst(f["d"])]
            model_set = sorted((mP[a], mS[b], i, d) for (a, b), i, d in zip(mpairs, miv, md))
            code_set = sorted((a, b, i, d) for (a, b), (i, d) in got.items())
            same = len(model_set) == len(code_set) and all(
                x[:3] == y[:3] and abs(x[3] - y[3]) <= 1e-9 * max(1.0, abs(y[3])) for x, y in zip(model_set, code_set))
            if not same:
                k = next((k for k, (x, y) in enumerate(zip(model_set, code_set)) if x[:3] != y[:3] or
                          abs(x[3] - y[3]) > 1e-9 * max(1.0, abs(y[3]))), min(len(model_set), len(code_set)))
                ck.disagree(f"collocations differ: model {model_set[k:k + 2]} vs code {code_set[k:k + 2]} "
                            f"(counts {len(model_set)}/{len(code_set)})", slim)
                return
            for grp, nm, mids in (("primary", "PL", mP), ("secondary", "SL", mS)):
                if f"{grp}/scnline" in res:
                    code_map = {int(i): f"{a}.{b}" for i, a, b in zip(res[f"{grp}/id"].values.tolist(),
                                res[f"{grp}/scnline"].values.tolist(), res[f"{grp}/scnpos"].values.tolist())}
                    model_map = dict(zip(mids, lst(f.get(nm, "-"))))
                    pl = call["p" if grp == "primary" else "s"].get("pos_labels")
                    if pl:      # the model numbers the scan positions, the dataset labels them
                        model_map = {i: f"{x.split('.')[0]}.{pl[int(x.split('.')[1])]}" for i, x in model_map.items()}
                    if code_map != model_map:
                        ck.disagree(f"{grp} (scan line, position) of the stored points: model {sorted(model_map.items())[:4]} "
                                    f"vs code {sorted(code_map.items())[:4]}", slim)
                        return
            # diagnostics (never a verdict): identical order and bits?
            P = res["Collocations/pairs"].values
            exact = (lst(f["P"]) == [str(x) for x in res["primary/id"].values.tolist()]
                     and lst(f["pairs"]) == [f"{a}:{b}" for a, b in zip(P[0].tolist(), P[1].tolist())]
                     and lst(f["d"]) == [str(bits(x)) for x in res["Collocations/distance"].values.tolist()])
            ck.count("diag/order-and-bits-identical" if exact else "diag/order-or-bits-differ")
        ck.count("diag/object-state-identical" if st == real_state else "diag/object-state-differs")
    lines_cb(lines, compare)


# ---------------------------------------------------------------- direct binned search
def run_binned_direct(ck, rec, case, R, use_model, lines_cb):
    """Collocator.spatial_search_with_temporal_binning on small time-sorted NaN-free data"""
    from typhon.collocations import Collocator
    from typhon.geographical import to_kilometers
    col = Collocator()
    col.bin_factor, col.magnitude_factor, col.leaf_size = case["bin_factor"], case["magnitude_factor"], case["leaf_size"]
    rec.events.clear()
    rec.bins.clear()
    rec.binned_times, rec.sliced_times = [], []
    mk = lambda d: {"lat": np.array(d["lat"], dtype=float), "lon": np.array(d["lon"], dtype=float),
                    "time": (T_EPOCH + np.array(d["t"], dtype="int64").astype("timedelta64[ns]")).astype("datetime64[ns]")}
    mi = dt.timedelta(microseconds=case["mi_us"])
    np.random.seed(case["seed"])
    slim = dict(case)
    try:
        pairs, dist = col.spatial_search_with_temporal_binning(mk(case["p"]), mk(case["s"]), case["md"], mi)
    except Exception as e:
        ck.case(kind="binned-direct/exception")
        ck.violation("other", f"spatial_search_with_temporal_binning raised {type(e).__name__}: {e}"[:200], slim)
        return
    got = list(zip(pairs[0].astype(int).tolist(), pairs[1].astype(int).tolist())) if pairs.size else []
    gd = [float(x) for x in dist] if pairs.size else []
    if use_model:
        check_cut(ck, rec, slim)
    # oracle: every near pair with |dt| < mi is a candidate, every candidate is near, none twice
    rk = LD(case["md"])
    D = chord_km(case["p"]["lat"], case["p"]["lon"], case["s"]["lat"], case["s"]["lon"], R)
    DT = np.abs(np.array(case["p"]["t"], dtype="int64")[:, None] - np.array(case["s"]["t"], dtype="int64")[None, :])
    margin = rk * LD(1e-7) + LD(2e-11)
    must = {(int(i), int(j)) for i, j in zip(*np.nonzero((DT < case["mi_us"] * 1000) & ((D < rk - margin) | (D == 0))))}
    mustnot = {(int(i), int(j)) for i, j in zip(*np.nonzero(D > rk + margin))}
    ck.case(key=json.dumps([case["p"]["t"][:6], case["s"]["t"][:6], case["mi_us"], case["bin_factor"]]) if must and len(rec.bins) > 1 else None,
            kind="binned-direct", sample={"n": len(case["p"]["t"]), "m": len(case["s"]["t"]), "groups": len(rec.bins), "candidates": len(got)})
    if len(set(got)) != len(got):
        ck.violation("other", "binned search reports a candidate pair twice", slim)
    miss = sorted(must - set(got))
    if miss:
        ck.violation("other", f"binned search lost pair {miss[0]} (|dt|={int(DT[miss[0]])} ns, {float(D[miss[0]]):.6g} km); {len(miss)} lost", slim)
    extra = sorted(set(got) & mustnot)
    if extra:
        ck.violation("other", f"binned search reports far pair {extra[0]}", slim)
    if not use_model:
        return
    codes = Codes()
    lines = ["reset"]
    k = 0
    for ev in rec.events:
        if ev[0] == "build":
            lines.append(f"shuf {k} " + ",".join(map(str, ev[2])))
            k += 1
    for ev in rec.events:
        if ev[0] == "query":
            ix = ev[1]
            cs = [codes.code(a, b) for a, b in zip(ix._lat0, ix._lon0)]
            tp = [cs[j] for j in ix.shuffler]
            qp = [codes.code(a, b) for a, b in zip(ev[2], ev[3])]
            J, Dd = ev[4], ev[5]
            lines.append("ans " + ",".join(map(str, tp)) + " " + ",".join(map(str, qp)) + f" {len(J)} " +
                         " ".join("-" if len(j) == 0 else ",".join(str(int(x)) for x in j) for j in J) + " " +
                         " ".join("-" if len(d) == 0 else ",".join(str(bits(x)) for x in d) for d in Dd))
    lines.append("cut " + (",".join(f"{a}:{b}" for a, b in rec.bins) if rec.bins else "-"))
    enc = lambda d: ",".join(f"{codes.code(a, b)}:{t}" for a, b, t in zip(d["lat"], d["lon"], d["t"])) or "-"
    lines.append(f"binned {case['magnitude_factor']} {case['mi_us'] * 1000} {bits(float(to_kilometers(case['md'])))} {enc(case['p'])} {enc(case['s'])}")
    real_state = f"st={1 if col.index_with_primary else 0}:{k}"

    def compare(out):
        if any(x != "ok" for x in out[:-1]):
            ck.disagree("driver rejected a set-up line (binned)", slim)
            return
        body, _, st = out[-1].rpartition(" ")
        if not body.startswith("ok "):
            ck.disagree(f"binned search: model {body[:80]} vs code {len(got)} candidates", slim)
            return
        items = [] if body[3:] == "-" else body[3:].split(",")
        model = sorted((int(a), int(b), struct.unpack("<d", struct.pack("<Q", int(c)))[0]) for a, b, c in (x.split(":") for x in items))
        code = sorted((a, b, d) for (a, b), d in zip(got, gd))
        same = len(model) == len(code) and all(x[:2] == y[:2] and abs(x[2] - y[2]) <= 1e-9 * max(1.0, y[2]) for x, y in zip(model, code))
        if not same:
            ck.disagree(f"binned search candidates differ: model {model[:3]} vs code {code[:3]} (counts {len(model)}/{len(code)})", slim)
            return
        want = "ok " + (",".join(f"{a}:{b}:{bits(d)}" for (a, b), d in zip(got, gd)) or "-")
        ck.count("diag/order-and-bits-identical" if body == want else "diag/order-or-bits-differ")
        ck.count("diag/object-state-identical" if st == real_state else "diag/object-state-differs")
    lines_cb(lines, compare)


# ---------------------------------------------------------------- generators
MI_SPECS = [
    {"kind": "str", "v": "1 s", "ns": 10 ** 9}, {"kind": "str", "v": "1500 ms", "ns": 1500 * 10 ** 6},
    {"kind": "num", "v": 2}, {"kind": "num", "v": 1}, {"kind": "num", "v": 1.5}, {"kind": "num", "v": 0.25},
    {"kind": "str", "v": "1 min", "ns": 60 * 10 ** 9},
    {"kind": "td_us", "v": 250000}, {"kind": "str", "v": "2 h", "ns": 7200 * 10 ** 9},
    {"kind": "str", "v": "10 s", "ns": 10 ** 10}, {"kind": "td_us", "v": 1}, {"kind": "num", "v": 30},
    {"kind": "str", "v": "750 us", "ns": 750000},
]
T_BASE = 1577836800 * 10 ** 9          # 2020-01-01 in ns


def gen_md(rng):
    km = rng.choice([0.05, 1.0, 5.0, 25.0, 100.0, 300.0, 10 ** rng.uniform(-2, 3)])
    arg = g.radius_arg(rng, km)
    tk = g.true_km(arg)
    return arg, float(tk)


def gen_pair(rng, n, m, mi_ns, km, R, unit, nan_rate=0.0, sorted_times=False):
    """secondary points first, primaries placed relative to partners (distance factor and time offset
    straddling the thresholds); unit = time granularity in ns"""
    span = rng.choice([3, 20, 200]) * max(mi_ns, unit)
    c = (rng.uniform(-85, 85), rng.uniform(-180, 180))
    style = rng.choice(["cluster", "cluster", "global", "special"])
    spts = g.gen_points(rng, m, style, c, km / 6.371 * 2)
    st = [T_BASE + (rng.randrange(0, span + 1) // unit) * unit for _ in range(m)]
    ppts, pt = [], []
    for _ in range(n):
        j = rng.randrange(m)
        f = rng.choice([0.0, 0.5, 0.9, 1.1, 0.9, 1.1, 3.0])
        th = g.angle_for("minkowski", f * km, R)
        if th is None or f == 0.0:
            ppts.append(spts[j])
        else:
            ppts.append(g.destination(spts[j][0], spts[j][1], th, rng.uniform(0, 2 * math.pi)))
        off = rng.choice([0, mi_ns, -mi_ns, mi_ns - unit, -(mi_ns - unit), mi_ns + unit, mi_ns // 2, -(mi_ns // 3),
                          2 * mi_ns, rng.randrange(-2 * mi_ns, 2 * mi_ns + 1)])
        pt.append(st[j] + (off // unit) * unit if rng.random() < 0.8 else T_BASE + (rng.randrange(0, span + 1) // unit) * unit)
    if rng.random() < 0.3 and n > 1:   # duplicates
        k = rng.randrange(n)
        ppts[0], pt[0] = ppts[k], pt[k]

    def mk(pts, ts, base_id):
        order = list(range(len(ts)))
        if sorted_times:
            order.sort(key=lambda i: ts[i])
        lat = [pts[i][0] for i in order]
        lon = [pts[i][1] for i in order]
        for i in range(len(order)):
            if rng.random() < nan_rate:
                if rng.random() < 0.5:
                    lat[i] = None
                else:
                    lon[i] = None
        labels = rng.sample(range(1, 10 * len(order) + 10), len(order))
        if rng.random() < 0.5:
            labels.sort()
        return {"t": [ts[i] for i in order], "lat": lat, "lon": lon, "ids": [base_id + i for i in range(len(order))],
                "labels": labels}
    return mk(ppts, pt, 1000), mk(spts, st, 5000)


def gen_call(rng, R, max_n):
    mi = rng.choice(MI_SPECS)
    _, mi_ns = mi_value(mi)
    md, km = gen_md(rng)
    unit = rng.choice([u for u in (10 ** 9, 10 ** 6, 10 ** 3, 1, 1) if u <= max(mi_ns, 1000)] or [1000])
    n = rng.choice([1, 1, 2, 3, rng.randint(1, 12), rng.randint(1, 60), rng.randint(1, max_n)])
    m = rng.choice([1, 2, 3, rng.randint(1, 12), rng.randint(1, 60), rng.randint(1, max_n)])
    p, s = gen_pair(rng, n, m, mi_ns, km, R, unit, nan_rate=rng.choice([0, 0, 0.1, 0.3]))
    if rng.random() < 0.5:
        p, s = s, p
    if rng.random() < 0.12:        # same time stamps on both sides (needed for the unlabelled layout)
        k = min(len(p["t"]), len(s["t"]))
        for d in (p, s):
            for key in ("t", "lat", "lon", "ids", "labels"):
                d[key] = d[key][:k]
        s["t"] = list(p["t"])
    call = {"p": p, "s": s, "mi": mi, "md": md, "bin_factor": rng.choice([1, 1, 2, 5, 0.5, 0.25]),
            "magnitude_factor": rng.choice([10, 10, 1, 2, 0, 100]), "leaf_size": rng.choice([40, 40, 1, 2, 10]),
            "seed": rng.randrange(2 ** 31), "start": None, "end": None}
    for d in (call["p"], call["s"]):          # other branches of _flat_to_main_coord
        u = rng.random()
        if u < 0.15 and len(set(d["t"])) == len(d["t"]):
            d["layout"] = "time"
        elif u < 0.25 and set(call["p"]["t"]) == set(call["s"]["t"]):
            d["layout"] = "nolabel"      # identical time stamps on both sides: the common window keeps every point
    if rng.random() < 0.25 and "nolabel" not in (call["p"].get("layout"), call["s"].get("layout")):
        ts = sorted(p["t"] + s["t"])
        a = rng.choice(ts) + rng.choice([0, -1000, 1000])
        b = rng.choice(ts) + rng.choice([0, -1000, 1000])
        call["start"], call["end"] = (a // 1000) * 1000, (max(a, b) // 1000) * 1000
        if rng.random() < 0.3:
            call["start"] = None
        elif rng.random() < 0.3:
            call["end"] = None
        call["end_as"] = rng.choice(["dt", "str"])
    return call


def to_grid(rng, d, npos):
    """fold a linear dataset into lines x npos (times per line = time of its first point)"""
    n = len(d["t"]) // npos
    if n == 0:
        return None
    pick = lambda key: [[d[key][i * npos + j] for j in range(npos)] for i in range(n)]
    labels = rng.sample(range(1, 10 * n + 10), n)
    return {"grid": True, "t": [d["t"][i * npos] for i in range(n)], "lat": pick("lat"), "lon": pick("lon"),
            "ids": pick("ids"), "labels": labels, "layout": "gridT" if rng.random() < 0.25 else "grid",
            "pos_labels": rng.sample(range(100, 200), npos) if rng.random() < 0.5 else None}


def coord_exchange(rng, call, force=None):
    """the next call's point set is made of the SAME coordinate arrays, exchanged or permuted: lat <-> lon, same
    lat with new lon, same lon with new lat, the same points in another order, the lat array alone in another order.
    Any cache key coarser than "both coordinate arrays, in order" then answers for the old points.  Some points of
    the other dataset are moved onto new positions, so that the set of collocations changes."""
    big = "p" if len(call["p"]["t"]) >= len(call["s"]["t"]) else "s"      # the larger dataset builds the index
    side = big if rng.random() < 0.7 else ("s" if big == "p" else "p")
    d, other = call[side], call["s" if side == "p" else "p"]
    if d.get("grid") or other.get("grid"):
        return None
    n = len(d["lat"])
    lat, lon = list(d["lat"]), list(d["lon"])
    kinds = ["newlon", "newlat", "permute-points", "permute-lat"]
    if all(v is None or -90.0 <= v <= 90.0 for v in lon):
        kinds += ["swap", "swap", "swap"]
    kind = force if force in kinds else rng.choice(kinds)
    perm = list(range(n))
    rng.shuffle(perm)
    if kind == "swap":
        lat, lon = lon, lat
    elif kind == "newlon":
        lon = [None if v is None else max(-180.0, min(180.0, v + rng.choice([0.5, -0.5, 3.0]))) for v in lon]
    elif kind == "newlat":
        lat = [None if v is None else max(-90.0, min(90.0, v + rng.choice([0.5, -0.5, 3.0]))) for v in lat]
    elif kind == "permute-points":
        lat, lon = [lat[i] for i in perm], [lon[i] for i in perm]
    else:
        lat = [lat[i] for i in perm]
    d["lat"], d["lon"] = lat, lon
    ok = [i for i in range(n) if lat[i] is not None and lon[i] is not None]
    for k in rng.sample(range(len(other["lat"])), min(len(other["lat"]), rng.randint(1, 3))):
        if ok:
            j = rng.choice(ok)
            other["lat"][k], other["lon"][k] = lat[j], lon[j]
            other["t"][k] = d["t"][j]
    for x in (d, other):
        if x.get("layout") == "nolabel":
            x["layout"] = "c"
    return kind


def gen_history(rng, R, max_n):
    """calls on one Collocator: same/other/moved point sets, exchanged coordinate arrays, changing sizes and tuning"""
    calls = [gen_call(rng, R, max_n)]
    exchange = rng.random() < 0.35      # a history around exchanged coordinate arrays (longitudes usable as latitudes)
    if exchange:
        for _ in range(8):
            if all(v is None or abs(v) <= 90.0 for d in (calls[0]["p"], calls[0]["s"]) for v in d["lon"]) and \
                    not calls[0]["p"].get("grid") and not calls[0]["s"].get("grid"):
                break
            calls = [gen_call(rng, R, max_n)]
    for step in range(rng.randint(1, 4)):
        prev = calls[-1]
        t = rng.random()
        new = json.loads(json.dumps(prev))
        new["seed"] = rng.randrange(2 ** 31)
        if (exchange or rng.random() < 0.2) and \
                coord_exchange(rng, new, force="swap" if exchange and step % 2 == 0 else None) is not None:
            calls.append(new)
            continue
        if t < 0.25:        # same primary, new secondary
            fresh = gen_call(rng, R, max_n)
            new["s"] = fresh["s"]
        elif t < 0.5:       # secondary moved slightly (same size): the cache must not be reused
            k = rng.randrange(len(new["s"]["lat"]))
            if new["s"]["lat"][k] is not None:
                new["s"]["lat"][k] = max(-90.0, min(90.0, new["s"]["lat"][k] + rng.choice([1e-9, -1e-6, 1e-4, 0.01])))
        elif t < 0.65:      # primary moved slightly
            k = rng.randrange(len(new["p"]["lon"]))
            if new["p"]["lon"][k] is not None:
                new["p"]["lon"][k] = max(-180.0, min(180.0, new["p"]["lon"][k] + rng.choice([1e-9, -1e-6, 1e-4])))
        elif t < 0.8:       # swapped roles
            new["p"], new["s"] = new["s"], new["p"]
        elif t < 0.9:       # identical again, other tuning
            new["magnitude_factor"] = rng.choice([10, 1, 0, 100])
            new["leaf_size"] = rng.choice([40, 1, 3])
        else:
            new = gen_call(rng, R, max_n)
        calls.append(new)
    return calls


def gen_binned_direct(rng, R):
    mi_us = rng.choice([1, 1000, 250000, 10 ** 6, 1500000, 6 * 10 ** 7])
    km = rng.choice([1.0, 5.0, 50.0])
    n, m = rng.randint(1, 40), rng.randint(1, 40)
    unit = rng.choice([u for u in (10 ** 9, 10 ** 6, 10 ** 3) if u <= mi_us * 1000])
    p, s = gen_pair(rng, n, m, mi_us * 1000, km, R, unit, sorted_times=True)
    if rng.random() < 0.4:      # a gap (empty groups) in the primaries
        gap = rng.choice([3, 50]) * mi_us * 1000
        p["t"] = [t + (gap if i >= len(p["t"]) // 2 else 0) for i, t in enumerate(p["t"])]
        s["t"] = sorted(t + (gap if rng.random() < 0.5 else 0) for t in s["t"])
    if rng.random() < 0.5:
        p, s = s, p
    bf = rng.choice([1, 1, 2, 3, 10, 0.5, 0.25])
    if mi_us * bf < 1:          # bin_factor * max_interval below the timedelta resolution is not a meaningful bin width
        bf = 1
    return {"op": "binned", "p": {k: p[k] for k in ("t", "lat", "lon")}, "s": {k: s[k] for k in ("t", "lat", "lon")},
            "mi_us": mi_us, "md": km, "bin_factor": bf, "magnitude_factor": rng.choice([10, 1, 0, 3]),
            "leaf_size": rng.choice([40, 2]), "seed": rng.randrange(2 ** 31)}


def gen_big(rng, R, grid=False):
    """> 10^6 candidate pairs AFTER the window selection and the NaN filter: collocate() takes the temporally
    pre-binned path.  Both datasets contain the global first and last time stamp, so the common window keeps all
    points; bin_factor below and above 1; |dt| spread over (0, max_interval) and around it."""
    mi = rng.choice([{"kind": "str", "v": "10 s", "ns": 10 ** 10}, {"kind": "num", "v": 30},
                     {"kind": "str", "v": "1500 ms", "ns": 1500 * 10 ** 6}, {"kind": "num", "v": 2.5}])
    _, mi_ns = mi_value(mi)
    km = rng.choice([2.0, 10.0])
    n, m = rng.choice([(1250, 1100), (1100, 1250), (1500, 950), (1060, 1060)])
    if grid:
        n = 3 * (n // 3)
    span = mi_ns * rng.choice([20, 60])
    c = (rng.uniform(-60, 60), rng.uniform(-170, 170))
    spts = g.gen_points(rng, m, "cluster", c, km / 6.371 * 4)
    st = [T_BASE + span + (rng.randrange(0, span) // 10 ** 6) * 10 ** 6 for _ in range(m)]
    ppts, pt = [], []
    for _ in range(n):
        j = rng.randrange(m)
        f = rng.choice([0.0, 0.5, 0.9, 1.1, 3.0])
        ppts.append(g.destination(spts[j][0], spts[j][1], g.angle_for("minkowski", f * km, R), rng.uniform(0, 6.28)) if f else spts[j])
        off = rng.choice([0, mi_ns, -mi_ns, mi_ns - 10 ** 6, mi_ns + 10 ** 6, rng.randrange(-2 * mi_ns, 2 * mi_ns),
                          rng.randrange(1, mi_ns) , -rng.randrange(1, mi_ns), rng.randrange(1, mi_ns), -rng.randrange(1, mi_ns)])
        pt.append(st[j] + (off // 10 ** 6) * 10 ** 6)
    if rng.random() < 0.5:      # a long gap: empty pandas groups
        pt = [t + (50 * mi_ns if i % 2 else 0) for i, t in enumerate(pt)]
        st = [t + (50 * mi_ns if i % 3 == 0 else 0) for i, t in enumerate(st)]
    lo, hi = min(pt + st), max(pt + st)
    pt[0], pt[1], st[0], st[1] = lo, hi, lo, hi          # same coverage: nothing is cut by the common window
    mk = lambda pts, ts, b: {"t": ts, "lat": [x[0] for x in pts], "lon": [x[1] for x in pts],
                             "ids": [b + i for i in range(len(ts))], "labels": list(range(len(ts)))}
    p = mk(ppts, pt, 10000)
    if grid:            # scan lines of 3 positions (time of the line = time of its first point)
        order = sorted(range(n), key=lambda i: pt[i])
        p = {k: [p[k][i] for i in order] for k in p}
        p = to_grid(rng, p, 3)
        p["layout"] = "grid"
        p["t"][0], p["t"][-1] = lo, hi
    call = {"p": p, "s": mk(spts, st, 50000), "mi": mi, "md": km, "bin_factor": rng.choice([0.25, 0.5, 1, 4]),
            "magnitude_factor": rng.choice([10, 1]), "leaf_size": 40, "seed": rng.randrange(2 ** 31), "start": None, "end": None,
            "_expect_binned": True}
    if rng.random() < 0.5:
        call["p"], call["s"] = call["s"], call["p"]
    return call


def follow_up_of_big(rng, rec, col, big):
    """a small direct call whose one side is exactly the point set of the index the binned call left behind
    (so the cached index is eligible for re-use), on the same Collocator"""
    builds = [ev for ev in rec.events if ev[0] == "build"]
    queries = [ev for ev in rec.events if ev[0] == "query"]
    if not builds or not queries:
        return None
    ix = col.index
    qlat, qlon = queries[-1][2], queries[-1][3]
    a = {"t": [T_BASE] * len(ix.lat), "lat": [float(x) for x in ix.lat], "lon": [float(x) for x in ix.lon],
         "ids": [7000 + i for i in range(len(ix.lat))], "labels": list(range(len(ix.lat)))}
    b = {"t": [T_BASE + 10 ** 9] * len(qlat), "lat": [float(x) for x in qlat], "lon": [float(x) for x in qlon],
         "ids": [8000 + i for i in range(len(qlat))], "labels": list(range(len(qlat)))}
    p, s = (a, b) if col.index_with_primary else (b, a)
    return {"p": p, "s": s, "mi": {"kind": "str", "v": "10 s", "ns": 10 ** 10}, "md": big["md"], "bin_factor": 1,
            "magnitude_factor": big["magnitude_factor"], "leaf_size": 40, "seed": rng.randrange(2 ** 31), "start": None, "end": None}


# ---------------------------------------------------------------- driver batching
class Batch:
    def __init__(self, ck, use_model):
        self.ck, self.use_model = ck, use_model
        self.lines, self.cbs = [], []

    def add(self, lines, cb):
        self.cbs.append((len(self.lines), len(lines), cb))
        self.lines += lines
        if len(self.lines) > 3000:
            self.flush()

    def flush(self):
        if not self.lines:
            return
        out = self.ck.driver(self.lines, timeout=1200)
        for a, k, cb in self.cbs:
            cb(out[a:a + k])
        self.lines, self.cbs = [], []


def run_history(ck, rec, calls, R, use_model, batch, follow_up=None):
    """calls on ONE Collocator; the driver keeps the matching object state between them.  `follow_up(col, last
    call)` may append one more call that depends on what the real object did (needs the recorder's events)."""
    from typhon.collocations import Collocator
    col = Collocator()
    state = {"built": 0, "calls": 0}
    all_lines, cbs = ["reset"], []

    def collect(lines, cb):
        cbs.append((len(all_lines), len(lines), cb))
        all_lines.extend(lines)
    calls = list(calls)
    k = 0
    while k < len(calls):
        c = dict(calls[k])
        if len(calls) > 1:
            c["_history"] = calls[:k]
        run_call(ck, col, rec, c, R, state, use_model, collect)
        if follow_up is not None and k == len(calls) - 1:
            extra = follow_up(col, calls[k])
            follow_up = None
            if extra is not None:
                calls.append(extra)
        k += 1
    if use_model and cbs:
        def cb_all(out):
            for a, n, cb in cbs:
                cb(out[a:a + n])
        batch.add(all_lines, cb_all)


# ---------------------------------------------------------------- histories with in-place mutation
def gen_inplace_history(rng, R):
    """calls on ONE Collocator where the caller keeps its numpy buffers / Dataset objects and changes positions IN
    PLACE between the calls (spatial-only search mostly: nothing in collocate() copies the data then)"""
    km = rng.choice([5.0, 30.0, 100.0])
    n, m = rng.choice([(rng.randint(8, 40), rng.randint(2, 7)), (rng.randint(2, 7), rng.randint(8, 40)),
                       (rng.randint(3, 12), rng.randint(3, 12))])
    mi = None if rng.random() < 0.75 else rng.choice([{"kind": "str", "v": "10 s", "ns": 10 ** 10}, {"kind": "num", "v": 2}])
    p, s = gen_pair(rng, n, m, 10 ** 10, km, R, 10 ** 9, nan_rate=rng.choice([0, 0, 0, 0.15]))
    if rng.random() < 0.5:
        p, s = s, p
    for d in (p, s):
        d["labels"] = list(range(len(d["t"])))
    steps = [{"mut": [], "rewrap": [], "swap": False}]
    for _ in range(rng.randint(1, 3)):
        muts = []
        for side, d in (("p", p), ("s", s)):
            if rng.random() < 0.6:
                for i in rng.sample(range(len(d["t"])), rng.randint(1, max(1, len(d["t"]) // 2))):
                    other = s if side == "p" else p
                    j = rng.randrange(len(other["t"]))
                    base = (other["lat"][j], other["lon"][j])
                    if base[0] is None or base[1] is None:
                        base = (rng.uniform(-60, 60), rng.uniform(-170, 170))
                    f = rng.choice([0.0, 0.5, 0.9, 1.1, 3.0, 40.0])
                    th = g.angle_for("minkowski", f * km, R)
                    pos = g.destination(base[0], base[1], th, rng.uniform(0, 6.28)) if f else base
                    if rng.random() < 0.05:
                        pos = (None, pos[1])
                    muts.append({"side": side, "i": i, "lat": pos[0], "lon": pos[1]})
        steps.append({"mut": muts, "rewrap": [x for x in ("p", "s") if rng.random() < 0.3], "swap": rng.random() < 0.15})
    return {"op": "inplace-history", "p": p, "s": s, "mi": mi, "md": km, "steps": steps,
            "magnitude_factor": rng.choice([10, 10, 1, 100]), "leaf_size": rng.choice([40, 2]), "seed": rng.randrange(2 ** 31)}


def run_inplace_history(ck, rec, case, R, use_model, batch):
    import xarray as xr
    from typhon.collocations import Collocator
    col = Collocator()
    state = {"built": 0, "calls": 0}
    cur = {k: json.loads(json.dumps(case[k])) for k in ("p", "s")}      # current values (for oracle / model / fresh run)
    bufs, dsets = {}, {}

    def wrap(k):
        b = bufs[k]
        return xr.Dataset({"time": ("c", b["t"]), "lat": ("c", b["lat"]), "lon": ("c", b["lon"]), "id": ("c", b["ids"]),
                           "val": ("c", carried_value(b["ids"]))}, coords={"c": b["labels"]})
    for k in ("p", "s"):
        d = cur[k]
        bufs[k] = {"t": (T_EPOCH + np.array(d["t"], dtype="int64").astype("timedelta64[ns]")).astype("datetime64[ns]"),
                   "lat": np.array([np.nan if v is None else v for v in d["lat"]], dtype=float),
                   "lon": np.array([np.nan if v is None else v for v in d["lon"]], dtype=float),
                   "ids": np.array(d["ids"], dtype="int64"), "labels": np.array(d["labels"], dtype="int64")}
        dsets[k] = wrap(k)
    all_lines, cbs = ["reset"], []

    def collect(lines, cb):
        cbs.append((len(all_lines), len(lines), cb))
        all_lines.extend(lines)
    for step in case["steps"]:
        for mu in step["mut"]:          # the caller corrects positions in place
            k, i = mu["side"], mu["i"]
            bufs[k]["lat"][i] = np.nan if mu["lat"] is None else mu["lat"]
            bufs[k]["lon"][i] = np.nan if mu["lon"] is None else mu["lon"]
            cur[k]["lat"][i], cur[k]["lon"][i] = mu["lat"], mu["lon"]
        for k in step["rewrap"]:        # a new Dataset object around the same buffers
            dsets[k] = wrap(k)
        a, b = ("s", "p") if step["swap"] else ("p", "s")
        call = {"p": json.loads(json.dumps(cur[a])), "s": json.loads(json.dumps(cur[b])), "mi": case["mi"], "md": case["md"],
                "magnitude_factor": case["magnitude_factor"], "leaf_size": case["leaf_size"], "seed": case["seed"],
                "start": None, "end": None}
        ck.count("inplace-history-calls")
        run_call(ck, col, rec, call, R, state, use_model, collect, live=(dsets[a], dsets[b]), report=case, fresh_check=True)
    if use_model and cbs:
        def cb_all(out):
            for x, n, cb in cbs:
                cb(out[x:x + n])
        batch.add(all_lines, cb_all)


def explore(ck, n_calls, n_hist, n_binned, n_big, max_n, use_model=True):
    import warnings
    warnings.filterwarnings("ignore")
    rng = ck.rng
    R = g.earth_radius()
    rec = Recorder()
    restore = install(rec)
    batch = Batch(ck, use_model)
    try:
        for name, c in vlib.load_corpus(PROP):
            run_corpus_case(ck, rec, c, R, use_model, batch)
        for _ in range(n_binned):
            run_binned_direct(ck, rec, gen_binned_direct(rng, R), R, use_model, batch.add)
        for _ in range(n_calls):
            call = gen_call(rng, R, max_n)
            run_history(ck, rec, [call], R, use_model, batch)
            if rng.random() < 0.15:     # swapped roles on a fresh Collocator: transposed result (checked by the oracle)
                sw = dict(call, p=call["s"], s=call["p"])
                run_history(ck, rec, [sw], R, use_model, batch)
        for _ in range(n_hist):
            run_history(ck, rec, gen_history(rng, R, min(max_n, 60)), R, use_model, batch)
        for _ in range(n_hist):
            run_inplace_history(ck, rec, gen_inplace_history(rng, R), R, use_model, batch)
        for _ in range(max(1, n_calls // 5)):
            call = gen_call(rng, R, 60)
            npos = rng.choice([2, 3, 5])
            gp = to_grid(rng, call["p"], npos)
            if gp is not None:
                call["p"] = gp
                if rng.random() < 0.3:
                    gs = to_grid(rng, call["s"], rng.choice([2, 3]))
                    if gs is not None:
                        call["s"] = gs
                run_history(ck, rec, [call], R, use_model, batch)
        for k in range(n_big):
            big = gen_big(rng, R, grid=(k % 3 == 2))
            if k % 3 == 1:      # reused Collocator x binned path: binned call, then a small call on the cached points
                run_history(ck, rec, [gen_call(rng, R, 30), big], R, use_model, batch,
                            follow_up=lambda col, last: follow_up_of_big(rng, rec, col, last))
            else:
                run_history(ck, rec, [big], R, use_model, batch)
        batch.flush()
    finally:
        restore()


def run_corpus_case(ck, rec, c, R, use_model, batch):
    if c.get("op") == "binned":
        run_binned_direct(ck, rec, c, R, use_model, batch.add)
    elif c.get("op") == "inplace-history":
        run_inplace_history(ck, rec, c, R, use_model, batch)
    elif "history" in c:
        run_history(ck, rec, c["history"], R, use_model, batch)
    else:
        hist = c.get("_history") or []
        run_history(ck, rec, hist + [{k: v for k, v in c.items() if k != "_history"}], R, use_model, batch)


def make_check():
    return vlib.Check(
        PROP, pkg="colloc", props="Proofs.Props.C04", driver="drv_c04",
        lemma_files=["Proofs/Lemmas/GeoIndex.lean", "Proofs/Lemmas/Collocate.lean", "Proofs/Lemmas/Binning.lean",
                     "Proofs/Lemmas/Assemble.lean", "Proofs/Lemmas/Pipeline.lean", "Proofs/Lemmas/Main.lean",
                     "Proofs/Lemmas/History.lean", "Proofs/Lemmas/Spatial.lean"],
        model_files=["Model/GeoIndex.lean", "Model/Collocate.lean"],
        trusted=["hand-written model Model/Collocate.lean (+ Model/GeoIndex.lean) tied to typhon/collocations/collocator.py by the "
                 "correspondence run of this check (driver drv_c04: datasets, recorded raw tree answers, the permutation of every "
                 "GeoIndex construction and the pandas groups go to the model; None-ness, carried ids, Collocations/pairs, intervals, "
                 "distance bits, index_with_primary and the number of index constructions are compared call by call)",
                 "scikit-learn trees (contract = hypothesis of the theorems), xarray sel/sortby/stack/isel, pandas Grouper/searchsorted/"
                 "loc slicing, pd.unique are modelled, not verified",
                 "float chord distance vs threshold is validated with a 1e-7 margin, not proved"],
        assumptions=["max_distance is given; max_interval is given or None (spatial-only search); datasets are uniquely labelled on the shared dimension",
                     "times are datetime64[ns] without NaT; start/end are whole microseconds",
                     "max_interval has microsecond resolution (Python timedelta); it is given as number, unit string or timedelta object",
                     "lat/lon share their first dimension with time (docstring); (scnpos, scnline) storage only on the direct path"])


def main():
    ck = make_check()
    ck.rule = ("pairs of labelled point datasets (1..300 points quick, unsorted/duplicate times, partners placed at 0/0.5/0.9/1.1/3 x "
               "max_distance and at |dt| = mi, mi -/+ one tick, NaNs, single points, start/end windows, number/unit-string thresholds, "
               "tuning variations, swapped roles), reused Collocators with call histories, scan-line grids, the pre-binned path both "
               "through collocate() (> 10^6 candidates) and through spatial_search_with_temporal_binning() on small sorted data; "
               "non-trivial = at least one collocation and one non-collocated candidate pair")
    ck.anchors([("typhon/collocations/collocator.py", "Collocator." + f) for f in
                ("collocate", "_prepare_data", "_get_common_time_period", "_flat_to_main_coord", "_get_not_nans", "_to_original",
                 "spatial_search", "_build_spatial_index", "_spatial_is_cached", "_choose_points_to_build_index",
                 "spatial_search_with_temporal_binning", "_bin_pairs", "_spatial_search_bin", "_temporal_check", "_get_intervals",
                 "_create_return")] + [("typhon/utils/timeutils.py", "to_timedelta"), ("typhon/geographical.py", "GeoIndex.query")])
    ck.build()
    use_model = ck.build_ok is not False or os.path.exists(os.path.join(ck.pkgdir, ".lake/build/bin/drv_c04"))
    th = ck.tier == "thorough"
    explore(ck, ck.budget(300, 2500), ck.budget(60, 400), ck.budget(120, 800), min(ck.budget(4, 30), 30 if th else 8), 3000 if th else 300, use_model)
    if ck.broken() and not ck.violations:
        explore(ck, 1500, 200, 400, 4, 300, use_model=False)
    ck.finish()


def replay(path):
    import warnings
    warnings.filterwarnings("ignore")
    obj = json.load(open(path))
    c = obj.get("case")
    if not c:
        print(json.dumps(obj, indent=1)[:2000])
        raise SystemExit(1)
    ck = make_check()
    rec = Recorder()
    restore = install(rec)
    try:
        run_corpus_case(ck, rec, c, g.earth_radius(), False, Batch(ck, False))
    finally:
        restore()
    for v in ck.violations:
        print("REPRODUCED:", v["what"])
    raise SystemExit(1 if ck.violations else 0)
