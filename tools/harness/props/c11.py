"""C11 — files written, moved, copied or deleted through a FileSet are conserved.

Decided by: theorems in lean/fsops/Proofs/Props/C11.lean about the model lean/fsops/Model/FsOps.lean + correspondence
of the model (driver drv_c11) with the real FileSet on random operation histories (directory listing and file
contents after every operation) + an independent oracle: a plain dict per fileset maintained by the harness and its
own naming functions for the three templates.  CSV and NetCDF filesets are exercised by the oracle only (their
fidelity is outside the model; NetCDF in a forked child).
"""
import contextlib
import datetime as dt
import gzip
import io
import json
import os
import shutil
import tempfile

import vlib

PROP = "C11"
EPOCH = dt.datetime(1, 1, 1)


def us(t):
    return (t - EPOCH) // dt.timedelta(microseconds=1)


def hx(s):
    b = s.encode("utf-8") if isinstance(s, str) else s
    return b.hex() if b else "-"


# ---------------------------------------------------------------- handler functions (module level: picklable)
def text_reader(file_info, tag="r0", **kwargs):
    """the read argument `tag` is visible in what is returned"""
    with open(file_info.path) as f:
        d = json.load(f)
    return {"rd": tag, "w": d["w"], "d": d["d"]}


def text_writer(data, file_info, prefix="w0", **kwargs):
    """the write argument `prefix` is stored in the file"""
    with open(file_info.path, "w") as f:
        json.dump({"w": prefix, "d": data}, f, sort_keys=True)


def _do_read(file_info, tag):
    with open(file_info.path) as f:
        d = json.load(f)
    return {"rd": tag, "w": d["w"], "d": d["d"]}


def _do_write(data, file_info, prefix):
    with open(file_info.path, "w") as f:
        json.dump({"w": prefix, "d": data}, f, sort_keys=True)


def reader_kw(file_info, **kwargs):
    return _do_read(file_info, kwargs.get("tag", "r0"))


def reader_plain(file_info):
    return _do_read(file_info, "r0")


def reader_extra(file_info, marker=None, tag="r0"):
    return _do_read(file_info, tag)


def writer_kw(data, file_info, **kwargs):
    _do_write(data, file_info, kwargs.get("prefix", "w0"))


def writer_plain(data, file_info):
    _do_write(data, file_info, "w0")


def writer_extra(data, file_info, marker=None, prefix="w0"):
    _do_write(data, file_info, prefix)


def info_fn(file_info, **kwargs):
    from typhon.files.handlers.common import FileInfo
    return FileInfo(file_info.path, None, {"info": "seen"})


class HandlerObject:
    """bound methods as reader / writer / info function (picklable)"""

    def read_two(self, file_info, tag="r0", **kwargs):
        return _do_read(file_info, tag)

    def read_one(self, file_info, **kwargs):
        return _do_read(file_info, kwargs.get("tag", "r0"))

    def read_plain(self, file_info):
        return _do_read(file_info, "r0")

    def write_two(self, data, file_info, prefix="w0", **kwargs):
        _do_write(data, file_info, prefix)

    def write_one(self, data, file_info, **kwargs):
        _do_write(data, file_info, kwargs.get("prefix", "w0"))

    def write_plain(self, data, file_info):
        _do_write(data, file_info, "w0")

    def info(self, file_info):
        return info_fn(file_info)


class CallReader:
    def __call__(self, file_info, tag="r0"):
        return _do_read(file_info, tag)


class CallReaderPlain:
    def __call__(self, file_info):
        return _do_read(file_info, "r0")


class CallWriter:
    def __call__(self, data, file_info, prefix="w0"):
        _do_write(data, file_info, prefix)


class CallWriterPlain:
    def __call__(self, data, file_info):
        _do_write(data, file_info, "w0")


class CallInfo:
    def __call__(self, file_info):
        return info_fn(file_info)


# kind -> (factory, does the callable take the read/write arguments?, usable with process pools?)
READER_KINDS = {
    "function": (lambda: text_reader, True, True),
    "function-kw": (lambda: reader_kw, True, True),
    "function-plain": (lambda: reader_plain, False, True),
    "lambda": (lambda: (lambda fi, tag="r0": _do_read(fi, tag)), True, False),
    "lambda-plain": (lambda: (lambda fi: _do_read(fi, "r0")), False, False),
    "method-two": (lambda: HandlerObject().read_two, True, True),
    "method-plain": (lambda: HandlerObject().read_plain, False, True),
    "partial": (lambda: __import__("functools").partial(reader_extra, marker="m"), True, True),
    "callable": (lambda: CallReader(), True, True),
    "callable-plain": (lambda: CallReaderPlain(), False, True),
}
# A bound-method reader with exactly ONE extra parameter lost its read arguments (`number_args = 1 + int(ismethod)` although
# inspect.signature of a bound method already omits self): fixed by /repo 59b4180, signature `bound-method-reader-args-dropped`.
READER_KINDS["method-one"] = (lambda: HandlerObject().read_one, True, True)
WRITER_KINDS = {
    "function": (lambda: text_writer, True, True),
    "function-kw": (lambda: writer_kw, True, True),
    "function-plain": (lambda: writer_plain, False, True),
    "lambda": (lambda: (lambda d, fi, prefix="w0": _do_write(d, fi, prefix)), True, False),
    "lambda-plain": (lambda: (lambda d, fi: _do_write(d, fi, "w0")), False, False),
    "method-two": (lambda: HandlerObject().write_two, True, True),
    "method-one": (lambda: HandlerObject().write_one, True, True),
    "method-plain": (lambda: HandlerObject().write_plain, False, True),
    "partial": (lambda: __import__("functools").partial(writer_extra, marker="m"), True, True),
    "callable": (lambda: CallWriter(), True, True),
    "callable-plain": (lambda: CallWriterPlain(), False, True),
}
INFO_KINDS = {
    "function": (lambda: info_fn, True),
    "lambda": (lambda: (lambda fi: info_fn(fi)), False),
    "method": (lambda: HandlerObject().info, True),
    "partial": (lambda: __import__("functools").partial(info_fn, marker="m"), True),
    "callable": (lambda: CallInfo(), True),
}


def post_fn(file_info, data):
    return {"post": data}


def conv_fn(data):
    return {"G": data}


def token(data):
    """model token of a data object: wrappers of reader / writer arguments, post_reader and convert function stay visible"""
    if isinstance(data, dict) and sorted(data) == ["d", "rd", "w"]:
        return f"R{data['rd']}.W{data['w']}." + token(data["d"])
    if isinstance(data, dict) and sorted(data) == ["d", "w"]:
        return f"W{data['w']}." + token(data["d"])
    if isinstance(data, dict) and list(data) == ["post"]:
        return "P." + token(data["post"])
    if isinstance(data, dict) and list(data) == ["G"]:
        return "G." + token(data["G"])
    return hx(json.dumps(data, sort_keys=True))


def structure(raw):
    """content class of the bytes of a file: compression layers + handler token"""
    pre = ""
    while raw[:2] == b"\x1f\x8b":
        raw = gzip.decompress(raw)
        pre += "z:"
    try:
        return pre + "r:" + token(json.loads(raw.decode("utf-8")))
    except Exception:      # noqa
        return pre + "?:" + raw[:16].hex()


# ---------------------------------------------------------------- the filesets
# kind: which part of a key (start, end, sat) the template can carry
#   sameday = start + end time of day (no end date), full = start + end, start = start only, day = the day only
SETS = {
    "A": dict(tmpl="A/{year}/{month}/{day}/{sat}_{hour}{minute}{second}-{end_hour}{end_minute}{end_second}.dat", z=False, p=False,
              w="wa", r="ra", kind="sameday"),
    "B": dict(tmpl="B/{year}/{doy}/{sat}/{hour}{minute}{second}_{end_hour}{end_minute}{end_second}.json", z=False, p=False,
              w=None, r=None, kind="sameday"),
    "C": dict(tmpl="C/{sat}/{year}{month}{day}{hour}{minute}{second}-{end_year}{end_month}{end_day}{end_hour}{end_minute}{end_second}.dat.gz",
              z=True, p=True, w="wc", r=None, kind="full"),
    # (temporal placeholders only in the file name: find() prunes directories by their start fields, C01 territory)
    "D": dict(tmpl="D/{sat}/{year}{doy}-{end_year}{end_doy}_{hour}{minute}{second}-{end_hour}{end_minute}{end_second}.dat", z=False, p=False,
              w=None, r="rd", kind="full"),
    "E": dict(tmpl="E/{sat}/{year}{month}{day}T{hour}{minute}{second}.dat", z=False, p=False, w="we", r=None, kind="start"),
    "F": dict(tmpl="F/{year}/{month}/{sat}_{day}.dat", z=False, p=False, w=None, r=None, kind="day"),
    # two-digit years: the window 1965 .. 2064 (year2_threshold = 65); boundary years are drawn with high probability
    "I": dict(tmpl="I/{sat}/{year2}{month}{day}_{hour}{minute}{second}-{end_year2}{end_month}{end_day}{end_hour}{end_minute}{end_second}.dat",
              z=False, p=False, w="wi", r=None, kind="year2"),
    # no placeholder in any directory name (flat): the path setter must forget the sub directory of a previous path
    "H": dict(tmpl="H/{sat}_{year}{month}{day}T{hour}{minute}{second}.dat", z=False, p=False, w=None, r="rh", kind="start"),
}
UNFILLED_TMPL = "G/{orbit}/{year}{month}{day}{hour}{minute}{second}.dat"      # a placeholder no source file can fill


def own_name(sid, key):
    """naming of the six templates, independent of typhon (strftime only)"""
    s, e, sat = key
    if sid == "A":
        return f"A/{s:%Y}/{s:%m}/{s:%d}/{sat}_{s:%H%M%S}-{e:%H%M%S}.dat"
    if sid == "B":
        return f"B/{s:%Y}/{s:%j}/{sat}/{s:%H%M%S}_{e:%H%M%S}.json"
    if sid == "C":
        return f"C/{sat}/{s:%Y%m%d%H%M%S}-{e:%Y%m%d%H%M%S}.dat.gz"
    if sid == "D":
        return f"D/{sat}/{s:%Y}{s:%j}-{e:%Y}{e:%j}_{s:%H%M%S}-{e:%H%M%S}.dat"
    if sid == "E":
        return f"E/{sat}/{s:%Y%m%d}T{s:%H%M%S}.dat"
    if sid == "H":
        return f"H/{sat}_{s:%Y%m%d}T{s:%H%M%S}.dat"
    if sid == "I":
        return f"I/{sat}/{s.year % 100:02d}{s:%m%d}_{s:%H%M%S}-{e.year % 100:02d}{e:%m%d%H%M%S}.dat"
    return f"F/{s:%Y}/{s:%m}/{sat}_{s:%d}.dat"


def rekey(sid, key):
    """the key under which fileset `sid` knows a file generated from `key` (None: the template cannot carry it)"""
    s, e, sat = key
    kind = SETS[sid]["kind"]
    if kind == "full":
        return key
    if kind == "year2":
        return key if 1965 <= s.year <= 2064 and 1965 <= e.year <= 2064 else None
    if kind == "sameday":
        # end given as time of day only: representable while the period is shorter than a day (the end may lie on the next
        # day - also across a month / year end -, then its time of day is earlier than the start's)
        return key if s <= e and e - s < dt.timedelta(days=1) else None
    if kind == "start":
        return (s, s, sat)
    d0 = dt.datetime(s.year, s.month, s.day)
    return (d0, d0, sat)


def key_token(key):
    return f"{us(key[0])}_{us(key[1])}_{key[2]}"


def make_sets(root, worker_type, ids, kinds, flags=None):
    """kinds: sid -> (reader kind, writer kind, info kind or None); flags: sid -> (compress, decompress)"""
    from typhon.files import FileSet, FileHandler
    out = {}
    for sid in ids:
        cfg = SETS[sid]
        rk, wk, ik = kinds[sid]
        kw = {}
        if cfg["p"]:
            kw["post_reader"] = post_fn
        if cfg["w"]:
            kw["write_args"] = {"prefix": cfg["w"]}
        if cfg["r"]:
            kw["read_args"] = {"tag": cfg["r"]}
        hk = {"reader": READER_KINDS[rk][0](), "writer": WRITER_KINDS[wk][0]()}
        if ik:
            hk["info"] = INFO_KINDS[ik][0]()
            kw["info_via"] = "both"
        if flags and flags.get(sid, (True, True)) != (True, True):
            kw["compress"], kw["decompress"] = flags[sid]
        out[sid] = FileSet(os.path.join(root, cfg["tmpl"]), handler=FileHandler(**hk),
                           name=sid, worker_type=worker_type, max_processes=2, max_threads=2, **kw)
    return out


def walk(root):
    out = {}
    for d, _, files in os.walk(root):
        for n in files:
            p = os.path.join(d, n)
            with open(p, "rb") as f:
                out[os.path.relpath(p, root)] = structure(f.read())
    return out


def decode_core(z, p, tag, struct):
    """what reading `struct` gives (token) or None = raises: z = the path has a compression suffix, p = post_reader set,
    tag = the read argument that reaches the reader"""
    if z:
        if not struct.startswith("z:r:"):
            return None
        tok = struct[4:]
    else:
        if not struct.startswith("r:"):
            return None
        tok = struct[2:]
    tok = f"R{tag}." + tok
    return ("P." + tok) if p else tok


def overlaps(key, qs, qe):
    return key[0] <= qe and qs <= key[1]


HALF = dt.timedelta(milliseconds=500)


# ---------------------------------------------------------------- one history
def history_case(ck, scratch, nops, use_model=True, pool="thread"):
    from typhon.files import FileSet, FileHandler
    rng = ck.rng
    root = tempfile.mkdtemp(dir=scratch)
    ids = sorted(rng.sample(list(SETS), rng.choice([3, 3, 4])))
    if "H" not in ids and rng.random() < 0.4:
        ids = sorted(ids[:-1] + ["H"])
    returned = {}                               # dst -> (FileSet returned by move(<string template>), source id)
    if "I" not in ids and rng.random() < 0.3:
        ids = sorted([x for x in ids if x != ids[0]] + ["I"])
    kinds = {}
    for sid in ids:
        rks = [k for k, v in READER_KINDS.items() if v[2] or pool == "thread"]
        wks = [k for k, v in WRITER_KINDS.items() if v[2] or pool == "thread"]
        iks = [k for k, v in INFO_KINDS.items() if v[1] or pool == "thread"]
        kinds[sid] = (rng.choice(rks), rng.choice(wks), rng.choice(iks) if (not SETS[sid]["z"] and rng.random() < 0.25) else None)
        ck.count("handler/reader/" + kinds[sid][0])
        ck.count("handler/writer/" + kinds[sid][1])
        if kinds[sid][2]:
            ck.count("handler/info/" + kinds[sid][2])
    # FileSet(compress=, decompress=): with compress=False a file with a compression suffix holds plain bytes, with
    # decompress=False it is read as it is
    flags = {sid: (True, True) for sid in ids}
    for sid in ids:
        if SETS[sid]["z"]:
            flags[sid] = rng.choice([(True, True), (True, True), (False, False), (False, False), (False, True), (True, False)])
        elif rng.random() < 0.2:
            flags[sid] = rng.choice([(False, True), (True, False), (False, False)])      # no suffix: the options change nothing
        ck.count(f"config/compress={flags[sid][0]},decompress={flags[sid][1]}" + ("/gz-template" if SETS[sid]["z"] else ""))
    sets = make_sets(root, pool, ids, kinds, flags)

    def zw(sid, owner=None):
        """is a file written into template sid through FileSet object `owner` compressed?"""
        return SETS[sid]["z"] and flags[owner or sid][0]

    def zr(sid, owner=None):
        return SETS[sid]["z"] and flags[owner or sid][1]

    def wtag(sid, override=None):
        """the prefix that reaches the writer of fileset sid"""
        return (override or SETS[sid]["w"] or "w0") if WRITER_KINDS[kinds[sid][1]][1] else "w0"

    def rtag(sid, override=None):
        return (override or SETS[sid]["r"] or "r0") if READER_KINDS[kinds[sid][0]][1] else "r0"

    def sig(default, *sids):
        """bound-method reader with one extra parameter (defect fixed by /repo 59b4180)"""
        return "bound-method-reader-args-dropped" if any(kinds[x][0] == "method-one" for x in sids if x) else default

    def info_blocked(owner, sid):
        """find() through a FileSet object that has an info function (info_via="both") decompresses every file whose name has
        a compression suffix before calling it.  After a NON-converting move across a compression-suffix change the target
        holds plain bytes under a .gz name - unreadable through any handler BY DESIGN (the property only promises that the
        content is kept; conversion happens "when convert is set").  Such a fileset object cannot be searched then; the
        files are still checked by name and byte content (snapshot) and through the target's own fileset."""
        return kinds[owner][2] is not None and SETS[sid]["z"] and any(not st.startswith("z:") for st in oracle[sid].values())

    def decode_expect(sid, struct, tag=None, via=None):
        """reading `struct` (a file in sid's template) through fileset sid, or through a copy of fileset `via`"""
        owner = via or sid
        return decode_core(zr(sid, owner), SETS[owner]["p"], rtag(owner, tag), struct)

    oracle = {sid: {} for sid in ids}           # key (as the fileset knows it) -> structure
    lines = [f"fileset {sid} {int(zw(sid))}{int(zr(sid))} {int(SETS[sid]['p'])} {wtag(sid)} {rtag(sid)}" for sid in ids]
    checks = []                                 # (line index, expected output, description)
    named, aliased = set(), set()
    ops = []
    year = rng.choice([2015, 2016, 2017, 2019, 2020])
    day0 = dt.datetime(year, rng.choice([1, 2, 3, 12, 12]), rng.choice([1, 28, 27, 15]))
    if rng.random() < 0.35:
        day0 = dt.datetime(year, 12, 31)          # doy 365 / 366
    slots = [day0 + dt.timedelta(days=rng.choice([0, 0, 1, 2, 40, 366]), hours=h) for h in range(0, 22, 2)]
    case = {"op": "history", "pool": pool, "sets": ids, "handlers": {k: list(v) for k, v in kinds.items()}, "ops": ops}
    counter = [0]

    def ensure_name(sid, key):
        if (sid, key) in named:
            return
        named.add((sid, key))
        lines.append(f"name {sid} {key_token(key)} {hx(own_name(sid, key))}")

    def check_generated(sid, key, rep):
        """the name the real template generates from `key` must be the independent name of its representation"""
        real = os.path.relpath(sets[sid].get_filename((key[0], key[1]), fill={"sat": key[2]}), root)
        if real != own_name(sid, rep):
            ck.violation("naming", f"fileset {sid} names {key[0]}..{key[1]} ({key[2]}) as {real}, expected {own_name(sid, rep)}", case)
            return False
        return True

    def new_key(sid):
        kind = SETS[sid]["kind"]
        sat = rng.choice(["A", "B", "noaa15"])
        if kind == "year2":
            y = rng.choice([1965, 1965, 1966, 1999, 2000, 2064, 2064, 2019, rng.randint(1965, 2064)])
            s = dt.datetime(y, rng.choice([1, 6, 12]), rng.choice([1, 15, 28]), rng.choice([0, 11, 23]), rng.choice([0, 30]))
            e = s + dt.timedelta(hours=rng.choice([0, 1, 5]), minutes=rng.choice([0, 7]), seconds=rng.choice([0, 5]))
            if rng.random() < 0.2 and y in (1965, 1999, 2063):
                s = dt.datetime(y, 12, 31, 23, 30)
                e = s + dt.timedelta(hours=1)                   # into the next year (1966, 2000, 2064)
            return (s, e, sat)
        if kind == "full" and rng.random() < 0.45:
            y = rng.choice([2015, 2016, 2017, 2019, 2020])
            s = dt.datetime(y, 12, rng.choice([30, 31, 31]), rng.choice([0, 11, 22, 23]), rng.choice([0, 30]))
            e = s + dt.timedelta(days=rng.choice([0, 1, 1, 2, 3]), hours=rng.choice([0, 1, 5]), minutes=rng.choice([0, 7]), seconds=rng.choice([0, 5]))
            return (s, e, sat)
        if kind == "sameday" and rng.random() < 0.35:
            # a period crossing midnight, preferably at a month / year end (leap and non-leap Februaries)
            y = rng.choice([2015, 2016, 2019, 2020])
            mo, d = rng.choice([(12, 31), (12, 31), (1, 31), (2, 28), (2, 29) if y % 4 == 0 else (2, 28), (4, 30), (6, 15)])
            s = dt.datetime(y, mo, d, rng.choice([21, 22, 23]), rng.choice([0, 30, 59]))
            e = s + dt.timedelta(hours=rng.choice([1, 2, 3]), minutes=rng.choice([0, 7]), seconds=rng.choice([0, 5]))
            return (s, e, sat)
        s = rng.choice(slots) + dt.timedelta(minutes=rng.choice([0, 10, 30]))
        e = s + dt.timedelta(minutes=rng.choice([0, 5, 20, 59]), seconds=rng.choice([0, 0, 59]))
        return rekey(sid, (s, e, sat))

    def window():
        if rng.random() < 0.3:
            return (dt.datetime(1960, 1, 1) - HALF, dt.datetime(2070, 1, 1) + HALF)
        allk = [k for sid in ids for k in oracle[sid]]
        if allk and rng.random() < 0.5:
            k = rng.choice(allk)
            return (k[0] - dt.timedelta(hours=rng.choice([0, 1, 30])) - HALF, k[1] + dt.timedelta(hours=rng.choice([0, 3, 50])) + HALF)
        a = rng.choice(slots) - HALF
        return (a, a + dt.timedelta(hours=rng.choice([1, 3, 7, 30])) + 2 * HALF)

    def snapshot(tag):
        got = walk(root)
        want = {}
        for sid in ids:
            for key, st in oracle[sid].items():
                want[own_name(sid, key)] = st
        if got != want:
            miss = sorted(set(want) - set(got))[:3]
            extra = sorted(set(got) - set(want))[:3]
            diff = [(k, got[k][:40], want[k][:40]) for k in got if k in want and got[k] != want[k]][:2]
            ck.violation(sig("conservation", *ids) if (diff and not miss and not extra) else "conservation",
                         f"after {tag}: missing {miss} extra {extra} changed {diff}", case)
            return False
        lines.append("ls")
        exp = " ".join(f"{hx(p)}={got[p]}" for p in sorted(got)) or "-"
        checks.append((len(lines) - 1, exp, f"listing after {tag}"))
        return True

    def select(sid, for_move):
        """choose a selection mode; returns (kwargs for the real call, selected keys, description)"""
        mode = rng.choice(["period", "period", "files", "files", "filters", "filters+period"])
        kw = {"no_files_error": False}
        keys = list(oracle[sid])
        if mode == "period":
            qs, qe = window()
            kw.update(start=qs, end=qe)
            return mode, kw, [k for k in keys if overlaps(k, qs, qe)], (qs, qe)
        if mode == "files":
            found = list(sets[sid].find(no_files_error=False))
            how = rng.choice(["empty", "subset", "subset", "all-reversed"])
            if how == "empty":
                chosen = []
            elif how == "subset":
                chosen = rng.sample(found, rng.randint(0, len(found))) if found else []
            else:
                chosen = list(reversed(found))
            rels = {os.path.relpath(f.path, root) for f in chosen}
            return mode + "/" + how, {"files": chosen}, [k for k in keys if own_name(sid, k) in rels], None
        sats = ["A", "B", "noaa15"]
        f = rng.choice([("w1", rng.choice(sats)), ("wl", rng.sample(sats, 2)), ("b1", rng.choice(sats))])
        if f[0] == "w1":
            kw["filters"] = {"sat": f[1]}
            cond = lambda k: k[2] == f[1]
        elif f[0] == "wl":
            kw["filters"] = {"sat": list(f[1])}
            cond = lambda k: k[2] in f[1]
        else:
            kw["filters"] = {"!sat": f[1]}
            cond = lambda k: k[2] != f[1]
        if mode == "filters+period":
            qs, qe = window()
            kw.update(start=qs, end=qe)
            return mode, kw, [k for k in keys if cond(k) and overlaps(k, qs, qe)], None
        return mode, kw, [k for k in keys if cond(k)], None

    try:
        for _ in range(nops):
            r = rng.random()
            if r < 0.35 or not any(oracle.values()):
                sid = rng.choice(ids)
                key = rng.choice(list(oracle[sid])) if oracle[sid] and rng.random() < 0.25 else new_key(sid)
                counter[0] += 1
                data = rng.choice([{"n": counter[0], "v": [1.5, None, "x"]}, [counter[0], "ü"], {"k": {"deep": counter[0]}}, counter[0], "s%d" % counter[0]])
                if not check_generated(sid, key, key):
                    return
                ensure_name(sid, key)
                fs = sets[sid]
                override = rng.choice([None, None, "px"])
                try:
                    if override is None and rng.random() < 0.5:
                        fs[key[0]:key[1], {"sat": key[2]}] = data
                    elif override is None:
                        fs.write(data, fs.get_filename((key[0], key[1]), fill={"sat": key[2]}))
                    else:
                        fs.write(data, fs.get_filename((key[0], key[1]), fill={"sat": key[2]}), prefix=override)      # per-call write_args
                except Exception as e:      # noqa
                    ck.violation("write-raised", f"write to {sid} raised {type(e).__name__}: {e}", case)
                    return
                oracle[sid][key] = ("z:" if zw(sid) else "") + f"r:W{wtag(sid, override)}." + token(data)
                ops.append(["write", sid, key_token(key), token(data), override])
                lines.append(f"write {sid} {key_token(key)} {token(data)} {wtag(sid, override) if override else '-'}")
                checks.append((len(lines) - 1, "ok", "write"))
                tag = f"write {sid}"
            elif r < 0.5:
                sid = rng.choice([s for s in ids if oracle[s]] or ids[:1])
                qs, qe = window()
                fs, via = sets[sid], None
                if sid in returned and rng.random() < 0.5 and not info_blocked(returned[sid][1], sid):
                    fs, via = returned[sid]             # the object move(<string>) returned stands in for the target fileset
                try:
                    found = list(fs.find(qs, qe, no_files_error=False))
                except Exception as e:      # noqa
                    ck.violation("move-return-stale-subdir" if via else "find-raised",
                                 f"find on {'the fileset returned by move' if via else sid} raised {type(e).__name__}: {e}", case)
                    return
                got = sorted((os.path.relpath(i.path, root), us(i.times[0]), us(i.times[1]), i.attr.get("sat")) for i in found)
                want = sorted((own_name(sid, k), us(k[0]), us(k[1]), k[2]) for k in oracle[sid] if overlaps(k, qs, qe))
                owner = via or sid
                if kinds[owner][2] and any(i.attr.get("info") != "seen" for i in found):
                    ck.violation("info-function", f"the {kinds[owner][2]} info function of fileset {owner} was not applied to the files found", case)
                if got != want:
                    ck.violation("move-return-stale-subdir" if via else "find",
                                 f"find({sid}{' via the fileset returned by move' if via else ''}, {qs}, {qe}) = {got[:3]} expected {want[:3]}", case)
                ops.append(["find", sid, us(qs), us(qe), via])
                lines.append(f"find {sid} {us(qs)} {us(qe)}")
                checks.append((len(lines) - 1, " ".join(f"{hx(p)}:{a}_{b}_{s}" for p, a, b, s in sorted(got)) or "-", "find"))
                # reading back THROUGH the index syntax: fs[a:b], fs[a:], fs[:b] collect every file whose period intersects,
                # fs[t] reads the file covering t
                hit = [k for k in oracle[sid] if overlaps(k, qs, qe)]
                if rng.random() < 0.6 and all(decode_expect(sid, oracle[sid][k], None, via) is not None for k in oracle[sid]):
                    form = rng.choice(["both", "both", "open-end", "open-start", "point"])
                    want_k = hit if form == "both" else [k for k in oracle[sid] if k[1] >= qs] if form == "open-end" else \
                        [k for k in oracle[sid] if k[0] <= qe] if form == "open-start" else []
                    try:
                        if form == "both":
                            got_s = fs[qs:qe]
                            want_k = hit
                        elif form == "open-end":
                            got_s = fs[qs:]
                            want_k = [k for k in oracle[sid] if k[1] >= qs]
                        elif form == "open-start":
                            got_s = fs[:qe]
                            want_k = [k for k in oracle[sid] if k[0] <= qe]
                        else:
                            cands = [k for k in oracle[sid] if sum(1 for j in oracle[sid] if j[0] <= k[0] <= j[1]) == 1]
                            if not cands:
                                raise LookupError
                            k0 = rng.choice(cands)
                            got_s = [fs[k0[0]]]
                            want_k = [k0]
                        got_t = sorted(token(x) for x in (got_s or []))
                        want_t = sorted(decode_expect(sid, oracle[sid][k], None, via) for k in want_k)
                        ck.count("slice/" + form)
                        if got_t != want_t:
                            ck.violation(sig("slice-read", sid, via), f"{sid}[{form}: {qs} .. {qe}] returned {len(got_t)} data sets {got_t[:2]}, "
                                                                      f"expected the {len(want_t)} stored in that period {want_t[:2]}", case)
                    except LookupError:
                        pass
                    except Exception as e:      # noqa
                        if type(e).__name__ == "NoFilesError" and not want_k:
                            ck.count("slice/empty-period-NoFilesError")          # nothing stored there: the documented answer
                        else:
                            ck.violation("slice-read", f"{sid}[{form}: {qs} .. {qe}] raised {type(e).__name__}: {str(e)[:120]} "
                                                       f"({len(want_k)} stored data sets intersect)", case)
                            return
                for i in found:
                    rel = os.path.relpath(i.path, root)
                    key = next((k for k in oracle[sid] if own_name(sid, k) == rel), None)
                    tg = rng.choice([None, None, "tx"])
                    try:
                        tok = token(fs.read(i) if tg is None else fs.read(i, tag=tg))          # per-call read_args
                    except Exception:      # noqa
                        tok = None
                    if key is not None:
                        want_tok = decode_expect(sid, oracle[sid][key], tg, via)
                        if tok != want_tok:
                            ck.violation(sig("read", sid, via), f"read({rel}, tag={tg}{', via returned fileset' if via else ''}) = {tok} expected {want_tok}", case)
                    if via is None or (SETS[via]["p"] == SETS[sid]["p"] and zr(sid, via) == zr(sid)):
                        lines.append(f"read {sid} {hx(rel)} {rtag(via or sid, tg) if (tg or via) else '-'}")
                        checks.append((len(lines) - 1, tok if tok is not None else "raise", f"read {rel}"))
                tag = f"find {sid}"
            elif r < 0.8:
                src = rng.choice([s for s in ids if oracle[s]] or ids[:1])
                if rng.random() < 0.07 and oracle[src]:
                    # a target with a placeholder the source files cannot fill: must raise, nothing may change
                    g = FileSet(os.path.join(root, UNFILLED_TMPL), handler=FileHandler(reader=text_reader, writer=text_writer), name="G")
                    try:
                        sets[src].move(g, copy=rng.random() < 0.5, worker_type="thread")
                        ck.violation("unfilled-accepted", f"move {src} -> template with an unfillable placeholder did not raise", case)
                        return
                    except Exception as e:      # noqa
                        if type(e).__name__ != "UnfilledPlaceholderError":
                            ck.count("move-unfilled/" + type(e).__name__)
                    ops.append(["move-unfilled", src])
                    if not snapshot(f"move {src} -> unfillable template"):
                        return
                    continue
                dst = rng.choice([s for s in ids if s != src])
                copy = rng.random() < 0.4
                mode, kw, sel, period = select(src, True)
                reps = {k: rekey(dst, k) for k in sel}
                if any(v is None for v in reps.values()) or len(set(reps.values())) != len(reps):
                    ck.count("history/skipped-move-not-representable-or-colliding")
                    continue
                conv = rng.choice([0, 0, 1, 2])
                if zw(dst) != zw(src) and rng.random() < 0.7:
                    conv = rng.choice([1, 2])           # changing the compression suffix needs a conversion to stay readable
                if conv and any(decode_expect(src, oracle[src][k]) is None for k in sel):
                    conv = 0
                ok = True
                for k in sel:
                    ok = ok and check_generated(dst, k, reps[k])
                    ensure_name(dst, reps[k])
                    if key_token(k) != key_token(reps[k]) and (dst, k) not in aliased:
                        aliased.add((dst, k))
                        lines.append(f"alias {dst} {key_token(k)} {hx(own_name(dst, reps[k]))}")
                if not ok:
                    return
                string_target = rng.random() < 0.25
                if string_target and conv and zw(dst, src) != zw(dst, dst):
                    string_target = False          # the copy of the source would compress differently from the model's destination
                target = os.path.join(root, SETS[dst]["tmpl"]) if string_target else sets[dst]
                wt = wtag(src) if string_target else wtag(dst)          # a string target becomes a copy of the SOURCE fileset
                if pool == "thread":
                    kw["worker_type"] = "thread"
                try:
                    ret = sets[src].move(target, copy=copy, convert={0: False, 1: True, 2: conv_fn}[conv], **kw)
                except Exception as e:      # noqa
                    ck.violation("move-raised", f"move {src}->{dst} copy={copy} conv={conv} sel={mode} raised {type(e).__name__}: {e}", case)
                    return
                for k in sel:
                    c = oracle[src][k]
                    if conv:
                        t = decode_expect(src, c)
                        c = ("z:" if zw(dst, src if string_target else dst) else "") + f"r:W{wt}." + (("G." + t) if conv == 2 else t)
                    if not copy:
                        del oracle[src][k]
                    oracle[dst][reps[k]] = c
                # the fileset move() returns must be usable as the target: find over everything, len, read
                if not string_target and ret is not sets[dst]:
                    ck.violation("move-return", "move(<FileSet>) did not return that FileSet", case)
                if string_target:
                    returned[dst] = (ret, src)
                if string_target and info_blocked(src, dst):
                    ck.count("returned-fileset/not-searchable-by-design(info function + plain bytes under .gz)")
                elif string_target:
                    want_all = sorted(own_name(dst, k) for k in oracle[dst])
                    try:
                        got_all = sorted(os.path.relpath(i.path, root) for i in ret.find(no_files_error=False))
                        n_ret = len(ret)
                    except Exception as e:      # noqa
                        ck.violation("move-return-stale-subdir", f"the fileset returned by move {src}->'{SETS[dst]['tmpl']}' cannot be searched: "
                                                                 f"{type(e).__name__}: {e} (the {len(want_all)} moved files exist)", case)
                        return
                    if got_all != want_all or n_ret != len(want_all):
                        ck.violation("move-return-stale-subdir", f"the fileset returned by move {src}->'{SETS[dst]['tmpl']}' finds {len(got_all)} files "
                                                                 f"(len {n_ret}), the target holds {len(want_all)}: missing {sorted(set(want_all) - set(got_all))[:3]}", case)
                        return
                    for i in ret.find(no_files_error=False):
                        rel = os.path.relpath(i.path, root)
                        key = next(k for k in oracle[dst] if own_name(dst, k) == rel)
                        try:
                            tok = token(ret.read(i))
                        except Exception:      # noqa
                            tok = None
                        if tok != decode_expect(dst, oracle[dst][key], None, src):
                            ck.violation(sig("read", dst, src), f"read({rel}) through the fileset returned by move = {tok}, expected "
                                                 f"{decode_expect(dst, oracle[dst][key], None, src)}", case)
                ops.append(["move", src, dst, int(copy), conv, mode, len(sel), string_target])
                ck.count("select/move/" + mode)
                if period is not None:
                    lines.append(f"move {src} {dst} {int(copy)} {conv} {wt if string_target else '-'} {us(period[0])} {us(period[1])}")
                else:
                    lines.append(f"movefiles {src} {dst} {int(copy)} {conv} {wt if string_target else '-'} " +
                                 " ".join(hx(own_name(src, k)) for k in sorted(sel)))
                checks.append((len(lines) - 1, "ok", "move"))
                tag = f"move {src}->{dst} copy={copy} conv={conv} sel={mode} n={len(sel)} string={string_target}"
            else:
                sid = rng.choice([s for s in ids if oracle[s]] or ids[:1])
                dry = rng.random() < 0.4
                mode, kw, sel, period = select(sid, False)
                if pool == "thread":
                    kw["worker_type"] = "thread"
                try:
                    with contextlib.redirect_stdout(io.StringIO()):
                        sets[sid].delete(dry_run=dry, **kw)
                except Exception as e:      # noqa
                    ck.violation("delete-raised", f"delete {sid} dry={dry} sel={mode} raised {type(e).__name__}: {e}", case)
                    return
                if not dry:
                    for k in sel:
                        del oracle[sid][k]
                ops.append(["delete", sid, int(dry), mode, len(sel)])
                ck.count("select/delete/" + mode)
                if period is not None:
                    lines.append(f"delete {sid} {int(dry)} {us(period[0])} {us(period[1])}")
                else:
                    lines.append(f"deletefiles {sid} {int(dry)} " + " ".join(hx(own_name(sid, k)) for k in sorted(sel)))
                checks.append((len(lines) - 1, "ok", "delete"))
                tag = f"delete {sid} dry={dry} sel={mode} n={len(sel)}"
            if not snapshot(tag):
                return
        nmoves = sum(1 for o in ops if o[0] == "move" and o[6] > 0)
        ck.case(key=("h", json.dumps(ops)) if nmoves and len(ops) >= 3 else None, kind=f"history/{pool}",
                sample={"sets": ids, "ops": [o[0] for o in ops][:12], "files_at_end": sum(len(v) for v in oracle.values())})
        if use_model:
            out = ck.driver(lines)
            for idx, exp, what in checks:
                if out[idx] != exp:
                    ck.disagree(f"{what}: model '{out[idx][:160]}' vs code '{exp[:160]}'", case)
                    break
    finally:
        shutil.rmtree(root, ignore_errors=True)


# ---------------------------------------------------------------- CSV tables (oracle only)
def ds_equal(a, b):
    """value equality of two xarray datasets (NaN = NaN, strings by value); returns None or a description"""
    import numpy as np
    if sorted(a.data_vars) != sorted(b.data_vars):
        return f"variables {sorted(a.data_vars)} vs {sorted(b.data_vars)}"
    for v in a.data_vars:
        x, y = a[v].values, b[v].values
        if x.shape != y.shape:
            return f"{v}: shape {x.shape} vs {y.shape}"
        if x.dtype.kind in "fc" or y.dtype.kind in "fc":
            if not np.allclose(x.astype(float), y.astype(float), rtol=1e-12, atol=0, equal_nan=True):
                return f"{v}: values differ"
        elif x.dtype.kind == "M" or y.dtype.kind == "M":
            if not (x.astype("M8[ns]") == y.astype("M8[ns]")).all():
                return f"{v}: times differ"
        elif not (x.astype(str) == y.astype(str)).all():
            return f"{v}: values differ {x[:3]} vs {y[:3]}"
    return None


def csv_case(ck, scratch):
    import numpy as np
    import xarray as xr
    from typhon.files import FileSet
    rng = ck.rng
    root = tempfile.mkdtemp(dir=scratch)
    case = {"op": "csv", "seed_note": "re-run the check with the recorded seed"}
    try:
        # default handlers by suffix: csv / txt / asc -> CSV (compression suffix stripped first)
        ext1, ext2 = rng.choice(["csv", "asc", "txt"]), rng.choice(["txt.gz", "asc.gz", "csv.bz2"])
        t1 = FileSet(os.path.join(root, "T1/{year}-{month}-{day}_{hour}{minute}." + ext1), read_args={"index_col": 0}, name="T1")
        t2 = FileSet(os.path.join(root, "T2/{year}/{doy}_{hour}{minute}." + ext2), read_args={"index_col": 0}, name="T2")
        if type(t1.handler).__name__ != "CSV" or type(t2.handler).__name__ != "CSV":
            ck.violation("default-handler", f"suffix {ext1} / {ext2} did not select the CSV handler", case)
        stored = {}
        base = dt.datetime(2019, rng.randint(1, 12), rng.randint(1, 28), rng.randint(0, 20))
        for i in range(rng.randint(1, 4)):
            n = rng.randint(1, 6)
            ds = xr.Dataset({"a": ("index", np.array([rng.choice([1.5, -2.25, float("nan"), 1e-9, 12345.678]) for _ in range(n)])),
                             "b": ("index", np.array([rng.randint(-5, 10 ** 6) for _ in range(n)])),
                             "s": ("index", np.array([rng.choice(["x", "yy", "z z", "ü"]) for _ in range(n)]))})
            t = base + dt.timedelta(hours=i)
            t1[t] = ds
            stored[t] = ds
        for t, ds in stored.items():
            back = t1[t]
            d = ds_equal(ds, back)
            if d:
                ck.violation("csv-roundtrip", f"CSV table read back differently: {d}", case)
        copy = rng.random() < 0.5
        t1.move(t2, convert=True, copy=copy, worker_type="thread")
        n1 = sum(len(f) for _, _, f in os.walk(os.path.join(root, "T1")))
        n2 = sum(len(f) for _, _, f in os.walk(os.path.join(root, "T2")))
        if n2 != len(stored) or n1 != (len(stored) if copy else 0):
            ck.violation("conservation", f"CSV move convert copy={copy}: {n1} source files, {n2} target files for {len(stored)} tables", case)
        for t, ds in stored.items():
            p = t2.get_filename(t)
            with open(p, "rb") as f:
                if f.read(2) != (b"BZ" if ext2.endswith("bz2") else b"\x1f\x8b"):
                    ck.violation("not-compressed", f"converted .{ext2} file is not compressed", case)
            d = ds_equal(ds, t2[t])
            if d:
                ck.violation("csv-roundtrip", f"CSV table differs after move+convert+gzip: {d}", case)
        with contextlib.redirect_stdout(io.StringIO()):
            t2.delete(dry_run=True, worker_type="thread")
        if sum(len(f) for _, _, f in os.walk(os.path.join(root, "T2"))) != len(stored):
            ck.violation("dry-run-deleted", "dry run removed CSV files", case)
        t2.delete(worker_type="thread")
        if sum(len(f) for _, _, f in os.walk(os.path.join(root, "T2"))) != 0:
            ck.violation("delete", "delete left CSV files", case)
        ck.case(key=("csv", len(stored), copy, str(base), ext1, ext2), kind="csv", sample={"tables": len(stored), "copy": copy, "suffixes": [ext1, ext2]})
    except Exception as e:      # noqa
        ck.violation("csv-raised", f"CSV scenario raised {type(e).__name__}: {e}", case)
    finally:
        shutil.rmtree(root, ignore_errors=True)


# ---------------------------------------------------------------- NetCDF (oracle only, forked child)
def netcdf_child(root, seed):
    import random
    import numpy as np
    import xarray as xr
    from typhon.files import FileSet
    rng = random.Random(seed)
    problems = []
    info = {}
    e1, e2 = rng.choice(["nc", "h5"]), rng.choice(["nc.gz", "h5.gz"])         # default handlers: nc / h5 -> NetCDF4
    info["suffixes"] = [e1, e2]
    n1 = FileSet(os.path.join(root, "N1/{year}/{month}/{day}/{hour}{minute}{second}." + e1), name="N1")
    n2 = FileSet(os.path.join(root, "N2/{year}/{doy}/{hour}{minute}{second}." + e2), name="N2")
    if type(n1.handler).__name__ != "NetCDF4" or type(n2.handler).__name__ != "NetCDF4":
        problems.append(["default-handler", f"suffix {e1} / {e2} did not select the NetCDF4 handler"])
    stored = {}
    base = dt.datetime(2018, rng.randint(1, 12), rng.randint(1, 28), rng.randint(0, 20))
    for i in range(rng.randint(1, 3)):
        n = rng.randint(1, 5)
        ds = xr.Dataset({
            "f64": ("x", np.array([rng.choice([1.5, float("nan"), -1e300, 1e-300]) for _ in range(n)])),
            "f32": ("x", np.array([rng.choice([1.5, 0.1, float("nan")]) for _ in range(n)], dtype="f4")),
            "i32": ("x", np.array([rng.randint(-2 ** 31, 2 ** 31 - 1) for _ in range(n)], dtype="i4")),
            "i64": ("x", np.array([rng.choice([2 ** 40 + 1, -7, 0]) for _ in range(n)], dtype="i8")),
            "big": ("x", np.array([rng.choice([2 ** 60 + 1, -(2 ** 62) - 3]) for _ in range(n)], dtype="i8")),
            "u8": ("x", np.array([rng.choice([0, 7, 254, 255]) for _ in range(n)], dtype="u1")),
            "i16": ("x", np.array([rng.choice([-32767, -32768, 0, 32767]) for _ in range(n)], dtype="i2")),
            "scn": ("x", np.array([rng.choice([5.0, float("nan"), 7.3]) for _ in range(n)])),
            "t": ("x", np.array([np.datetime64("2018-01-01T00:00:00") + np.timedelta64(rng.randint(0, 10 ** 6), "s") for _ in range(n)], dtype="M8[ns]")),
            "sc": ("x", np.array([rng.choice([5.0, 5.1, 7.3]) for _ in range(n)])),
        }, coords={"x": np.arange(n)}, attrs={"title": "verif ü"})
        ds["sc"].encoding = {"scale_factor": 0.1, "add_offset": 5.0, "dtype": "int16", "_FillValue": -999}
        ds["scn"].encoding = {"scale_factor": 0.1, "add_offset": 5.0, "dtype": "int16", "_FillValue": -999}
        t = base + dt.timedelta(hours=i)
        n1[t] = ds
        stored[t] = ds

    def cmp(ds, back, where):
        for v in list(ds.data_vars) + ["x"]:
            x, y = ds[v].values, back[v].values
            if x.shape != y.shape:
                problems.append(["netcdf-roundtrip", f"{where}: variable {v} shape {x.shape} read back as {y.shape}"])
                continue
            if v in ("sc", "scn"):
                # packed as int16 with scale 0.1 / offset 5: half a step of quantisation, NaN <-> _FillValue
                ok = y.dtype.kind == "f" and bool((np.isnan(x) == np.isnan(y)).all()) and \
                    np.allclose(x[~np.isnan(x)], y[~np.isnan(x)], atol=0.0500001, rtol=0)
            elif x.dtype.kind == "f":
                ok = y.dtype == x.dtype and np.array_equal(x, y, equal_nan=True)
            elif x.dtype.kind == "M":
                ok = y.dtype.kind == "M" and bool((x == y.astype("M8[ns]")).all())
            else:
                # integers (data variables and the coordinate) must come back as the same integer type, value by value
                if y.dtype != x.dtype or not bool((x == y).all()):
                    problems.append(["netcdf-int-value-changed", f"{where}: integer variable {v} ({x.dtype}) read back as {y.dtype}: "
                                                                 f"{x[:3].tolist()} vs {y[:3].tolist()}"])
                continue
            if not ok:
                problems.append(["netcdf-roundtrip", f"{where}: variable {v} ({x.dtype}) read back as {y.dtype}: {x[:3]} vs {y[:3]}"])
        if back.attrs.get("title") != "verif ü":
            problems.append(["netcdf-roundtrip", f"{where}: global attribute lost"])
    for t, ds in stored.items():
        cmp(ds, n1[t], "write/read")
    copy = rng.random() < 0.5
    n1.move(n2, convert=True, copy=copy)          # default worker type: process pool
    c1 = sum(len(f) for _, _, f in os.walk(os.path.join(root, "N1")))
    c2 = sum(len(f) for _, _, f in os.walk(os.path.join(root, "N2")))
    if c2 != len(stored) or c1 != (len(stored) if copy else 0):
        problems.append(["conservation", f"NetCDF move convert copy={copy}: {c1} source, {c2} target files for {len(stored)} datasets"])
    for t, ds in stored.items():
        with open(n2.get_filename(t), "rb") as f:
            if f.read(2) != b"\x1f\x8b":
                problems.append(["not-compressed", "converted .nc.gz is not gzip"])
        cmp(ds, n2[t], "move+convert+gzip")
    n2.delete()
    if sum(len(f) for _, _, f in os.walk(os.path.join(root, "N2"))) != 0:
        problems.append(["delete", "delete left NetCDF files"])
    info.update({"datasets": len(stored), "copy": copy})
    return problems, info


def netcdf_case(ck, scratch, seed=None):
    root = tempfile.mkdtemp(dir=scratch)
    seed = ck.rng.randint(0, 10 ** 9) if seed is None else seed
    case = {"op": "netcdf", "seed": seed}
    r, w = os.pipe()
    pid = os.fork()
    if pid == 0:
        os.close(r)
        try:
            try:
                res = netcdf_child(root, seed)
                msg = json.dumps({"ok": True, "problems": res[0], "info": res[1]})
            except Exception as e:      # noqa
                msg = json.dumps({"ok": False, "error": f"{type(e).__name__}: {e}"})
            os.write(w, msg.encode())
        finally:
            os._exit(0)
    os.close(w)
    data = b""
    while True:
        chunk = os.read(r, 65536)
        if not chunk:
            break
        data += chunk
    os.close(r)
    os.waitpid(pid, 0)
    shutil.rmtree(root, ignore_errors=True)
    if not data:
        raise vlib.InfraError("NetCDF child died without a result")
    res = json.loads(data)
    if not res["ok"]:
        ck.violation("netcdf-raised", f"NetCDF scenario raised {res['error']}", case)
        return
    for sig, what in res["problems"]:
        ck.violation(sig, what, case)
    ck.case(key=("nc", seed), kind="netcdf", sample=res["info"])


# ---------------------------------------------------------------- main
ANCHORS = [("typhon/files/fileset.py", "FileSet.__setitem__"), ("typhon/files/fileset.py", "FileSet.__getitem__"),
           ("typhon/files/fileset.py", "FileSet.read"), ("typhon/files/fileset.py", "FileSet.write"),
           ("typhon/files/fileset.py", "FileSet.move"), ("typhon/files/fileset.py", "FileSet._move_single_file"),
           ("typhon/files/fileset.py", "FileSet.delete"), ("typhon/files/fileset.py", "FileSet._delete_single_file"),
           ("typhon/files/fileset.py", "FileSet._dry_delete"), ("typhon/files/fileset.py", "FileSet.make_dirs"),
           ("typhon/files/fileset.py", "FileSet._configure_pool_and_worker_args"), ("typhon/files/fileset.py", "FileSet._call_map_function"),
           ("typhon/files/fileset.py", "FileSet.map"), ("typhon/files/fileset.py", "FileSet.get_filename"),
           ("typhon/files/fileset.py", "FileSet._retrieve_time_coverage"), ("typhon/files/fileset.py", "FileSet.copy"),
           ("typhon/files/fileset.py", "FileSet._standardise_datetime_args"),
           ("typhon/files/handlers/common.py", "FileHandler.read"), ("typhon/files/handlers/common.py", "FileHandler.write"),
           ("typhon/files/handlers/common.py", "FileHandler.get_info"),
           ("typhon/files/fileset.py", "FileSet.find"),
           ("typhon/files/handlers/common.py", "NetCDF4.read"), ("typhon/files/handlers/common.py", "NetCDF4.write"),
           ("typhon/files/handlers/common.py", "CSV.read"), ("typhon/files/handlers/common.py", "CSV.write")]


def make_check():
    return vlib.Check(
        PROP, pkg="fsops", props="Proofs.Props.C11", driver="drv_c11", model_files=["Model/FS.lean", "Model/FsOps.lean"],
        trusted=["hand-written model Model/FsOps.lean tied to FileSet.__setitem__/write/find/read/move/_move_single_file/delete by the "
                 "correspondence run of this check (driver drv_c11: same operation histories; compared after every operation: "
                 "directory listing with content classes, find results, read results)",
                 "naming (get_filename / file-name parsing) is a parameter of the model, filled with the names the real code "
                 "generated; the harness checks them against its own formatting of the three templates (the general statement is C02)",
                 "handlers and codecs are parameters (contracts read(write d) = d, dec(enc c) = c); NetCDF4 / CSV fidelity is "
                 "checked by the oracle only",
                 "OS file operations, fsspec LocalFileSystem copy/move, concurrent.futures pools: modelled sequentially, not verified"],
        assumptions=["target names of a move are pairwise different and differ from the selected sources (moves whose targets would "
                     "collide, or whose target template cannot carry the period, are not generated)",
                     "period bounds do not coincide with file boundaries; temporal placeholders of long files are in the file name, not in "
                     "directory names (boundary semantics and directory pruning of find are C01)",
                     "files of a fileset whose template has no end date do not cross midnight",
                     "placeholder values used in black-list filters are prefix-free (re.match semantics of the black list)"])


def main():
    ck = make_check()
    ck.rule = ("random histories (3..25 operations) of write / overwrite / find+read / move / copy / convert (True or a function) / "
               "delete / dry-run over 3-4 of six filesets with different templates (directory layout, doy vs month/day, {doy}/{end_doy} "
               "with periods crossing New Year of leap and non-leap years, start-only, day-only (coarser), added .gz suffix with "
               "post_reader) using a JSON FileHandler whose output shows the write/read arguments (fileset-level and per-call); "
               "selections by period, by files= (empty, subset, reversed) and by filters= (value, list, black list); FileSet or string "
               "target; a target with an unfillable placeholder; thread pools and (fewer) process pools; CSV tables (csv/txt/asc, "
               "gz/bz2) and NetCDF datasets (nc/h5) with move+convert. "
               "non-trivial = history with >= 3 operations containing a move/copy of at least one file")
    ck.anchors(ANCHORS)
    ck.build()
    use_model = os.path.exists(os.path.join(ck.pkgdir, ".lake/build/bin/drv_c11"))
    scratch = tempfile.mkdtemp(prefix="verif_c11_")
    try:
        for name, c in vlib.load_corpus(PROP):
            run_case(ck, scratch, c, use_model)
        explore(ck, scratch, ck.budget(60, 1500), ck.budget(6, 60), ck.budget(8, 60), ck.budget(4, 30), use_model)
        if ck.broken() and not ck.violations:
            explore(ck, scratch, 1500, 40, 40, 10, False)
    finally:
        shutil.rmtree(scratch, ignore_errors=True)
    ck.finish()


def run_case(ck, scratch, c, use_model):
    """corpus / replay entries: {"op": "netcdf", "seed": n} or {"op": "history", "rng_seed": n, "nops": k, "pool": "thread"}"""
    import random
    if c.get("op") == "netcdf" and "seed" in c:
        netcdf_case(ck, scratch, seed=c["seed"])
    elif c.get("op") == "history" and "rng_seed" in c:
        saved = ck.rng
        ck.rng = random.Random(c["rng_seed"])
        try:
            history_case(ck, scratch, c.get("nops", 12), use_model, c.get("pool", "thread"))
        finally:
            ck.rng = saved


def explore(ck, scratch, n_thread, n_process, n_csv, n_nc, use_model):
    for _ in range(n_thread):
        history_case(ck, scratch, ck.rng.randint(3, 25), use_model, "thread")
    for _ in range(n_process):
        history_case(ck, scratch, ck.rng.randint(3, 10), use_model, "process")
    for _ in range(n_csv):
        csv_case(ck, scratch)
    for _ in range(n_nc):
        netcdf_case(ck, scratch)


def replay(path):
    obj = json.load(open(path))
    print("C11 cases are operation histories; replay = re-run the check with the recorded seed and tier:")
    print(f"  bin/check C11 --tier {obj.get('tier')} --seed {obj.get('seed')}")
    print(json.dumps(obj.get("case"), indent=1)[:3000])
    os.environ["VERIF_SEED"] = str(obj.get("seed", 0))
    os.environ["VERIF_TIER"] = obj.get("tier", "quick")
    ck = make_check()
    scratch = tempfile.mkdtemp(prefix="verif_c11_")
    try:
        c = obj.get("case") or {}
        if c.get("op") == "netcdf" and "seed" in c:
            run_case(ck, scratch, c, False)
        else:
            for name, cc in vlib.load_corpus(PROP):
                run_case(ck, scratch, cc, False)
            explore(ck, scratch, ck.budget(60, 1500), ck.budget(6, 60), ck.budget(8, 60), ck.budget(4, 30), False)
    finally:
        shutil.rmtree(scratch, ignore_errors=True)
    for v in ck.violations[:5]:
        print("REPRODUCED:", v["what"])
    raise SystemExit(1 if ck.violations else 0)
