"""C06 — GeoIndex.query returns exactly the points within the radius.

Decided by: theorems in lean/colloc/Proofs/Props/C06.lean about the hand-written model
lean/colloc/Model/GeoIndex.lean + correspondence of that model's executable definitions
(driver drv_c06) with typhon.geographical.GeoIndex / to_kilometers on the same inputs
(recorded raw tree answers and the permutation are fed to the model) + an independent
dense-distance-matrix oracle in numpy.longdouble on the real code.
"""
import itertools
import json
import math
import struct
from fractions import Fraction

import numpy as np

import vlib

PROP = "C06"
LD = np.longdouble

# physical conversion factors to kilometres, independent of typhon's table
TRUE_FACTORS = {
    "cm": Fraction(1, 100000), "centimeter": Fraction(1, 100000), "centimeters": Fraction(1, 100000),
    "m": Fraction(1, 1000), "meter": Fraction(1, 1000), "meters": Fraction(1, 1000),
    "km": Fraction(1), "kilometer": Fraction(1), "kilometers": Fraction(1),
    "mi": Fraction(1609344, 1000000), "mile": Fraction(1609344, 1000000), "miles": Fraction(1609344, 1000000),
    "yd": Fraction(9144, 10000000), "yds": Fraction(9144, 10000000), "yard": Fraction(9144, 10000000),
    "yards": Fraction(9144, 10000000),
    "ft": Fraction(3048, 10000000), "foot": Fraction(3048, 10000000), "feet": Fraction(3048, 10000000),
}


def bits(x):
    return struct.unpack("<Q", struct.pack("<d", float(x)))[0]


def earth_radius():
    import typhon.constants
    return float(typhon.constants.earth_radius)


# ---------------------------------------------------------------- oracle
def unit_vectors(lat, lon):
    la = np.deg2rad(np.asarray(lat, dtype=LD))
    lo = np.deg2rad(np.asarray(lon, dtype=LD))
    return np.stack([np.cos(la) * np.cos(lo), np.cos(la) * np.sin(lo), np.sin(la)], axis=-1)


def oracle_matrix(blat, blon, qlat, qlon, metric, R):
    """(n_build, n_query) distances in km (longdouble) and the central angles"""
    u = unit_vectors(blat, blon)[:, None, :]
    v = unit_vectors(qlat, qlon)[None, :, :]
    dm = np.sqrt(((u - v) ** 2).sum(-1))
    dp = np.sqrt(((u + v) ** 2).sum(-1))
    angle = 2 * np.arctan2(dm, dp)
    if metric == "haversine":
        return angle * LD(R) / LD(1000), angle
    return dm * LD(R) / LD(1000), angle


def true_km(r):
    """independent reading of a radius argument -> Fraction km, or None when the harness
    does not claim to know (malformed strings)"""
    if isinstance(r, (int, float)):
        return Fraction(r)
    s = r.strip(" ")
    i = 0
    while i < len(s) and (s[i].isdigit() or s[i] in "+-.eE"):
        i += 1
    # back off when the scan swallowed the first letter of a unit ("5e" of "5 e..."): our
    # generator only produces NUMBER [blank] UNIT with UNIT starting with a non-e letter
    num, unit = s[:i], s[i:].strip(" ")
    if unit == "":
        return Fraction(num)
    if unit in TRUE_FACTORS:
        return Fraction(num) * TRUE_FACTORS[unit]
    return None


# ---------------------------------------------------------------- real code
class TreeProxy:
    """stands in for GeoIndex.tree; records the raw query_radius answers"""

    def __init__(self, tree):
        self._tree = tree
        self.calls = []

    def query_radius(self, X, r, **kw):
        res = self._tree.query_radius(X, r, **kw)
        self.calls.append({"r": float(r), "kw": dict(kw), "res": res, "nq": len(X)})
        return res

    def __getattr__(self, name):
        return getattr(self._tree, name)


def exc_name(e):
    return {"ValueError": "value-error", "IndexError": "index-error"}.get(type(e).__name__, "exc:" + type(e).__name__)


NP_DTYPES = {"float64": np.float64, "float32": np.float32, "int": np.int64}


def build_real(case):
    """construct the real GeoIndex (seeded / forced shuffle); returns dict(ix, proxy, shuffler, tree_data) or init_error"""
    import numpy.random
    from typhon.geographical import GeoIndex
    dt = NP_DTYPES[case.get("dtype", "float64")]
    blat = np.array(case["blat"]).astype(dt)
    blon = np.array(case["blon"]).astype(dt)
    kw = {}
    if case.get("leaf_size") is not None:
        kw["leaf_size"] = case["leaf_size"]
    out = {}
    np.random.seed(case["seed"])
    orig = numpy.random.shuffle
    forced = case.get("perm")
    if forced is not None:
        def fake(a):
            a[:] = np.asarray(forced, dtype=a.dtype)
        numpy.random.shuffle = fake
    try:
        try:
            ix = GeoIndex(blat, blon, metric=case["metric"], tree_class=case["tree_class"],
                          shuffle=case["shuffle"], **kw)
        except Exception as e:
            out["init_error"] = exc_name(e)
            return out
    finally:
        numpy.random.shuffle = orig
    out["shuffler"] = None if ix.shuffler is None else [int(x) for x in ix.shuffler]
    out["tree_data"] = np.asarray(ix.tree.data).copy()
    out["proxy"] = TreeProxy(ix.tree)
    ix.tree = out["proxy"]
    out["ix"] = ix
    return out


def query_real(built, case, q):
    """one query on the already built index; q = dict(r, return_distance, r_np)"""
    dt = NP_DTYPES[case.get("dtype", "float64")]
    qlat = np.array(case["qlat"]).astype(dt)
    qlon = np.array(case["qlon"]).astype(dt)
    r = q["r"]
    if q.get("r_np"):
        r = getattr(np, q["r_np"])(r)
    out = {"shuffler": built["shuffler"], "tree_data": built["tree_data"]}
    n0 = len(built["proxy"].calls)
    try:
        if q.get("return_distance", True):
            pairs, dist = built["ix"].query(qlat, qlon, r)
        else:
            pairs, dist = built["ix"].query(qlat, qlon, r, return_distance=False), None
    except Exception as e:
        out["error"] = exc_name(e)
        out["calls"] = built["proxy"].calls[n0:]
        return out
    out["pairs"], out["dist"], out["calls"] = pairs, dist, built["proxy"].calls[n0:]
    return out


def expected_shuffler(case, n):
    """what np.random.shuffle(arange(n)) gives under the case's seed"""
    if not case["shuffle"]:
        return None
    if case.get("perm") is not None:
        return list(case["perm"])
    np.random.seed(case["seed"])
    a = np.arange(n)
    np.random.shuffle(a)
    return [int(x) for x in a]


# ---------------------------------------------------------------- one case
def classify(case, what=""):
    if isinstance(case.get("r"), str):
        unit = case["r"].strip().lstrip("+-0123456789.eE_ ").strip()
        if unit in ("cm", "centimeter", "centimeters"):
            return "geoindex-units-centimeter"
    return "other"


def model_lines(case, q, real):
    """protocol lines for one query (needs the recorded tree call)"""
    m = {"minkowski": "mink", None: "mink", "haversine": "hav"}.get(case["metric"], "unk")
    call = real["calls"][0]
    n = len(case["blat"])
    sh = real["shuffler"]
    s = "-" if sh is None else ",".join(map(str, sh))
    wd = q.get("return_distance", True)
    if wd:
        J, D = call["res"]
    else:
        J, D = call["res"], None
    rows = ["-" if len(j) == 0 else ",".join(str(int(x)) for x in j) for j in J]
    if wd and isinstance(q["r"], str):
        head = f"queryarg {m} {n} {s} {len(rows)} " + (q["r"].encode().hex() or "-") + " "
    else:
        head = f"{'query' if wd else 'querynd'} {m} {n} {s} {len(rows)} "
    line = head + " ".join(rows)
    if wd:
        line += " " + " ".join("-" if len(d) == 0 else ",".join(str(bits(x)) for x in d) for d in D)
    return [line]


def oracle_chunks(case, metric, R, nq_chunk):
    """yields (q0, dmat, ang) for blocks of query points (longdouble, km)"""
    m = len(case["qlat"])
    for q0 in range(0, m, nq_chunk):
        dm, ang = oracle_matrix(case["blat"], case["blon"], case["qlat"][q0:q0 + nq_chunk], case["qlon"][q0:q0 + nq_chunk], metric, R)
        yield q0, dm, ang


def pair_distances(case, pairs, metric, R):
    """longdouble distances (km) and central angles of the given (build, query) pairs"""
    if not pairs:
        return np.zeros(0, dtype=LD), np.zeros(0, dtype=LD)
    bi = np.array([p[0] for p in pairs])
    qi = np.array([p[1] for p in pairs])
    u = unit_vectors(np.array(case["blat"], dtype=float)[bi], np.array(case["blon"], dtype=float)[bi])
    v = unit_vectors(np.array(case["qlat"], dtype=float)[qi], np.array(case["qlon"], dtype=float)[qi])
    dm = np.sqrt(((u - v) ** 2).sum(-1))
    dp = np.sqrt(((u + v) ** 2).sum(-1))
    ang = 2 * np.arctan2(dm, dp)
    return (ang if metric == "haversine" else dm) * LD(R) / LD(1000), ang


def judge(ck, case, q, real, use_model, qk):
    """oracle on one query result (+ model lines).  Returns (lines, compare) or None."""
    from typhon.geographical import to_kilometers
    R = earth_radius()
    n, m = len(case["blat"]), len(case["qlat"])
    metric = case["metric"] or "minkowski"
    slim = {k: case[k] for k in case}
    f32 = case.get("dtype") == "float32"
    tkm = true_km(q["r"])
    wd = q.get("return_distance", True)
    kind = f"{metric}/{case['tree_class'] or 'Ball'}{'/big' if n * m > 2000000 else ''}"
    for flag, on in (("shuffle", case["shuffle"]), ("forced-permutation", case.get("perm") is not None),
                     ("radius-string", isinstance(q["r"], str)), ("radius-numpy-scalar", bool(q.get("r_np"))),
                     ("return_distance=False", not wd), ("dtype-" + case.get("dtype", "float64"), True),
                     ("re-query-same-index", qk > 0)):
        if on:
            ck.count("flag/" + flag)
    if "error" in real:
        err = real["error"]
        if tkm is not None and tkm != 0:
            ck.violation(classify(dict(case, r=q["r"])), f"GeoIndex.query raised {err} for a valid input (r={q['r']!r})", slim)
        ck.case(kind=kind + "/error")
        if use_model and isinstance(q["r"], str):
            def cmp_err(out, err=err):
                if out[0] != err:
                    ck.disagree(f"to_kilometers({q['r']!r}): model {out[0]} vs code {err}", slim)
            return (["km " + (q["r"].encode().hex() or "-")], cmp_err)
        return None
    pairs, dist = real["pairs"], real["dist"]
    if pairs.size == 0:
        got, gd = [], []
    else:
        if pairs.ndim != 2 or pairs.shape[0] != 2:
            ck.violation("other", f"pairs has shape {pairs.shape}", slim)
            return None
        got = list(zip(pairs[0].astype(int).tolist(), pairs[1].astype(int).tolist()))
        if dist is not None and (not isinstance(dist, np.ndarray) or dist.ndim != 1 or dist.dtype.kind != "f"):
            ck.violation(classify(case), f"distances is not a 1-d float array: {dist!r}"[:200], slim)
            return None
        gd = None if dist is None else [float(x) for x in dist]
    if tkm is not None:
        rk = LD(tkm.numerator) / LD(tkm.denominator)
        margin = rk * LD(1e-7) + LD(2e-11) if not f32 else rk * LD(1e-5) + LD(0.005)
        must = set()
        nfar = 0
        if rk == 0:     # exact duplicates: distance is exactly 0 in any arithmetic
            must = {(i, k) for i in range(n) for k in range(m)
                    if case["blat"][i] == case["qlat"][k] and case["blon"][i] == case["qlon"][k]}
            nfar = 1
        else:
            if n * m <= 200000:
                for q0, dm, _ in oracle_chunks(case, metric, R, max(1, 1000000 // max(n, 1))):
                    ii, kk = np.nonzero(dm < rk - margin)
                    must.update(zip(ii.tolist(), (kk + q0).tolist()))
                    nfar += int((dm > rk + margin).sum())
            else:
                # large case: double precision sweep, extended precision only in a band around the threshold
                ub = unit_vectors(case["blat"], case["blon"]).astype(float)
                uq = unit_vectors(case["qlat"], case["qlon"]).astype(float)
                thr, band = float(rk - margin), 1e-6 * float(rk) + 1e-9
                step = max(1, 4000000 // max(n, 1))
                for q0 in range(0, m, step):
                    v = uq[q0:q0 + step]
                    dmm = np.sqrt(((ub[:, None, :] - v[None, :, :]) ** 2).sum(-1))
                    if metric == "haversine":
                        dpp = np.sqrt(((ub[:, None, :] + v[None, :, :]) ** 2).sum(-1))
                        d64 = 2 * np.arctan2(dmm, dpp) * R / 1000.0
                    else:
                        d64 = dmm * R / 1000.0
                    ii, kk = np.nonzero(d64 < thr - band)
                    must.update(zip(ii.tolist(), (kk + q0).tolist()))
                    ii, kk = np.nonzero(np.abs(d64 - thr) <= band)
                    unsure = list(zip(ii.tolist(), (kk + q0).tolist()))
                    if unsure:
                        dl, _ = pair_distances(case, unsure, metric, R)
                        must.update(pr for pr, d in zip(unsure, dl) if d < rk - margin)
                    nfar += int((d64 > float(rk + margin) + band).sum())
        gs = set(got)
        nontriv = len(must) > 0 and nfar > 0
        ck.case(key=json.dumps([case["blat"][:6], case["qlat"][:3], str(q["r"]), case.get("perm"), case["seed"], qk]) if nontriv else None,
                kind=kind, sample={"n": n, "m": m, "r": q["r"], "metric": metric, "hits": len(got),
                                   "shuffler": (real["shuffler"] or [])[:6]})
        if len(gs) != len(got):
            seen, dup = set(), []
            for pr in got:
                if pr in seen:
                    dup.append(pr)
                seen.add(pr)
            ck.violation(classify(case), f"pairs reported more than once: {dup[:3]}", slim)
        bad = [pr for pr in gs if not (0 <= pr[0] < n and 0 <= pr[1] < m)]
        if bad:
            ck.violation(classify(case), f"indices out of range: {sorted(bad)[:3]}", slim)
        missing = sorted(must - gs)
        if missing:
            dmiss, _ = pair_distances(case, missing[:1], metric, R)
            i, k = missing[0]
            ck.violation(classify(dict(case, r=q["r"])), f"pair (build {i}, query {k}) at {float(dmiss[0]):.9g} km <= r={q['r']!r} is missing "
                                                      f"({len(missing)} missing)", slim)
        if not bad:
            dgot, agot = pair_distances(case, got, metric, R)
            far = np.nonzero(dgot > rk + margin)[0]
            if len(far) and rk != 0:
                i, k = got[int(far[0])]
                ck.violation(classify(dict(case, r=q["r"])), f"pair (build {i}, query {k}) at {float(dgot[int(far[0])]):.9g} km > r={q['r']!r} was reported "
                                                          f"({len(far)} extra)", slim)
            if gd is not None:
                if len(gd) != len(got):
                    ck.violation(classify(case), f"{len(got)} pairs but {len(gd)} distances", slim)
                elif got:
                    want = dgot.astype(float)
                    tol = 1e-7 * want + 1e-10 + np.where((metric == "haversine") & (agot.astype(float) > 3.1), 1e-3, 0.0) \
                        + (0.005 if f32 else 0.0)
                    off = np.nonzero(~(np.abs(np.array(gd) - want) <= tol))[0]
                    if len(off):
                        j = int(off[0])
                        ck.violation(classify(case), f"distance of pair (build {got[j][0]}, query {got[j][1]}) reported {gd[j]!r} km, "
                                                     f"is {float(want[j])!r} km", slim)
    else:
        ck.case(kind=kind + "/unjudged")
    if not use_model or not real["calls"]:
        return None
    # ---- model side
    lines = model_lines(case, q, real)
    mm = {"minkowski": "mink", None: "mink", "haversine": "hav"}[case["metric"]]
    rkm_real = float(to_kilometers(q["r"]))
    lines.append(f"radius {mm} {bits(rkm_real)}")
    if isinstance(q["r"], str):
        lines.append("km " + (q["r"].encode().hex() or "-"))
    exp_sh = expected_shuffler(case, n)

    def compare(out):
        if real["shuffler"] != exp_sh:
            ck.disagree(f"shuffler {real['shuffler']} is not np.random.shuffle(arange(n)) = {exp_sh}", slim)
        o = out[0].split()
        if o[0] != "ok":
            ck.disagree(f"model answered {out[0][:60]} but code returned {len(got)} pairs", slim)
            return
        tp = [] if o[1] == "-" else [int(x) for x in o[1].split(",")]
        # the tree was built from the rows the model says (compare coordinates)
        if metric == "minkowski":
            uv = unit_vectors(np.array(case["blat"], dtype=float)[tp], np.array(case["blon"], dtype=float)[tp]) * LD(R)
            okrows = real["tree_data"].shape == (n, 3) and np.all(np.abs(real["tree_data"] - uv.astype(float)) < (5.0 if f32 else 1e-5))
        else:
            rad = np.deg2rad(np.column_stack([np.array(case["blat"], dtype=float)[tp], np.array(case["blon"], dtype=float)[tp]]))
            okrows = real["tree_data"].shape == (n, 2) and np.all(np.abs(real["tree_data"] - rad) < (1e-6 if f32 else 1e-12))
        if not okrows:
            ck.disagree("tree rows are not points[shuffler] as in the model", slim)
        items = [] if o[2] == "-" else o[2:]
        mp = [tuple(int(x) for x in it.split(":")) for it in items]
        if gd is not None:
            code = [(a, b, bits(d)) for (a, b), d in zip(got, gd)]
            unb = lambda t: (t[0], t[1], struct.unpack("<d", struct.pack("<Q", t[2]))[0])
            ms, cs = sorted(map(unb, mp)), sorted(map(unb, code))
            same = len(ms) == len(cs) and all(x[:2] == y[:2] and abs(x[2] - y[2]) <= 1e-12 * max(1.0, abs(y[2])) for x, y in zip(ms, cs))
        else:
            code = got
            ms, cs = sorted(mp), sorted(code)
            same = ms == cs
        if not same:        # verdict: the canonicalised observable result (pairs with distances, order-free)
            k = next((k for k, (x, y) in enumerate(zip(ms, cs)) if x != y), min(len(ms), len(cs)))
            ck.disagree(f"query result differs: model {ms[k:k + 2]} vs code {cs[k:k + 2]} (counts {len(ms)}/{len(cs)})", slim)
        else:               # diagnostics only: same order, same bits
            ck.count("diag/order-and-bits-identical" if mp == code else "diag/order-or-bits-differ")
        if int(out[1]) != bits(real["calls"][0]["r"]):
            ck.disagree(f"radius handed to the tree: model bits {out[1]} vs code {bits(real['calls'][0]['r'])}", slim)
        if isinstance(q["r"], str):
            if not out[2].startswith("ok "):
                ck.disagree(f"to_kilometers({q['r']!r}): model {out[2]} vs code {rkm_real!r}", slim)
            else:
                fr = Fraction(out[2][3:])
                if fr == 0 or abs(Fraction(rkm_real) - fr) > abs(fr) * Fraction(1, 2 ** 50):
                    ck.disagree(f"to_kilometers({q['r']!r}): model {fr} vs code {rkm_real!r}", slim)
    return (lines, compare)


def check_case(ck, case, use_model=True):
    """build the index once, run the case's query and the optional further queries (`more`) on the SAME index"""
    built = build_real(case)
    qs = [{"r": case["r"], "return_distance": case.get("return_distance", True), "r_np": case.get("r_np")}] + list(case.get("more", []))
    if "init_error" in built:
        tkm = true_km(case["r"])
        if tkm is not None and tkm != 0:
            ck.violation(classify(case), f"GeoIndex raised {built['init_error']} for a valid input", dict(case))
        ck.case(kind="init-error")
        return None
    parts = []
    for k, q in enumerate(qs):
        real = query_real(built, case, q)
        r = judge(ck, case, q, real, use_model, k)
        if r is not None:
            parts.append(r)
    if not parts:
        return None
    lines, spans = [], []
    for ls, cb in parts:
        spans.append((len(lines), len(ls), cb))
        lines += ls

    def compare(out):
        for a, n, cb in spans:
            cb(out[a:a + n])
    return (lines, compare)


class Batch:
    """collects model lines of many cases and runs the driver once"""

    def __init__(self, ck, use_model):
        self.ck, self.use_model = ck, use_model
        self.lines, self.cbs = [], []

    def add(self, case):
        r = check_case(self.ck, case, self.use_model)
        if r is not None and self.use_model:
            lines, cb = r
            self.cbs.append((len(self.lines), len(lines), cb))
            self.lines += lines
            if len(self.lines) > 400:
                self.flush()

    def flush(self):
        if not self.lines:
            return
        out = self.ck.driver(self.lines)
        for a, k, cb in self.cbs:
            cb(out[a:a + k])
        self.lines, self.cbs = [], []


# ---------------------------------------------------------------- generators
def destination(lat, lon, theta, beta):
    """point at central angle theta (rad) from (lat, lon) in direction beta"""
    la, lo = math.radians(lat), math.radians(lon)
    s = math.sin(la) * math.cos(theta) + math.cos(la) * math.sin(theta) * math.cos(beta)
    la2 = math.asin(max(-1.0, min(1.0, s)))
    lo2 = lo + math.atan2(math.sin(beta) * math.sin(theta) * math.cos(la), math.cos(theta) - math.sin(la) * math.sin(la2))
    lon2 = math.degrees(lo2)
    lon2 = (lon2 + 180.0) % 360.0 - 180.0
    return math.degrees(la2), lon2


def angle_for(metric, d_km, R):
    """central angle of two points whose distance in the metric is d_km (None if impossible)"""
    if metric == "haversine":
        th = d_km * 1000.0 / R
        return th if th <= math.pi else None
    x = d_km * 1000.0 / (2 * R)
    return 2 * math.asin(x) if x <= 1 else None


SPECIAL = [(90.0, 0.0), (-90.0, 0.0), (90.0, 123.0), (0.0, 180.0), (0.0, -180.0), (12.5, 180.0), (12.5, -180.0),
           (0.0, 0.0), (89.9999, 45.0), (-89.9999, -45.0), (45.0, 179.9999), (45.0, -179.9999)]


def gen_points(rng, n, style, centre=None, spread=1.0):
    pts = []
    c = centre or (rng.uniform(-80, 80), rng.uniform(-180, 180))
    for _ in range(n):
        if style == "global":
            pts.append((math.degrees(math.asin(rng.uniform(-1, 1))), rng.uniform(-180, 180)))
        elif style == "cluster":
            pts.append(destination(c[0], c[1], abs(rng.gauss(0, spread)) * 1e-3, rng.uniform(0, 2 * math.pi)))
        elif style == "special":
            pts.append(rng.choice(SPECIAL) if rng.random() < 0.6 else
                       (rng.choice([90.0, -90.0, 0.0, 89.5]), rng.choice([180.0, -180.0, 0.0, 179.5, -179.5])))
        else:  # grid
            pts.append((round(rng.uniform(-10, 10)) * 1.0 + c[0] // 1, round(rng.uniform(-10, 10)) * 1.0 + c[1] // 1))
    return [(max(-90.0, min(90.0, a)), max(-180.0, min(180.0, b))) for a, b in pts]


UNIT_FORMS = ["{x} {u}", "{x}{u}", " {x} {u} ", "{x}  {u}"]


def gen_radius(rng, metric):
    """(r argument, km value as float)"""
    km = 10 ** rng.uniform(-3, math.log10(20000))
    if rng.random() < 0.25:
        km = rng.choice([0.005, 1.0, 50.0, 300.0, 1000.0, 5000.0, 12000.0, 13000.0, 20000.0])
    return km


def radius_arg(rng, km):
    """write km as number or as a unit string (exact decimal spellings)"""
    t = rng.random()
    if t < 0.55:
        return km if rng.random() < 0.7 else (int(km) if km >= 1 else km)
    unit = rng.choice(sorted(TRUE_FACTORS))
    val = Fraction(repr(float(km))) / TRUE_FACTORS[unit]
    x = float(val)
    style = rng.random()
    if style < 0.5:
        txt = repr(x)
    elif style < 0.7:
        txt = "%.6e" % x
    elif style < 0.85:
        txt = "%d" % max(1, round(x))
    else:
        txt = ("%.3f" % x) if x >= 0.001 else repr(x)
    if float(txt) == 0:
        txt = repr(x)
    if "inf" in txt or "nan" in txt:
        return km
    return rng.choice(UNIT_FORMS).format(x=txt, u=unit)


def gen_case(rng, max_n):
    R = earth_radius()
    metric = rng.choice([None, "minkowski", "haversine", "haversine"])
    tree_class = rng.choice([None, "Ball", "KD"]) if metric != "haversine" else rng.choice([None, "Ball"])
    n = rng.choice([1, 2, 3, rng.randint(1, 12), rng.randint(1, 60), rng.randint(1, max_n)])
    m = rng.choice([1, 2, rng.randint(1, 10), rng.randint(1, max(1, min(200, max_n)))])
    km = gen_radius(rng, metric)
    style = rng.choice(["global", "cluster", "special", "grid", "threshold", "threshold", "dups"])
    spread = km / 6.371 * rng.choice([0.3, 1.0, 3.0])     # cluster scale comparable to r
    if style in ("threshold", "dups"):
        q = gen_points(rng, m, rng.choice(["global", "special", "cluster"]), spread=spread)
        b = []
        while len(b) < n:
            base = rng.choice(q)
            f = rng.choice([0.9, 1.1, 0.9, 1.1, 0.0, 0.5, 2.0])
            th = angle_for(metric or "minkowski", f * km, R)
            if th is None or (style == "dups" and rng.random() < 0.5) or f == 0.0:
                b.append(base)
            else:
                b.append(destination(base[0], base[1], th, rng.uniform(0, 2 * math.pi)))
        if style == "dups":
            b += [rng.choice(b) for _ in range(rng.randint(1, 3))]
            q += [rng.choice(q + b)]
    else:
        c = (rng.uniform(-85, 85), rng.uniform(-180, 180))
        b = gen_points(rng, n, style, c, spread)
        q = gen_points(rng, m, style if rng.random() < 0.8 else "global", c, spread)
        if rng.random() < 0.2:      # antipodes of build points among the queries
            q += [(-a, (o + 360.0) % 360.0 - 180.0) for a, o in b[:2]]
    rng.shuffle(b)
    dtype = rng.choice(["float64"] * 8 + ["float32", "int"])
    if dtype == "float32":          # coordinates as float32 values; radius >= 1 km (float32 geometry is good to ~1 m)
        b = [(float(np.float32(x)), float(np.float32(y))) for x, y in b]
        q = [(float(np.float32(x)), float(np.float32(y))) for x, y in q]
        km = max(km, 1.0)
    elif dtype == "int":
        b = [(int(round(x)), int(round(y))) for x, y in b]
        q = [(int(round(x)), int(round(y))) for x, y in q]
    r = radius_arg(rng, km)
    if rng.random() < 0.03 and dtype != "float32":
        r = 0
    case = {"blat": [p[0] for p in b], "blon": [p[1] for p in b], "qlat": [p[0] for p in q], "qlon": [p[1] for p in q],
            "r": r, "metric": metric, "tree_class": tree_class,
            "leaf_size": rng.choice([None, None, 1, 2, 5, 40, 100]),
            "shuffle": rng.random() < 0.8, "seed": rng.randrange(2 ** 31), "perm": None,
            "return_distance": rng.random() < 0.9, "dtype": dtype}
    if not isinstance(r, str) and r != 0 and rng.random() < 0.15:      # numpy scalar radius
        if float(r) >= 1 and rng.random() < 0.5:
            case["r"], case["r_np"] = int(r), rng.choice(["int64", "int32"])
        else:
            case["r"], case["r_np"] = float(r), "float64"
    if rng.random() < 0.3:          # the same index queried again with other radii (no state may leak between queries)
        # (radii stay within half the circumference: beyond it scikit-learn's haversine reduced distance is not monotone)
        case["more"] = [{"r": min(float(km) * f, 20000.0), "return_distance": rng.random() < 0.8} for f in
                        rng.sample([0.5, 2.0, 1.0, 10.0], rng.choice([1, 1, 2]))]
    return case


def gen_large_case(rng):
    """thousands of build AND query points (query counts beyond and not a multiple of 2048), a few hits per query"""
    R = earth_radius()
    metric = rng.choice([None, None, "haversine"])
    n = rng.choice([3000, 5000, 4100])
    m = rng.choice([2500, 5000, 4097, 3000])
    km = rng.choice([0.5, 1.0, 2.0])
    c = (rng.uniform(-70, 70), rng.uniform(-180, 180))
    spread = km * rng.choice([2.0, 3.0])
    q = gen_points(rng, m, "cluster", c, spread)
    b = gen_points(rng, n - 400, "cluster", c, spread)
    for k in range(400):            # deliberate threshold pairs for query points all over the index range
        base = q[rng.randrange(m)] if k % 2 else q[m - 1 - (k % 50)]
        th = angle_for(metric or "minkowski", rng.choice([0.9, 1.1, 0.5]) * km, R)
        b.append(destination(base[0], base[1], th, rng.uniform(0, 2 * math.pi)))
    rng.shuffle(b)
    return {"blat": [p[0] for p in b], "blon": [p[1] for p in b], "qlat": [p[0] for p in q], "qlon": [p[1] for p in q],
            "r": rng.choice([km, f"{km * 1000} m"]), "metric": metric, "tree_class": rng.choice([None, "KD"]) if metric is None else None,
            "leaf_size": rng.choice([None, 40, 10]), "shuffle": True, "seed": rng.randrange(2 ** 31), "perm": None,
            "return_distance": True, "dtype": "float64"}


BAD_STRINGS = ["", "km", "0 km", "0.0m", "5 parsec", "5 Km", "5 KM", "five km", "5 k m", "--5 km", "5e km", ".e1km",
               "1__0 m", "5 km2", "km 5", "1e-5", "5.", ".5 mi", "+7 yds", "1_0 m", "5\tkm", "5 km\x1c", "5e3 ft",
               "2.5E2 meters", "1e2", " 12 ", "3 feet", "3 foot", "3ft", "5 miles", "3.1 miles", "5000 m", "5 km",
               "500000 centimeters", "12.5 kilometers", "1 kilometer", "1 mile", "1 meter", "1 centimeter", "1 yard",
               "2 yards", "1 yd", "100 cm", "1e5 cm", "5_000 m"]


def string_cases(ck, use_model):
    """to_kilometers alone on well- and malformed strings: model vs code, and code vs the
    physical conversion factors"""
    from typhon.geographical import to_kilometers
    lines, info = [], []
    strs = list(BAD_STRINGS)
    for u in sorted(TRUE_FACTORS):
        strs += [f"5 {u}", f"2.5e3{u}", f" 1_000.25 {u} "]
    for s in strs:
        try:
            v = float(to_kilometers(s))
            got = "nonfinite" if not math.isfinite(v) else v
        except ValueError:
            got = "value-error"
        except Exception as e:  # pragma: no cover
            got = "exc:" + type(e).__name__
        t = None
        try:
            t = true_km(s.replace("_", "")) if all(ch not in s for ch in "\t\x1c") else None
        except Exception:
            t = None
        ck.case(key="str:" + s, kind="to_kilometers/" + ("ok" if isinstance(got, float) else str(got)),
                sample={"to_kilometers": s, "result": got if not isinstance(got, float) else repr(got)})
        if t is not None and t != 0 and isinstance(got, float):
            if abs(Fraction(got) - t) > abs(t) * Fraction(1, 10 ** 12):
                c = {"op": "to_kilometers", "r": s}
                ck.violation(classify(c), f"to_kilometers({s!r}) = {got!r}, the length is {float(t)!r} km", c)
        lines.append("km " + (s.encode().hex() or "-"))
        info.append((s, got))
    if not use_model:
        return
    out = ck.driver(lines + ["table", "consts"])
    for (s, got), o in zip(info, out):
        if isinstance(got, float):
            ok = o.startswith("ok ") and Fraction(o[3:]) != 0 and \
                 abs(Fraction(got) - Fraction(o[3:])) <= abs(Fraction(o[3:])) * Fraction(1, 2 ** 50)
        else:
            ok = (o == got)
        if not ok:
            ck.disagree(f"to_kilometers({s!r}): model {o} vs code {got!r}", {"op": "to_kilometers", "r": s})
    # the model's table and constant are the code's
    import typhon.geographical as tg
    code_tab = {}
    for names, f in tg.UNITS_CONVERSION_FACTORS:
        for nm in names:
            code_tab[nm] = f
    model_tab = dict(x.split("=") for x in out[-2].split())
    if set(code_tab) != set(model_tab) or any(float(Fraction(model_tab[k])) != float(code_tab[k]) for k in code_tab):
        ck.disagree("UNITS_CONVERSION_FACTORS differs from the model's unitTable", {"code": {k: repr(v) for k, v in code_tab.items()}})
    if float(out[-1]) != earth_radius():
        ck.disagree(f"earth_radius: model {out[-1]} vs code {earth_radius()!r}", {})


def perm_cases(ck, batch, nmax, sets_per_n):
    """ALL permutations of the build points for small n (exhaustive schedules)"""
    rng = ck.rng
    R = earth_radius()
    for n in range(1, nmax + 1):
        for _ in range(sets_per_n if n < 6 else 1):
            metric = rng.choice([None, "haversine"])
            km = rng.choice([1.0, 100.0, 2500.0])
            q = gen_points(rng, rng.randint(1, 3), "global")
            b = []
            for k in range(n):
                base = rng.choice(q)
                f = [0.9, 1.1, 0.0, 0.9, 1.1, 3.0][k % 6]
                th = angle_for(metric or "minkowski", f * km, R)
                b.append(destination(base[0], base[1], th, rng.uniform(0, 6.28)) if f else base)
            rng.shuffle(b)
            base_case = {"blat": [p[0] for p in b], "blon": [p[1] for p in b], "qlat": [p[0] for p in q],
                         "qlon": [p[1] for p in q], "r": km, "metric": metric,
                         "tree_class": rng.choice([None, "KD"]) if metric is None else None,
                         "leaf_size": rng.choice([None, 1, 2]), "shuffle": True, "seed": 0, "return_distance": True}
            for perm in itertools.permutations(range(n)):
                batch.add(dict(base_case, perm=list(perm)))
            ck.count("permutation-exhaustive-sets")


def explore(ck, n_cases, max_n, nperm, sets_per_n, use_model=True, n_large=3):
    batch = Batch(ck, use_model)
    string_cases(ck, use_model)
    perm_cases(ck, batch, nperm, sets_per_n)
    for _ in range(n_large):
        batch.add(gen_large_case(ck.rng))
        batch.flush()
    for _ in range(n_cases):
        batch.add(gen_case(ck.rng, max_n))
    batch.flush()


def make_check():
    return vlib.Check(
        PROP, pkg="colloc", props="Proofs.Props.C06", driver="drv_c06",
        lemma_files=["Proofs/Lemmas/GeoIndex.lean"], model_files=["Model/GeoIndex.lean"],
        trusted=["hand-written model Model/GeoIndex.lean tied to typhon/geographical.py (to_kilometers, GeoIndex.__init__, "
                 "_to_metric, query) and typhon/utils/common.py split_units by the correspondence run of this check (driver "
                 "drv_c06: recorded raw tree answers + the permutation go to the model, pairs compared in order, distances "
                 "and the tree radius bit for bit, to_kilometers as exact rationals within 2^-50)",
                 "scikit-learn BallTree/KDTree query_radius: contract 'per query point exactly the build positions within r "
                 "(any order) with their distances' is a hypothesis of the theorems, exercised against a dense longdouble "
                 "distance matrix on every case",
                 "float metric (geocentric2cart / haversine in doubles, comparison d <= r in doubles) is validated with a 1e-7 "
                 "margin around the threshold, not proved"],
        assumptions=["lat/lon are 1-d numpy arrays with >= 1 point, latitudes in [-90, 90], longitudes in [-180, 180]",
                     "metric='haversine' only with the Ball tree (scikit-learn's KDTree rejects that metric)",
                     "radius strings are ASCII, the numeral lies in the normal double range (no overflow to inf / underflow to 0)",
                     "pairs closer than 1e-7 (relative) to the threshold may be reported or not (float metric); for float32 "
                     "coordinates the geometry is only good to ~1 m (margin 5 m)"])


def main():
    ck = make_check()
    ck.rule = ("build/query point sets (styles global/cluster/special=poles+date line/grid/threshold=clusters at 0.9r and 1.1r/"
               "dups/antipodes), radii 1 m .. 20000 km as numbers or unit strings, both metrics, Ball/KD, leaf sizes, shuffle "
               "on (seeded) / off, and ALL n! permutations forced for n <= 5 (6 thorough); non-trivial = distinct case with at "
               "least one pair inside and one outside the radius")
    ck.anchors([("typhon/geographical.py", "to_kilometers"), ("typhon/geographical.py", "GeoIndex.__init__"),
                ("typhon/geographical.py", "GeoIndex._to_metric"), ("typhon/geographical.py", "GeoIndex.query"),
                ("typhon/utils/common.py", "split_units"), ("typhon/geodesy.py", "geocentric2cart"),
                ("typhon/geodesy.py", "great_circle_distance")])
    ck.build()
    import os
    use_model = ck.build_ok is not False or os.path.exists(os.path.join(ck.pkgdir, ".lake/build/bin/drv_c06"))
    batch = Batch(ck, use_model)
    for name, c in vlib.load_corpus(PROP):
        run_corpus_case(ck, batch, c)
    batch.flush()
    thorough = ck.tier == "thorough"
    explore(ck, ck.budget(400, 2500), 5000 if thorough else 400, 6 if thorough else 5, 3 if thorough else 2, use_model,
            n_large=8 if thorough else 3)
    ck.exhaustive = False
    ck.notes.append(f"all n! shuffles forced for n <= {6 if thorough else 5} build points")
    if ck.broken() and not ck.violations:
        explore(ck, 3000, 300, 5, 2, use_model=False, n_large=4)
    ck.finish()


def run_corpus_case(ck, batch, c):
    if c.get("op") == "to_kilometers":
        from typhon.geographical import to_kilometers
        try:
            v = float(to_kilometers(c["r"]))
        except Exception as e:
            v = None
        t = true_km(c["r"])
        ck.case(key="corpus:" + c["r"], kind="corpus/to_kilometers")
        if t is not None and t != 0 and (v is None or abs(Fraction(v) - t) > abs(t) * Fraction(1, 10 ** 12)):
            ck.violation(classify(c), f"to_kilometers({c['r']!r}) = {v!r}, the length is {float(t)!r} km", c)
        return
    c = dict(c)
    c.setdefault("perm", None)
    c.setdefault("return_distance", True)
    c.setdefault("leaf_size", None)
    c.setdefault("tree_class", None)
    c.setdefault("seed", 0)
    c.setdefault("shuffle", True)
    batch.add(c)


def replay(path):
    obj = json.load(open(path))
    c = obj.get("case")
    if not c:
        print(json.dumps(obj, indent=1)[:2000])
        raise SystemExit(1)
    ck = make_check()
    batch = Batch(ck, False)
    run_corpus_case(ck, batch, c)
    for v in ck.violations:
        print("REPRODUCED:", v["what"])
    raise SystemExit(1 if ck.violations else 0)
