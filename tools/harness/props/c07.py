"""C07 — geodesy: coordinate conversions invert each other, distances are true metrics.

Tie: translator (tools/py2lean regenerates lean/geodesy/GenReal/Geodesy.lean from /repo's
typhon/geodesy.py on every run; the theorems Proofs/Props/C07.lean are re-checked against it)
+ Float cross-run of every translated function against numpy (doubles as bit patterns)
+ oracle independent of typhon on the REAL code: textbook closed forms in 40-digit mpmath
  (subprocess `python3-vt props/c07_oracle.py`; numpy.longdouble fallback), round trips, metric laws.
"""
import json
import math
import os
import struct
import subprocess
import sys

import vlib

PROP = "C07"
PKG = "geodesy"
EXE = "drv_geo"
HERE = os.path.dirname(os.path.abspath(__file__))
sys.path.insert(0, os.path.join(vlib.ROOT, "tools", "py2lean"))

FUNCS = ["sind", "cosd", "ellipsoidmodels", "ellipsoid_r_geocentric", "ellipsoid_r_geodetic", "cart2geocentric",
         "geocentric2cart", "geodetic2cart", "cart2geodetic", "geodetic2geocentric", "geocentric2geodetic",
         "great_circle_distance", "great_circle_distance_r", "tunnel_distance", "geocentricposlos2cart",
         "cartposlos2geocentric"]
NEEDED = ["Geodesy." + n for n in FUNCS]
MODELS = ["SphericalEarth", "WGS84", "SphericalVenus", "SphericalMars", "EllipsoidMars", "SphericalJupiter"]
# reference values, independent of typhon (WGS84: NIMA TR8350.2 first eccentricity; IAU mean radii; Mars ellipsoid of
# the MOLA/IAU2000 figure as used by ARTS): the oracle and the table check use THESE, the real functions get typhon's own
REF_ELL = {"SphericalEarth": (6.3781e6, 0.0), "WGS84": (6378137.0, 0.0818191908426), "SphericalVenus": (6051.8e3, 0.0),
           "SphericalMars": (3389.5e3, 0.0), "EllipsoidMars": (3396.19e3, 0.1083), "SphericalJupiter": (69911e3, 0.0)}
TOL_M = 0.01          # 1 cm
TOL_DEG = 1e-7
SIG_HEIGHT = "height-1cm-high-latitude"
# float32 arguments through the iteration of cart2geodetic (hang fixed by a484b14, signature
# cart2geodetic-float32-no-termination): on; every such call runs under a 5 s SIGALRM so that a hang is a violation
F32_ITERATION = os.environ.get("VERIF_C07_F32_ITER", "1") != "0"



# ----------------------------------------------------------------------------- translator tie
def regenerate(ck, needed, package, spec_dir):
    """own copy of numlib.regenerate with package / spec directory (numlib's is fixed to lean/numeric)"""
    ck.lock_package()   # regeneration + build are one critical section per package
    import importlib
    import gen_all
    importlib.reload(gen_all)
    rep = gen_all.generate(package=package, spec_dir=spec_dir)
    ck.extra_cov["translator"] = {"changed_files": rep["changed"],
                                  "translated": sorted(k for k in rep["functions"] if k in needed),
                                  "refused": {k: v for k, v in rep["refused"].items() if k in needed}}
    for k in needed:
        if k in rep["refused"]:
            ck.broken_obligations.append(f"translator refused {k}: {rep['refused'][k]}")
        elif k not in rep["functions"]:
            ck.broken_obligations.append(f"translator has no spec for {k}")
    if any(k in rep["refused"] for k in needed):
        ck.build_ok = False
    return rep


def bits(x):
    return struct.unpack("<Q", struct.pack("<d", float(x)))[0]


def unbits(b):
    return struct.unpack("<d", struct.pack("<Q", int(b)))[0]


ITERATIVE = {"cart2geodetic", "geocentric2geodetic"}


def float_cross(ck, calls, rtol=1e-9, cond_limit=1e6):
    """calls: (name, args, numpy value(s)).  The compiled Float reading of the translated function runs on
    the same doubles (bit patterns); agreement to rtol on well-conditioned points (conditioning estimated
    by one-ulp input perturbations of the Lean side), O(1) agreement elsewhere."""
    if not calls:
        return 0
    lines, meta = [], []
    atols = {}
    for call in calls:
        name, args, val = call[:3]
        if len(call) > 3:            # per-component absolute tolerance (conditioning known analytically)
            atols[len(lines)] = call[3]
        lines.append(name + " " + " ".join(str(bits(a)) for a in args))
        meta.append((name, args, val, "main"))
        for i in range(len(args)):
            pa = list(args)
            pa[i] = math.nextafter(pa[i], math.inf)
            lines.append(name + " " + " ".join(str(bits(a)) for a in pa))
            meta.append((name, args, val, "pert"))
    out = ck.driver(lines, exe=EXE)
    compared = 0
    i = 0
    while i < len(lines):
        name, args, val, _ = meta[i]
        main = out[i]
        atol = atols.get(i)
        perts = []
        j = i + 1
        while j < len(lines) and meta[j][3] == "pert":
            perts.append(out[j])
            j += 1
        i = j
        case = {"kind": "xrun", "fn": name, "args": [float(a) for a in args]}
        if main in ("unknown", "bad-op"):
            ck.disagree(f"Float model has no function {name} ({main})", case)
            continue
        mvals = [unbits(t) for t in main.split()]
        pvals = [float(v) for v in (val if isinstance(val, (tuple, list)) else (val,))]
        if len(mvals) != len(pvals):
            ck.disagree(f"{name}: arity of result differs", case)
            continue
        ok_iter = None
        for k, (m, p) in enumerate(zip(mvals, pvals)):
            if math.isnan(m) or math.isnan(p):
                if math.isnan(m) != math.isnan(p):
                    ck.disagree(f"{name}{tuple(args)}[{k}]: NaN mismatch model={m} numpy={p}", case)
                ck.count("xrun/nan")
                continue
            if math.isinf(m) or math.isinf(p):
                if m != p:
                    ck.disagree(f"{name}{tuple(args)}[{k}]: inf mismatch model={m} numpy={p}", case)
                continue
            scale = max(abs(m), 1e-300)
            sens = 0.0
            for pt in perts:
                pv = [unbits(t) for t in pt.split()] if pt not in ("unknown", "bad-op") else []
                if k < len(pv) and not math.isnan(pv[k]) and not math.isinf(pv[k]):
                    sens = max(sens, abs(pv[k] - m) / scale)
            err = abs(m - p)
            if name == "cartposlos2geocentric" and k == 4:
                err = abs(circ(m, p))          # azimuth -180 = 180 (the sign of a vanishing dlon decides)
            # values that are differences of large numbers (heights, coordinates near an axis, angles near 0):
            # absolute floor of a few ulp of the magnitudes involved
            floor = 64 * 2.3e-16 * max([abs(a) for a in args] + [1.0]) if name not in ("sind", "cosd") else 1e-15
            if atol is not None:
                floor += atol[k]
            if sens > cond_limit * 2.3e-16:
                ck.count("xrun/ill-conditioned")
                if err > 1e-3 * max(abs(m), abs(p)) + floor and err > 100 * sens * scale:
                    ck.disagree(f"{name}{tuple(args)}[{k}]: model={m!r} numpy={p!r}", case)
                continue
            compared += 1
            if err > rtol * max(abs(m), abs(p)) + floor:
                if name in ITERATIVE:
                    # one more / one fewer pass of the 1e-12 rad loop (stop test within an ulp of its threshold)
                    if ok_iter is None:
                        ok_iter = (abs(mvals[1] - pvals[1]) <= 1.2e-10 and abs(mvals[0] - pvals[0]) <= 5e-4
                                   and abs(mvals[2] - pvals[2]) <= 1e-9)
                    if ok_iter:
                        ck.count("xrun/iteration-count-differs")
                        continue
                ck.disagree(f"{name}{tuple(args)}[{k}]: model={m!r} numpy={p!r} (rel {err / max(abs(m), abs(p), 1e-300):.3g})",
                            dict(case, model=m, numpy=p))
    ck.count("xrun/compared", compared)
    return compared


# ----------------------------------------------------------------------------- oracle
class Oracle:
    def __init__(self, ck=None):
        self.ck = ck
        self.mode = None

    def __call__(self, tasks):
        if not tasks:
            return []
        if self.mode != "longdouble":
            try:
                p = subprocess.run(["python3-vt", os.path.join(HERE, "c07_oracle.py")], input=json.dumps(tasks),
                                   capture_output=True, text=True, timeout=3000)
                if p.returncode == 0:
                    self.mode = "mpmath"
                    return [[float(v) for v in row] for row in json.loads(p.stdout)]
                err = p.stderr[-300:]
            except (OSError, subprocess.TimeoutExpired) as e:
                err = repr(e)
            self.mode = "longdouble"
            if self.ck is not None:
                self.ck.notes.append(f"mpmath oracle unavailable ({err}); numpy.longdouble oracle used")
        import c07_oracle
        return [[float(v) for v in row] for row in c07_oracle.run(tasks)]


def sc(v):
    """numpy scalar / 0-d / shape-(1,) array -> float"""
    import numpy as np
    return float(np.asarray(v).reshape(-1)[0])


def circ(a, b):
    """signed difference of two longitudes in degrees, in [-180, 180)"""
    return (a - b + 180.0) % 360.0 - 180.0


def same_pos(p, q, geodetic=True):
    """two (h|r, lat, lon) triples agree to the property's accuracy (1 cm, 1e-7 deg, longitude modulo 360)"""
    return abs(p[0] - q[0]) <= TOL_M and abs(p[1] - q[1]) <= TOL_DEG and abs(circ(p[2], q[2])) <= TOL_DEG


def gcd_tol(d_deg):
    """rounding error (degrees) of the haversine formula at central angle d: c = 2 arcsin(sqrt(a)) amplifies the
    error of a by 1/(sqrt(a) cos(c/2)) — ill-conditioned towards antipodal points, sqrt(eps) at exactly 180"""
    return math.degrees(2e-15 / max(math.cos(math.radians(min(d_deg, 180.0)) / 2), 2e-8)) + 1e-13


def loguniform(rng, lo, hi):
    return math.exp(rng.uniform(math.log(lo), math.log(hi)))


# ----------------------------------------------------------------------------- cases
def gen_position(rng):
    lat = rng.choice([rng.uniform(-88, 88)] * 6 + [0.0, 88.0, -88.0, rng.uniform(86, 88), -rng.uniform(86, 88), 1e-9, 45.0])
    lon = rng.choice([rng.uniform(-180, 180)] * 6 + [0.0, 180.0, -180.0, 179.9999999, -179.9999999, 90.0, -90.0,
                                                     rng.uniform(180, 360), rng.uniform(-360, -180)])
    h = rng.choice([loguniform(rng, 1.0, 1e6)] * 5 + [-loguniform(rng, 1.0, 1e4)] * 3 + [0.0, 1e6, -1e4])
    return h, lat, lon


def gen_cases(rng, n):
    cases = []
    for _ in range(n):
        h, lat, lon = gen_position(rng)
        cases.append({"kind": "geodetic", "model": rng.choice(MODELS), "h": h, "lat": lat, "lon": lon})
    for _ in range(max(n // 3, 12)):
        _, lat, lon = gen_position(rng)
        cases.append({"kind": "surface", "model": rng.choice(MODELS), "lat": rng.choice([lat, rng.uniform(-90, 90)]), "lon": lon})
    for _ in range(max(n // 3, 12)):
        _, lat, lon = gen_position(rng)
        cases.append({"kind": "geocentric", "r": loguniform(rng, 1e3, 1e8) * rng.choice([1, 1, 1, -1]), "lat": lat, "lon": lon})
    for _ in range(max(n // 3, 12)):
        _, lat, lon = gen_position(rng)
        lon = circ(lon, 0.0)
        za = rng.choice([rng.uniform(0.01, 179.99)] * 5 + [90.0, 0.01, 179.99, 45.0])
        aa = rng.choice([rng.uniform(-179.999, 179.999)] * 6 + [90.0, -90.0, 0.0, 180.0, 1e-3, -179.999])
        cases.append({"kind": "poslos", "r": loguniform(rng, 1e6, 1e8), "lat": lat, "lon": lon, "za": za, "aa": aa})
    for _ in range(n):
        pts = []
        for _k in range(3):
            pts.append((rng.choice([rng.uniform(-90, 90)] * 6 + [0.0, 90.0, -90.0, 88.0]),
                        rng.choice([rng.uniform(-180, 180)] * 6 + [0.0, 180.0, -180.0, 179.9999999, rng.uniform(-720, 720)])))
        mode = rng.random()
        if mode < 0.12:
            pts[1] = pts[0]                                        # coincident
        elif mode < 0.24:
            pts[1] = (pts[0][0] + rng.uniform(-1e-3, 1e-3), pts[0][1] + rng.uniform(-1e-3, 1e-3))   # very close
        elif mode < 0.34:
            pts[1] = (-pts[0][0] + rng.uniform(-1e-3, 1e-3), pts[0][1] + 180 + rng.uniform(-1e-3, 1e-3))  # near antipodal
        elif mode < 0.40:
            pts[1] = (-pts[0][0], pts[0][1] + 180)                 # antipodal
        cases.append({"kind": "dist", "p": [list(p) for p in pts], "shift": rng.choice([rng.uniform(-360, 360), 180.0, 360.0, 1e-3]),
                      "r": rng.choice([None, 6.3781e6, loguniform(rng, 1.0, 1e8)])})
    for i in range(max(n // 20, 4)):
        k = rng.randint(2, 5)
        pos = [list(gen_position(rng)) for _ in range(k * 3)]
        model = rng.choice(MODELS)
        if i % 2 == 0:
            # mixed convergence: one point exactly on the equator (the iteration is stationary at once) next to
            # mid-latitude points of an eccentric ellipsoid — `while np.any(...)` must keep going for the others
            model = rng.choice(["WGS84", "EllipsoidMars"])
            pos[rng.randrange(len(pos))][1] = 0.0
            pos[rng.randrange(len(pos))][1] = rng.choice([45.0, -35.0, 60.0])
        cases.append({"kind": "arrays", "model": model, "pos": pos, "k": k})
    for _ in range(max(n // 25, 3)):
        cases.append({"kind": "shapes", "model": rng.choice(MODELS), "pos": [list(gen_position(rng)) for _ in range(6)]})
    for _ in range(max(n // 10, 8)):
        cases.append({"kind": "special", "r": loguniform(rng, 1e6, 1e8),
                      "lat": rng.choice([90.0, -90.0, 90.0, -90.0, rng.uniform(-88, 88), 0.0, 89.99999999]),
                      "lon": rng.choice([0.0, 180.0, -180.0, rng.uniform(-180, 180)]),
                      "za": rng.choice([0.0, 180.0, 1e-7, 180 - 1e-7, 5e-7, 90.0, rng.uniform(1, 179)]),
                      "aa": rng.choice([0.0, 180.0, -180.0, 90.0, -90.0, rng.uniform(-180, 180)])})
    for _ in range(max(n // 10, 8)):
        hint = rng.choice(["zenith", "ns", "none"])
        za = rng.choice([0.0, 180.0]) if hint == "zenith" else rng.choice([rng.uniform(0.5, 89.5), rng.uniform(90.5, 179.5), 90.0, 45.0])
        aa = rng.choice([0.0, 180.0]) if hint == "ns" else rng.uniform(-179, 179)
        cases.append({"kind": "hints", "hint": hint, "r": loguniform(rng, 1e6, 1e8), "lat": rng.uniform(-88, 88),
                      "lon": rng.uniform(-179, 179), "za": za, "aa": aa})
    for _ in range(max(n // 25, 4)):
        # integer-valued points (also checked against the oracle as ordinary `geodetic` / `dist` cases)
        d = {"kind": "dtypes", "model": rng.choice(MODELS + ["WGS84"]), "h": rng.choice([0, 1000, -5000, rng.randint(-10000, 1000000)]),
             "lat": rng.randint(-88, 88), "lon": rng.randint(-179, 180), "r": rng.choice([7000000, 6378137, rng.randint(1000000, 80000000)]),
             "za": rng.randint(1, 179), "aa": rng.choice([rng.randint(-179, 179), 90, -90, 45]),
             "lat2": rng.randint(-90, 90), "lon2": rng.randint(-180, 180)}
        mode = rng.random()
        if mode < 0.15:                                  # exactly / nearly antipodal second point
            d["lat2"], d["lon2"] = -d["lat"] + rng.choice([0, 0, 1]), d["lon"] - 180 if d["lon"] > 0 else d["lon"] + 180
        elif mode < 0.3:                                 # coincident / neighbouring second point
            d["lat2"], d["lon2"] = d["lat"] + rng.choice([0, 0, 1]), d["lon"] + rng.choice([0, 1, 360])
        elif mode < 0.4:                                 # date line, pole as second point
            d["lon"], d["lat2"] = rng.choice([180, -179, 179]), rng.choice([90, -90])
        cases.append(d)
        cases.append({"kind": "geodetic", "model": d["model"], "h": float(d["h"]), "lat": float(d["lat"]), "lon": float(d["lon"])})
        cases.append({"kind": "poslos", "r": float(d["r"]), "lat": float(d["lat"]), "lon": float(d["lon"]), "za": float(d["za"]), "aa": float(d["aa"])})
    for i in range(max(n // 100, 2)):
        shape = [(3, 4), (2, 6), (2, 3, 2), (4, 3)][i % 4]
        pos = []
        while len(pos) < 12:
            q = list(gen_position(rng))
            q[1] = max(min(q[1], 87.5), -87.5)
            if all(abs(q[1] - o[1]) > 1e-3 and abs(circ(q[2], o[2])) > 1e-3 for o in pos):     # all different: a permutation shows
                pos.append(q)
        cases.append({"kind": "layout", "model": rng.choice(MODELS), "shape": list(shape), "pos": pos})
    cases.append({"kind": "reject"})
    return cases


def oracle_tasks(c, ell):
    k = c["kind"]
    if k == "geodetic":
        a, e = ell[c["model"]]
        return [["geodetic2cart", c["h"], c["lat"], c["lon"], a, e]]
    if k == "surface":
        a, e = ell[c["model"]]
        return [["r_geodetic", a, e, c["lat"]]]
    if k == "geocentric":
        return [["geocentric2cart", c["r"], c["lat"], c["lon"]]]
    if k == "poslos":
        return [["poslos2cart", c["r"], c["lat"], c["lon"], c["za"], c["aa"]]]
    if k == "dist":
        p = c["p"]
        t = []
        for i, j in ((0, 1), (1, 2), (0, 2)):
            t.append(["angle", p[i][0], p[i][1], p[j][0], p[j][1]])
        t.append(["chord", p[0][0], p[0][1], p[1][0], p[1][1], 6.3781e6])
        return t
    return []


class Judge:
    """runs the REAL code on one case and compares with the oracle answers; collects violations, second-stage
    oracle tasks and Float cross-run calls"""

    def __init__(self, g, np, ell):
        self.g, self.np, self.ell = g, np, ell
        self.viol = []           # (signature, what, case)
        self.calls = []
        self.stage2 = []         # (case, tasks, callback)

    def v(self, c, what, sig="other"):
        self.viol.append((sig, what, c))

    # ------------------------------------------------------------------ geodetic <-> cart <-> geocentric
    def geodetic(self, c, ans):
        g = self.g
        a, e = self.ell[c["model"]]
        ell = (a, e)
        h, lat, lon = c["h"], c["lat"], c["lon"]
        ox, oy, oz = ans[0]
        x, y, z = (sc(t) for t in g.geodetic2cart(h, lat, lon, ell))
        self.calls.append(("geodetic2cart", (h, lat, lon, a, e), (x, y, z)))
        dpos = math.sqrt((x - ox) ** 2 + (y - oy) ** 2 + (z - oz) ** 2)
        if not dpos <= 1e-4:
            self.v(c, f"geodetic2cart({h!r},{lat!r},{lon!r},{c['model']}) = ({x!r},{y!r},{z!r}) is {dpos:.3g} m from the textbook value ({ox!r},{oy!r},{oz!r})")
            return
        if c["model"] == "WGS84":
            # ellipsoid=None must mean WGS84 in all four functions (decided statically in the model: checked here,
            # against the oracle's own WGS84 values through the explicit call that was just validated)
            d = tuple(sc(t) for t in g.geodetic2cart(h, lat, lon))
            if not math.dist(d, (x, y, z)) <= TOL_M:
                self.v(c, f"geodetic2cart({h!r},{lat!r},{lon!r}) without ellipsoid = {d}, with WGS84 {(x, y, z)}")
            d = tuple(sc(t) for t in g.cart2geodetic(x, y, z))
            if not same_pos(d, tuple(sc(t) for t in g.cart2geodetic(x, y, z, ell))):
                self.v(c, f"cart2geodetic({x!r},{y!r},{z!r}) without ellipsoid = {d} differs from WGS84")
            d = tuple(sc(t) for t in g.geodetic2geocentric(h, lat, lon))
            if not same_pos(d, tuple(sc(t) for t in g.geodetic2geocentric(h, lat, lon, ell))):
                self.v(c, f"geodetic2geocentric({h!r},{lat!r},{lon!r}) without ellipsoid = {d} differs from WGS84")
            rr, pp, ll = (sc(t) for t in g.cart2geocentric(x, y, z))
            d = tuple(sc(t) for t in g.geocentric2geodetic(rr, pp, ll))
            if not same_pos(d, tuple(sc(t) for t in g.geocentric2geodetic(rr, pp, ll, ell))):
                self.v(c, f"geocentric2geodetic({rr!r},{pp!r},{ll!r}) without ellipsoid = {d} differs from WGS84")
        # inverse
        h2, lat2, lon2 = (sc(t) for t in g.cart2geodetic(x, y, z, ell))
        self.calls.append(("cart2geodetic", (x, y, z, a, e), (h2, lat2, lon2)))
        self.roundtrip(c, "cart2geodetic(geodetic2cart(h,lat,lon))", (h2, lat2, lon2), (h, lat, lon), e)
        # cart <-> geocentric
        r, psi, lam = (sc(t) for t in g.cart2geocentric(x, y, z))
        self.calls.append(("cart2geocentric", (x, y, z), (r, psi, lam)))
        x3, y3, z3 = (sc(t) for t in g.geocentric2cart(r, psi, lam))
        self.calls.append(("geocentric2cart", (r, psi, lam), (x3, y3, z3)))
        d3 = math.sqrt((x3 - x) ** 2 + (y3 - y) ** 2 + (z3 - z) ** 2)
        if not d3 <= TOL_M:
            self.v(c, f"geocentric2cart(cart2geocentric({x!r},{y!r},{z!r})) is {d3:.3g} m away")
        # direct vs composed routes
        gc = tuple(sc(t) for t in g.geodetic2geocentric(h, lat, lon, ell))
        self.calls.append(("geodetic2geocentric", (h, lat, lon, a, e), gc))
        if not same_pos(gc, (r, psi, lam)):
            self.v(c, f"geodetic2geocentric({h!r},{lat!r},{lon!r}) = {gc} differs from cart2geocentric(geodetic2cart(...)) = {(r, psi, lam)}")
        gd = tuple(sc(t) for t in g.geocentric2geodetic(r, psi, lam, ell))
        self.calls.append(("geocentric2geodetic", (r, psi, lam, a, e), gd))
        direct = tuple(sc(t) for t in g.cart2geodetic(x3, y3, z3, ell))
        if not same_pos(gd, direct):
            self.v(c, f"geocentric2geodetic({r!r},{psi!r},{lam!r}) = {gd} differs from cart2geodetic(geocentric2cart(...)) = {direct}")
        self.roundtrip(c, "geocentric2geodetic(geodetic2geocentric(h,lat,lon))", gd, (h, lat, lon), e)
        # second stage: the real inverse functions against the oracle's own inverse at the computed point
        def cb(ans2, c=c, x=x, y=y, z=z, got=(h2, lat2, lon2), gotc=(r, psi, lam), e=e):
            self.roundtrip(c, f"cart2geodetic({x!r},{y!r},{z!r}) vs high-precision inverse", got, tuple(ans2[0]), e)
            orr, opsi, olam = ans2[1]
            if not (abs(gotc[0] - orr) <= 1e-6 * max(1.0, abs(orr) * 1e-7) and abs(gotc[1] - opsi) <= TOL_DEG and abs(circ(gotc[2], olam)) <= TOL_DEG):
                self.v(c, f"cart2geocentric({x!r},{y!r},{z!r}) = {gotc}, textbook value {(orr, opsi, olam)}")
        ra, re_ = REF_ELL[c["model"]]
        self.stage2.append((c, [["cart2geodetic", x, y, z, ra, re_], ["cart2geocentric", x, y, z]], cb))

    def roundtrip(self, c, what, got, want, e):
        h2, lat2, lon2 = got
        h, lat, lon = want
        bad = []
        if not abs(h2 - h) <= TOL_M:
            bad.append(f"height {h2!r} vs {h!r} (off by {abs(h2 - h):.3g} m)")
        if not abs(lat2 - lat) <= TOL_DEG:
            bad.append(f"latitude {lat2!r} vs {lat!r}")
        if not (abs(circ(lon2, lon)) <= TOL_DEG and -180.0 <= lon2 <= 180.0):
            bad.append(f"longitude {lon2!r} vs {lon!r}")
        if bad:
            sig = "other"
            if len(bad) == 1 and bad[0].startswith("height") and e > 0 and abs(lat) > 86.0 and abs(h2 - h) <= 0.03:
                sig = SIG_HEIGHT
            self.v(c, f"{what} ({c.get('model')}): " + "; ".join(bad), sig)

    def surface(self, c, ans):
        g = self.g
        a, e = self.ell[c["model"]]
        lat, lon = c["lat"], c["lon"]
        x, y, z = (sc(t) for t in g.geodetic2cart(0.0, lat, lon, (a, e)))
        rad = math.sqrt(x * x + y * y + z * z)
        rg = sc(g.ellipsoid_r_geodetic((a, e), lat))
        self.calls.append(("ellipsoid_r_geodetic", (a, e, lat), rg))
        if not abs(rg - ans[0][0]) <= 1e-9 * a:
            self.v(c, f"ellipsoid_r_geodetic({c['model']}, {lat!r}) = {rg!r}, textbook value {ans[0][0]!r}")
        if not abs(rad - rg) <= 1e-9 * a:
            self.v(c, f"|geodetic2cart(0,{lat!r},{lon!r})| = {rad!r} but ellipsoid_r_geodetic({c['model']}) = {rg!r}")
        if abs(lat) < 89.999:
            r, psi, _ = (sc(t) for t in g.geodetic2geocentric(0.0, lat, lon, (a, e)))
            rc = sc(g.ellipsoid_r_geocentric((a, e), psi))
            self.calls.append(("ellipsoid_r_geocentric", (a, e, psi), rc))
            if not abs(rc - r) <= 1e-9 * a:
                self.v(c, f"geocentric radius of the surface point at geodetic lat {lat!r}: {r!r}, ellipsoid_r_geocentric({c['model']}, {psi!r}) = {rc!r}")

            def cb(ans2, c=c, rc=rc, psi=psi, a=a):
                if not abs(rc - ans2[0][0]) <= 1e-9 * a:
                    self.v(c, f"ellipsoid_r_geocentric({c['model']}, {psi!r}) = {rc!r}, textbook value {ans2[0][0]!r}")
            self.stage2.append((c, [["r_geocentric", REF_ELL[c["model"]][0], REF_ELL[c["model"]][1], psi]], cb))
        for arr in (self.np.array([lat, -lat, 0.0]), self.np.array([[lat], [0.5 * lat]])):
            va = self.np.asarray(g.ellipsoid_r_geodetic((a, e), arr))
            if va.shape != arr.shape or abs(float(va.reshape(-1)[0]) - rg) > 1e-12 * a:
                self.v(c, f"ellipsoid_r_geodetic on an array of shape {arr.shape}: shape {va.shape} / first element {float(va.reshape(-1)[0])!r} vs scalar {rg!r}")

    def geocentric(self, c, ans):
        g = self.g
        r, lat, lon = c["r"], c["lat"], c["lon"]
        x, y, z = (sc(t) for t in g.geocentric2cart(r, lat, lon))
        self.calls.append(("geocentric2cart", (r, lat, lon), (x, y, z)))
        ox, oy, oz = ans[0]
        if not math.sqrt((x - ox) ** 2 + (y - oy) ** 2 + (z - oz) ** 2) <= 1e-9 * abs(r):
            self.v(c, f"geocentric2cart({r!r},{lat!r},{lon!r}) = {(x, y, z)}, textbook value {(ox, oy, oz)}")
            return
        if r > 0:
            r2, lat2, lon2 = (sc(t) for t in g.cart2geocentric(x, y, z))
            self.calls.append(("cart2geocentric", (x, y, z), (r2, lat2, lon2)))
            if not (abs(r2 - r) <= max(TOL_M * 1e-3, 1e-12 * r) and abs(lat2 - lat) <= TOL_DEG and abs(circ(lon2, lon)) <= TOL_DEG
                    and -180.0 <= lon2 <= 180.0):
                self.v(c, f"cart2geocentric(geocentric2cart({r!r},{lat!r},{lon!r})) = {(r2, lat2, lon2)}")

    # ------------------------------------------------------------------ position + line of sight
    def poslos(self, c, ans):
        g = self.g
        r, lat, lon, za, aa = c["r"], c["lat"], c["lon"], c["za"], c["aa"]
        p = [sc(t) for t in g.geocentricposlos2cart(r, lat, lon, za, aa)]
        self.calls.append(("geocentricposlos2cart", (r, lat, lon, za, aa), tuple(p)))
        o = ans[0]
        if not (math.dist(p[:3], o[:3]) <= 1e-9 * r and math.dist(p[3:], o[3:]) <= 1e-9):
            self.v(c, f"geocentricposlos2cart({r!r},{lat!r},{lon!r},{za!r},{aa!r}) = {p}, textbook (up/north/east) value {o}")
            return
        q = [sc(t) for t in g.cartposlos2geocentric(*p)]
        # azimuth = arccos(r dlat / sin za): the rounding error of its argument is ~ eps / sin^2(za) (za itself comes
        # from an arccos), and arccos amplifies by 1/|sin aa| (by a square root at aa = 0, +-180)
        dc = 2e-15 / max(math.sin(math.radians(za)) ** 2, 1e-300)
        saa = abs(math.sin(math.radians(aa)))
        tol_aa = max(TOL_DEG, math.degrees(dc / saa if saa > math.sqrt(dc) else 2 * math.sqrt(dc)))
        self.calls.append(("cartposlos2geocentric", tuple(p), tuple(q), (0.0, 0.0, 0.0, 0.0, 2 * tol_aa)))
        bad = []
        if not (abs(q[0] - r) <= 1e-9 * r and abs(q[1] - lat) <= TOL_DEG and abs(circ(q[2], lon)) <= TOL_DEG):
            bad.append(f"position {(q[0], q[1], q[2])}")
        if not abs(q[3] - za) <= TOL_DEG:
            bad.append(f"zenith angle {q[3]!r} vs {za!r}")
        if not min(abs(circ(q[4], aa)), 360.0) <= tol_aa:
            bad.append(f"azimuth angle {q[4]!r} vs {aa!r}")
        if bad:
            self.v(c, f"cartposlos2geocentric(geocentricposlos2cart({r!r},{lat!r},{lon!r},{za!r},{aa!r})): " + "; ".join(bad))

    # ------------------------------------------------------------------ distances
    def dist(self, c, ans):
        g, np = self.g, self.np
        (la1, lo1), (la2, lo2), (la3, lo3) = c["p"]
        R = 6.3781e6
        d12 = sc(g.great_circle_distance(la1, lo1, la2, lo2))
        d21 = sc(g.great_circle_distance(la2, lo2, la1, lo1))
        d23 = sc(g.great_circle_distance(la2, lo2, la3, lo3))
        d13 = sc(g.great_circle_distance(la1, lo1, la3, lo3))
        t12 = sc(g.tunnel_distance(la1, lo1, la2, lo2))
        t21 = sc(g.tunnel_distance(la2, lo2, la1, lo1))
        t23 = sc(g.tunnel_distance(la2, lo2, la3, lo3))
        t13 = sc(g.tunnel_distance(la1, lo1, la3, lo3))
        self.calls.append(("great_circle_distance", (la1, lo1, la2, lo2), d12, (2 * gcd_tol(d12),)))
        self.calls.append(("tunnel_distance", (la1, lo1, la2, lo2), t12))
        name = f"({la1!r},{lo1!r}),({la2!r},{lo2!r})"
        if d12 != d21:
            self.v(c, f"great_circle_distance not symmetric at {name}: {d12!r} vs {d21!r}")
        if t12 != t21:
            self.v(c, f"tunnel_distance not symmetric at {name}: {t12!r} vs {t21!r}")
        if (la1, lo1) == (la2, lo2) and (d12 != 0.0 or t12 != 0.0):
            self.v(c, f"distance of coincident points {name}: great circle {d12!r}, tunnel {t12!r}")
        if not (0.0 <= d12 <= 180.0 * (1 + 1e-15)):
            self.v(c, f"great_circle_distance{name} = {d12!r} outside [0, 180]")
        if not (0.0 <= t12 <= 2 * R * (1 + 1e-15)):
            self.v(c, f"tunnel_distance{name} = {t12!r} outside [0, 2R]")
        slack = 1e-9
        if not d13 <= (d12 + d23) * (1 + slack) + gcd_tol(d12) + gcd_tol(d23) + gcd_tol(d13):
            self.v(c, f"great_circle_distance violates the triangle inequality: d13={d13!r} > d12+d23={d12 + d23!r} for {c['p']}")
        if not t13 <= (t12 + t23) * (1 + slack) + 1e-8:
            self.v(c, f"tunnel_distance violates the triangle inequality: {t13!r} > {t12 + t23!r} for {c['p']}")
        # against the vector formula
        ang12 = ans[0][0]
        if not abs(d12 - math.degrees(ang12)) <= 1e-9 * d12 + gcd_tol(d12):
            self.v(c, f"great_circle_distance{name} = {d12!r} deg, vector formula gives {math.degrees(ang12)!r} deg")
        if not abs(t12 - ans[3][0]) <= 1e-9 * R:
            self.v(c, f"tunnel_distance{name} = {t12!r}, |p1-p2| R = {ans[3][0]!r}")
        # r given
        r = c["r"]
        if r is not None:
            dr = sc(g.great_circle_distance(la1, lo1, la2, lo2, r=r))
            self.calls.append(("great_circle_distance_r", (la1, lo1, la2, lo2, r), dr, (2 * r * math.radians(gcd_tol(d12)),)))
            if not abs(dr - r * math.radians(d12)) <= 1e-12 * r * max(math.radians(d12), 1e-300) + 1e-300:
                self.v(c, f"great_circle_distance(r={r!r}) = {dr!r} is not r times the angle {math.radians(d12)!r}")
            if not (0.0 <= dr <= math.pi * r * (1 + 1e-15)):
                self.v(c, f"great_circle_distance(r={r!r}) = {dr!r} exceeds half the circumference")
        # chord = 2 R sin(arc / 2R)   (well conditioned everywhere in this direction)
        arc = sc(g.great_circle_distance(la1, lo1, la2, lo2, r=R))
        chord = 2 * R * math.sin(arc / (2 * R))
        if not abs(t12 - chord) <= 1e-9 * max(t12, chord) + 1e-8:
            self.v(c, f"chord/arc mismatch at {name}: tunnel {t12!r}, 2R sin(arc/2R) = {chord!r}")
        # common longitude shift
        s = c["shift"]
        ds = sc(g.great_circle_distance(la1, lo1 + s, la2, lo2 + s))
        ts = sc(g.tunnel_distance(la1, lo1 + s, la2, lo2 + s))
        # the shifted longitudes are rounded: allow the corresponding arc (|lon| ulp) on top of 1e-9
        lonerr = math.radians(4 * 2.3e-16 * (abs(lo1) + abs(lo2) + 2 * abs(s)))
        if not abs(ds - d12) <= 1e-9 * max(d12, ds) + math.degrees(lonerr) + gcd_tol(d12) + gcd_tol(ds):
            self.v(c, f"great_circle_distance changes under a common longitude shift of {s!r}: {d12!r} -> {ds!r} at {name}")
        if not abs(ts - t12) <= 1e-9 * max(t12, ts) + R * lonerr + 1e-8:
            self.v(c, f"tunnel_distance changes under a common longitude shift of {s!r}: {t12!r} -> {ts!r} at {name}")
        # scalar / array / broadcast shapes
        A1, O1 = np.array([la1, la2, la3]), np.array([lo1, lo2, lo3])
        A2, O2 = np.array([[la2], [la3]]), np.array([[lo2], [lo3]])
        m = np.asarray(g.great_circle_distance(A1, O1, A2, O2))
        if m.shape != (2, 3) or abs(float(m[0, 0]) - d12) > 1e-12 * d12 + 2 * gcd_tol(d12):
            self.v(c, f"great_circle_distance with broadcast shapes (3,) x (2,1): shape {m.shape}, [0,0] = {float(m[0, 0]) if m.size else None!r} vs scalar {d12!r}")
        tv = np.asarray(g.tunnel_distance(A1, O1, np.array([la2, la3, la1]), np.array([lo2, lo3, lo1])))
        if tv.shape != (3,) or abs(float(tv[0]) - t12) > 1e-12 * R:
            self.v(c, f"tunnel_distance on arrays: shape {tv.shape}, [0] = {float(tv[0])!r} vs scalar {t12!r}")
        tb = np.asarray(g.tunnel_distance(la1, lo1, np.array([la2, la3]), np.array([lo2, lo3])))
        if tb.shape != (2,) or abs(float(tb[0]) - t12) > 1e-12 * R:
            self.v(c, f"tunnel_distance scalar x array: shape {tb.shape}, [0] = {float(tb[0])!r} vs scalar {t12!r}")

    # ------------------------------------------------------------------ arrays through the conversions
    def arrays(self, c, ans):
        g, np = self.g, self.np
        a, e = self.ell[c["model"]]
        pos = np.array(c["pos"]).reshape(3, c["k"], 3)
        H, LA, LO = pos[..., 0], pos[..., 1], pos[..., 2]
        X, Y, Z = g.geodetic2cart(H, LA, LO, (a, e))
        H2, LA2, LO2 = g.cart2geodetic(X, Y, Z, (a, e))
        R3, P3, L3 = g.geodetic2geocentric(H, LA, LO, (a, e))
        for idx in np.ndindex(H.shape):
            x, y, z = (sc(t) for t in g.geodetic2cart(float(H[idx]), float(LA[idx]), float(LO[idx]), (a, e)))
            if max(abs(x - X[idx]), abs(y - Y[idx]), abs(z - Z[idx])) > 1e-9 * a:
                self.v(c, f"geodetic2cart on a {H.shape} array differs from the scalar call at {idx}")
            self.roundtrip(c, f"array {H.shape} round trip at {idx}", (float(H2[idx]), float(LA2[idx]), float(LO2[idx])),
                           (float(H[idx]), float(LA[idx]), float(LO[idx])), e)
            r, p, l_ = (sc(t) for t in g.cart2geocentric(x, y, z))
            if abs(r - R3[idx]) > 1e-9 * a or abs(p - P3[idx]) > 1e-9 or abs(circ(l_, float(L3[idx]))) > 1e-9:
                self.v(c, f"geodetic2geocentric on a {H.shape} array differs from the scalar route at {idx}")
        # broadcasting: scalar height, column of latitudes, row of longitudes
        Xb, Yb, Zb = g.geodetic2cart(float(H[0, 0]), LA[:, :1], LO[:1, :], (a, e))
        if np.shape(Xb) != H.shape or np.shape(Zb) != H.shape or np.shape(Yb) != H.shape:
            self.v(c, f"geodetic2cart broadcast (scalar, {LA[:, :1].shape}, {LO[:1, :].shape}) gives shapes {np.shape(Xb)}, {np.shape(Yb)}, {np.shape(Zb)}")
        else:
            x, y, z = (sc(t) for t in g.geodetic2cart(float(H[0, 0]), float(LA[1, 0]), float(LO[0, 1]), (a, e)))
            if max(abs(x - Xb[1, 1]), abs(y - Yb[1, 1]), abs(z - Zb[1, 1])) > 1e-9 * a:
                self.v(c, "geodetic2cart broadcast element [1,1] differs from the scalar call")

    # ------------------------------------------------------------------ 2-D / mixed broadcast shapes, every function
    def shapes(self, c, ans):
        g, np = self.g, self.np
        a, e = self.ell[c["model"]]
        ell = (a, e)
        P = np.array(c["pos"])                     # (6, 3): h, lat, lon
        H, LA, LO = P[:, 0].reshape(2, 3), P[:, 1].reshape(2, 3), P[:, 2].reshape(2, 3)
        col, row = LA[:, :1], LO[:1, :]            # (2,1) x (1,3) -> (2,3)
        R = 6.3781e6

        def close(name, arr, want, tol, shape=(2, 3), bcast=False):
            arr = np.asarray(arr)
            if bcast and arr.shape != shape:
                try:            # z of geocentric2cart keeps the shape of lat: broadcast-compatible with x, y (noted in notes/C07.md)
                    arr = np.broadcast_to(arr, shape)
                except ValueError:
                    pass
            if arr.shape != shape:
                self.v(c, f"{name}: result shape {arr.shape}, expected {shape}")
                return False
            for idx in np.ndindex(shape):
                w = want(idx)
                if not abs(float(arr[idx]) - w) <= tol(w):
                    self.v(c, f"{name}: element {idx} = {float(arr[idx])!r}, scalar call gives {w!r}")
                    return False
            return True
        # distances: 2-D x 2-D, (2,1) x (1,3), scalar x 2-D, array-valued r
        d = g.great_circle_distance(LA, LO, LA[::-1], LO[::-1])
        close("great_circle_distance (2,3)x(2,3)", d, lambda i: sc(g.great_circle_distance(LA[i], LO[i], LA[::-1][i], LO[::-1][i])),
              lambda w: 1e-12 * w + 2 * gcd_tol(w))
        d = g.great_circle_distance(col, 10.0, 20.0, row, r=np.full((2, 3), 7e6))
        close("great_circle_distance (2,1),scalar,scalar,(1,3), r (2,3)", d,
              lambda i: sc(g.great_circle_distance(float(col[i[0], 0]), 10.0, 20.0, float(row[0, i[1]]), r=7e6)), lambda w: 1e-9 * w + 1e-2)
        t = g.tunnel_distance(LA, LO, LA[::-1], LO[::-1])
        close("tunnel_distance (2,3)x(2,3)", t, lambda i: sc(g.tunnel_distance(LA[i], LO[i], LA[::-1][i], LO[::-1][i])), lambda w: 1e-9 * R)
        t = g.tunnel_distance(col, 10.0, 20.0, row)
        close("tunnel_distance (2,1),scalar,scalar,(1,3)", t,
              lambda i: sc(g.tunnel_distance(float(col[i[0], 0]), 10.0, 20.0, float(row[0, i[1]]))), lambda w: 1e-9 * R)
        t = g.tunnel_distance(float(LA[0, 0]), float(LO[0, 0]), LA, LO)
        close("tunnel_distance scalar x (2,3)", t, lambda i: sc(g.tunnel_distance(float(LA[0, 0]), float(LO[0, 0]), LA[i], LO[i])), lambda w: 1e-9 * R)
        # conversions with broadcast arguments
        X, Y, Z = g.geodetic2cart(float(H[0, 0]), col, row, ell)
        for nm, arr, k in (("x", X, 0), ("y", Y, 1), ("z", Z, 2)):
            close(f"geodetic2cart(scalar,(2,1),(1,3)).{nm}", arr,
                  lambda i, k=k: sc(g.geodetic2cart(float(H[0, 0]), float(col[i[0], 0]), float(row[0, i[1]]), ell)[k]), lambda w: 1e-9 * a)
        if np.shape(X) == (2, 3) == np.shape(Y) == np.shape(Z):
            H2, LA2, LO2 = g.cart2geodetic(X, Y, Z, ell)
            for idx in np.ndindex(2, 3):
                self.roundtrip(c, f"cart2geodetic on (2,3) arrays at {idx}", (float(np.asarray(H2)[idx]), float(np.asarray(LA2)[idx]), float(np.asarray(LO2)[idx])),
                               (float(H[0, 0]), float(col[idx[0], 0]), float(row[0, idx[1]])), e)
            Rr, Pp, Ll = g.cart2geocentric(X, Y, Z)
            Xb, Yb, Zb = g.geocentric2cart(Rr, Pp, Ll)
            if not (np.shape(Xb) == (2, 3) and float(np.max(np.sqrt((Xb - X) ** 2 + (Yb - Y) ** 2 + (Zb - Z) ** 2))) <= TOL_M):
                self.v(c, "geocentric2cart(cart2geocentric(.)) on (2,3) arrays is not the identity to 1 cm")
            G1 = g.geodetic2geocentric(float(H[0, 0]), col, row, ell)
            close("geodetic2geocentric(scalar,(2,1),(1,3)).r", G1[0], lambda i: float(np.asarray(Rr)[i]), lambda w: TOL_M)
            G2 = g.geocentric2geodetic(Rr, Pp, Ll, ell)
            close("geocentric2geodetic (2,3).lat", G2[1], lambda i: float(np.asarray(LA2)[i]), lambda w: TOL_DEG)
        Xc, Yc, Zc = g.geocentric2cart(7e6, col, row)
        close("geocentric2cart(scalar,(2,1),(1,3)).z", Zc, lambda i: sc(g.geocentric2cart(7e6, float(col[i[0], 0]), float(row[0, i[1]]))[2]), lambda w: 1e-8, bcast=True)
        close("geocentric2cart(scalar,(2,1),(1,3)).x", Xc, lambda i: sc(g.geocentric2cart(7e6, float(col[i[0], 0]), float(row[0, i[1]]))[0]), lambda w: 1e-8)
        # position + LOS: 2-D arrays, (2,1) x (1,3) broadcast, scalars mixed with 1-D arrays (2-D: fixed by 561fd48)
        lat2 = np.clip(LA, -88, 88)
        lon2 = np.vectorize(lambda v: circ(v, 0.0))(LO)
        za2 = 5.0 + np.abs(H) % 170.0
        aa2 = np.vectorize(lambda v: circ(v * 0.97, 0.0))(LO[::-1])
        P2 = g.geocentricposlos2cart(np.full((2, 3), 7e6), lat2, lon2, za2, aa2)
        for k in range(6):
            close(f"geocentricposlos2cart on (2,3) arrays [{k}]", P2[k],
                  lambda i, k=k: sc(g.geocentricposlos2cart(7e6, float(lat2[i]), float(lon2[i]), float(za2[i]), float(aa2[i]))[k]),
                  lambda w, k=k: 1e-8 if k < 3 else 1e-14)
        if all(np.shape(t) == (2, 3) for t in P2):
            Q2 = g.cartposlos2geocentric(*P2)
            close("cartposlos2geocentric on (2,3) arrays: za", Q2[3], lambda i: float(za2[i]), lambda w: TOL_DEG)
            close("cartposlos2geocentric on (2,3) arrays: lat", Q2[1], lambda i: float(lat2[i]), lambda w: TOL_DEG)
        P3 = g.geocentricposlos2cart(7e6, lat2[:, :1], lon2[:1, :], 60.0, 70.0)
        close("geocentricposlos2cart(scalar,(2,1),(1,3),scalar,scalar)[2]", P3[2],
              lambda i: sc(g.geocentricposlos2cart(7e6, float(lat2[i[0], 0]), float(lon2[0, i[1]]), 60.0, 70.0)[2]), lambda w: 1e-8)
        lat1 = np.clip(LA[0], -88, 88)
        lon1 = np.array([circ(v, 0.0) for v in LO[0]])
        za, aa = 10.0 + abs(float(H[0, 1])) % 160.0, circ(float(LO[1, 1]) * 0.97, 0.0)
        p = g.geocentricposlos2cart(7e6, lat1, lon1, za, aa)
        for k in range(6):
            close(f"geocentricposlos2cart(scalar,(3,),(3,),scalar,scalar)[{k}]", p[k],
                  lambda i, k=k: sc(g.geocentricposlos2cart(7e6, float(lat1[i[0]]), float(lon1[i[0]]), za, aa)[k]), lambda w: 1e-8 if k < 3 else 1e-14, (3,))
        q = g.cartposlos2geocentric(p[0], p[1], p[2], p[3], p[4], p[5])
        close("cartposlos2geocentric on (3,) arrays: za", q[3], lambda i: za, lambda w: TOL_DEG, (3,))
        q1 = g.cartposlos2geocentric(p[0][:1], p[1][:1], p[2][:1], float(p[3][0]), float(p[4][0]), float(p[5][0]))
        close("cartposlos2geocentric array position x scalar direction: za", q1[3], lambda i: za, lambda w: TOL_DEG, (1,))

    # ------------------------------------------------------------------ AT the special values: poles, zenith, nadir, N-S
    def special(self, c, ans):
        g, np = self.g, self.np
        r, lat, lon, za, aa = c["r"], c["lat"], c["lon"], c["za"], c["aa"]
        p = [sc(t) for t in g.geocentricposlos2cart(r, lat, lon, za, aa)]
        self.calls.append(("geocentricposlos2cart", (r, lat, lon, za, aa), tuple(p)))
        if not all(math.isfinite(v) for v in p):
            self.v(c, f"geocentricposlos2cart({r!r},{lat!r},{lon!r},{za!r},{aa!r}) = {p} is not finite")
            return
        if not (abs(math.sqrt(sum(v * v for v in p[:3])) - r) <= 1e-9 * r and abs(math.sqrt(sum(v * v for v in p[3:])) - 1) <= 1e-12):
            self.v(c, f"geocentricposlos2cart({r!r},{lat!r},{lon!r},{za!r},{aa!r}) = {p}: |position| != r or |direction| != 1")
        q = [sc(t) for t in g.cartposlos2geocentric(*p)]
        if not all(math.isfinite(v) for v in q):
            self.v(c, f"cartposlos2geocentric(geocentricposlos2cart({r!r},{lat!r},{lon!r},{za!r},{aa!r})) = {q} is not finite")
            return
        # zenith angle through arccos: sqrt(eps) near 0 / 180
        tol_za = max(TOL_DEG, math.degrees(2 * math.sqrt(4e-16))) if min(za, 180 - za) < 1e-3 else TOL_DEG
        if not (abs(q[0] - r) <= 1e-9 * r and abs(q[1] - lat) <= 1e-6 and abs(q[3] - za) <= tol_za and -180 <= q[2] <= 180 and -180 <= q[4] <= 180):
            self.v(c, f"cartposlos2geocentric(geocentricposlos2cart({r!r},{lat!r},{lon!r},{za!r},{aa!r})) = {q}")
        if abs(lat) == 90.0 and 1.0 < za < 179.0 and not abs(circ(q[4], aa)) <= 1e-6:
            self.v(c, f"at the pole the azimuth is not recovered: {q[4]!r} vs {aa!r} for {c}")
        # a (2,) array whose elements all take the same special branch: forward function agrees with the scalar call
        # (the inverse raises for arrays of size >= 2 whose elements are ALL singular or mixed singular/regular — outside the
        # claim "away from the singular cases", noted in notes/C07.md)
        pa = g.geocentricposlos2cart(np.array([r, r]), np.array([lat, lat]), np.array([lon, lon]), np.array([za, za]), np.array([aa, aa]))
        if any(abs(float(np.asarray(t)[1]) - v) > 1e-9 * max(abs(v), 1.0) for t, v in zip(pa, p)):
            self.v(c, f"geocentricposlos2cart on a (2,) array differs from the scalar call at the special point {c}")
        regular = abs(lat) < 90 - 1e-8 and 1e-6 < q[3] < 180 - 1e-6
        if regular:
            qa = g.cartposlos2geocentric(*pa)
            if any(abs(circ(float(np.asarray(t)[1]), v)) > 1e-9 * max(abs(v), 1.0) + 1e-9 for t, v in zip(qa, q)):
                self.v(c, f"cartposlos2geocentric on a (2,) array differs from the scalar call at {c}")

    # ------------------------------------------------------------------ optional hints (lat0 … aa0), ppc, **kwargs
    def hints(self, c, ans):
        """the optional arguments (ppc, lat0 … aa0, **kwargs) are outside the property's claim (coordinator's decision; the
        azimuth is not computed in the hint branch and ppc gives 180 - za above 90 deg, see notes/C07.md): these paths are
        exercised for no exception, result shape and the POSITION they return, nothing is said about za / aa"""
        g, np = self.g, self.np
        A = lambda v: np.array([v])                                   # noqa: E731
        r, lat, lon, za, aa = c["r"], c["lat"], c["lon"], c["za"], c["aa"]
        p = [sc(t) for t in g.geocentricposlos2cart(r, lat, lon, za, aa)]
        ppc = r * math.sin(math.radians(za))

        def position_ok(q, what, shape=(1,)):
            if any(np.shape(t) != shape for t in q):
                self.v(c, f"{what}: result shapes {[np.shape(t) for t in q]}, expected {shape}")
                return
            q = [sc(t) for t in q]
            if not (abs(q[0] - r) <= 1e-9 * r and abs(q[1] - lat) <= TOL_DEG and abs(circ(q[2], lon)) <= TOL_DEG):
                self.v(c, f"{what}: position {q[:3]} for r,lat,lon = {(r, lat, lon)}")
        position_ok(g.cartposlos2geocentric(*p, ppc=ppc), "cartposlos2geocentric(ppc=r sin za)")
        position_ok(g.cartposlos2geocentric(*p, lat0=lat, lon0=lon, za0=za, aa0=aa), "cartposlos2geocentric with scalar hints")
        position_ok(g.cartposlos2geocentric(*[A(v) for v in p], ppc=A(ppc), lat0=A(lat), lon0=A(lon), za0=A(za), aa0=A(aa)),
                    "cartposlos2geocentric with ppc and array hints")
        F = lambda v: np.full((2, 2), v)                              # noqa: E731
        position_ok(g.cartposlos2geocentric(*[F(v) for v in p], ppc=ppc, lat0=lat, lon0=F(lon), za0=za, aa0=aa),
                    "cartposlos2geocentric with (2,2) arrays and hints", (2, 2))
        r3 = g.cart2geocentric(A(p[0]), A(p[1]), A(p[2]), A(lat), A(lon), A(za), A(aa))
        if not (abs(sc(r3[0]) - r) <= 1e-9 * r and abs(sc(r3[1]) - lat) <= TOL_DEG and abs(circ(sc(r3[2]), lon)) <= TOL_DEG):
            self.v(c, f"cart2geocentric with hints = {[sc(t) for t in r3]} for r,lat,lon = {(r, lat, lon)}")
        # **kwargs of geodetic2geocentric reach cart2geocentric: zenith hints return (lat0, lon0) literally
        a, e = self.ell["WGS84"]
        k = g.geodetic2geocentric(A(100.0), A(lat), A(lon), (a, e), lat0=A(12.5), lon0=A(-33.25), za0=A(0.0), aa0=A(0.0))
        if not (sc(k[1]) == 12.5 and sc(k[2]) == -33.25):
            self.v(c, f"geodetic2geocentric(..., lat0=12.5, lon0=-33.25, za0=0, aa0=0) = {(sc(k[0]), sc(k[1]), sc(k[2]))}: the hints were not passed on")
        k0 = g.geodetic2geocentric(A(100.0), A(lat), A(lon), (a, e))
        if not (abs(sc(k[0]) - sc(k0[0])) <= 1e-9 * a):
            self.v(c, "geodetic2geocentric with hints changes the radius")

    # ------------------------------------------------------------------ integer-typed and float32 arguments
    def dtypes(self, c, ans):
        """integer-valued points handed over as Python int, numpy integer scalars / arrays and float32 arrays: the result
        must be the one of the same call on float64 values (integers: to rounding, ~1e-12 relative; float32: to float32
        precision) and finite.  Lengths as int32 arrays are left out for the functions that square them (x**2 wraps
        around in int32 — numpy semantics, reported); bool angles are left out (np.radians(bool) is float16)."""
        g, np = self.g, self.np
        raw = self.raw_ell[c["model"]]                     # exactly what ellipsoidmodels()[m] returns (WGS84: int a)
        ellf = self.ell[c["model"]]
        h, lat, lon, r, za, aa = (int(c[k]) for k in ("h", "lat", "lon", "r", "za", "aa"))
        x, y, z = (int(round(sc(t))) for t in g.geodetic2cart(float(h), float(lat), float(lon), ellf))
        lat2, lon2 = int(c["lat2"]), int(c["lon2"])

        def flat(v):
            return [float(t) for a_ in (v if isinstance(v, (tuple, list)) else (v,)) for t in np.ravel(np.asarray(a_, dtype=float))]

        def conv(vals, how, lengths):
            out = []
            for i, v in enumerate(vals):
                if how == "pyint":
                    out.append(int(v))
                elif how == "npint":
                    out.append(np.int64(v))
                elif how == "int64arr":
                    out.append(np.array([v, v], dtype=np.int64))
                elif how == "int2d":
                    out.append(np.full((2, 2), v, dtype=np.int64))
                elif how == "int32arr":
                    out.append(np.array([v, v], dtype=np.int64 if i in lengths else np.int32))
                elif how == "firstint":                         # only the first argument (radius / height / x) is an integer
                    out.append(int(v) if i == 0 else float(v))
                elif how == "f32arr":
                    out.append(np.array([v, v], dtype=np.float32))
            return out
        funcs = [
            ("geodetic2cart", lambda a_, b_, c_: g.geodetic2cart(a_, b_, c_, raw), (h, lat, lon), {0}),
            ("cart2geodetic", lambda a_, b_, c_: g.cart2geodetic(a_, b_, c_, raw), (x, y, z), {0, 1, 2}),
            ("geodetic2geocentric", lambda a_, b_, c_: g.geodetic2geocentric(a_, b_, c_, raw), (h, lat, lon), {0}),
            ("geocentric2geodetic", lambda a_, b_, c_: g.geocentric2geodetic(a_, b_, c_, raw), (r, lat, lon), {0}),
            ("geocentric2cart", g.geocentric2cart, (r, lat, lon), {0}),
            ("cart2geocentric", g.cart2geocentric, (x, y, z), {0, 1, 2}),
            ("ellipsoid_r_geodetic", lambda a_: g.ellipsoid_r_geodetic(raw, a_), (lat,), set()),
            ("ellipsoid_r_geocentric", lambda a_: g.ellipsoid_r_geocentric(raw, a_), (lat,), set()),
            ("great_circle_distance", g.great_circle_distance, (lat, lon, lat2, lon2), set()),
            ("great_circle_distance(r)", lambda a_, b_, c_, d_, e_: g.great_circle_distance(a_, b_, c_, d_, r=e_), (lat, lon, lat2, lon2, r), {4}),
            ("tunnel_distance", g.tunnel_distance, (lat, lon, lat2, lon2), set()),
            ("geocentricposlos2cart", g.geocentricposlos2cart, (r, lat, lon, za, aa), {0}),
            ("geocentricposlos2cart(r = a of the model)", g.geocentricposlos2cart, (raw[0], lat, lon, za, aa), {0}),
        ]
        for name, f, vals, lengths in funcs:
            fvals = [float(v) for v in vals]
            ref = flat(f(*fvals))
            if name.startswith("geocentricposlos2cart"):
                q = flat(g.cartposlos2geocentric(*ref))           # the direction must survive the way back
                if not (all(math.isfinite(v) for v in q) and abs(q[3] - za) <= TOL_DEG):
                    self.v(c, f"cartposlos2geocentric(geocentricposlos2cart{tuple(fvals)}) = {q}")
            scale = max([1.0] + [abs(v) for v in ref] + [abs(v) for v in fvals])
            for how in ("pyint", "npint", "int64arr", "int2d", "int32arr", "firstint", "f32arr"):
                if how != "firstint" and any(isinstance(v, float) and v != int(v) for v in vals):
                    continue
                if how == "f32arr" and name in ("cart2geodetic", "geocentric2geodetic") and ellf[1] != 0 and not F32_ITERATION:
                    continue        # switched off by VERIF_C07_F32_ITER=0
                args = conv(vals, how, lengths)
                try:
                    if how == "f32arr" and name in ("cart2geodetic", "geocentric2geodetic"):
                        import signal

                        def _to(*_a):
                            raise TimeoutError("no result after 5 s")
                        old_h = signal.signal(signal.SIGALRM, _to)
                        signal.alarm(60)      # generous: only a genuine non-termination should ever reach it
                        try:
                            out = f(*args)
                        finally:
                            signal.alarm(0)
                            signal.signal(signal.SIGALRM, old_h)
                    else:
                        out = f(*args)
                    got = flat(out)
                except TimeoutError as ex:
                    self.v(c, f"{name} with float32 arrays at {tuple(vals)} does not terminate: {ex}", "cart2geodetic-float32-no-termination")
                    continue
                except Exception as ex:
                    self.v(c, f"{name}({', '.join(type(a_).__name__ + ':' + str(getattr(a_, 'dtype', '')) for a_ in args)}) at {tuple(vals)} raised {type(ex).__name__}: {ex}")
                    continue
                n = len(got) // len(ref) if ref else 1
                if len(got) != n * len(ref) or n == 0:
                    self.v(c, f"{name} [{how}] at {tuple(vals)}: {len(got)} result values, float64 call gives {len(ref)}")
                    continue
                angles = {"cart2geodetic": {1, 2}, "geodetic2geocentric": {1, 2}, "geocentric2geodetic": {1, 2},
                          "cart2geocentric": {1, 2}, "great_circle_distance": {0}}.get(name, set())
                units = {3, 4, 5} if name.startswith("geocentricposlos2cart") else set()      # components of the unit LOS vector
                if how == "f32arr":
                    tols = self.f32_tol(name, f, fvals, ref, angles, units)
                for i, w in enumerate(ref):
                    vs = got[i * n:(i + 1) * n]
                    ang = i in angles
                    if how == "f32arr":
                        t_ = tols[i]
                    elif name.startswith("great_circle_distance"):
                        # same float64 operations; never tighter than the conditioning of the haversine itself
                        t_ = 1e-10 + 2 * gcd_tol(ref[0] if name == "great_circle_distance" else 0.0) \
                            + (1e-12 * scale if name != "great_circle_distance" else 0.0)
                    else:
                        amp = 1.0 / max(math.cos(math.radians(min(abs(float(lat)), 89.9))), 1e-3)
                        t_ = 1e-10 * amp if ang else 1e-12 if i in units else 1e-12 * scale * amp
                    if not all(math.isfinite(v) and (abs(v - w) <= t_ or (ang and abs(circ(v, w)) <= t_)) for v in vs):
                        self.v(c, f"{name} with {how} arguments at {tuple(vals)}: result[{i}] = {vs}, with float64 arguments {w!r} (tolerance {t_:.3g})")
                        break
                if how in ("pyint", "firstint") and name.startswith("geocentricposlos2cart"):
                    q = flat(g.cartposlos2geocentric(*out))
                    if not (all(math.isfinite(v) for v in q) and abs(q[3] - za) <= TOL_DEG):
                        self.v(c, f"cartposlos2geocentric(geocentricposlos2cart{tuple(args)}) = {q} (zenith angle {za})")
        # more float32 points through the iteration (termination was a defect: a484b14): all under one alarm
        if ellf[1] != 0 and F32_ITERATION:
            import random
            import signal
            prng = random.Random(hash((h, lat, lon, r)) & 0xFFFFFFF)
            pts = []
            for _ in range(40):
                hh, la, lo = prng.randint(-10000, 1000000), prng.randint(-88, 88), prng.randint(-179, 180)
                pts.append(tuple(float(int(round(sc(t)))) for t in g.geodetic2cart(float(hh), float(la), float(lo), ellf)))

            def _to(*_a):
                raise TimeoutError("no result after 10 s")
            old_h = signal.signal(signal.SIGALRM, _to)
            cur = None
            try:
                signal.alarm(120)
                for cur in pts:
                    out = flat(g.cart2geodetic(*[np.array([v], dtype=np.float32) for v in cur], raw))
                    signal.alarm(120)
                    ref = flat(g.cart2geodetic(*cur, raw))
                    tl = self.f32_tol("cart2geodetic", lambda a_, b_, c_: g.cart2geodetic(a_, b_, c_, raw), list(cur), ref, {1, 2}, set())
                    if not all(math.isfinite(v) and (abs(v - w) <= t_ or (k > 0 and abs(circ(v, w)) <= t_)) for k, (v, w, t_) in enumerate(zip(out, ref, tl))):
                        self.v(c, f"cart2geodetic with float32 arrays at {cur} ({c['model']}) = {out}, with float64 arguments {ref}")
                        break
            except TimeoutError as ex:
                self.v(c, f"cart2geodetic(np.array([{cur[0]:.0f}], dtype=np.float32), np.array([{cur[1]:.0f}], dtype=np.float32), "
                          f"np.array([{cur[2]:.0f}], dtype=np.float32), {c['model']}) does not terminate: {ex}", "cart2geodetic-float32-no-termination")
            finally:
                signal.alarm(0)
                signal.signal(signal.SIGALRM, old_h)
        # cartposlos2geocentric with an integer position (int64: x**2 fits) and integer direction components
        d = (1, 2, -2)
        fv = [float(v) for v in (x, y, z) + d]
        ref = flat(g.cartposlos2geocentric(*fv))
        E32 = 2.0 ** -23
        for how in ("pyint", "int64arr", "f32arr"):
            got = flat(g.cartposlos2geocentric(*conv((x, y, z) + d, how, {0, 1, 2})))
            n = len(got) // len(ref)
            e_ = E32 if how == "f32arr" else 2.0 ** -50
            coslat = max(math.cos(math.radians(ref[1])), math.sqrt(e_))
            sinza = max(math.sin(math.radians(ref[3])), math.sqrt(e_))
            dc = 256 * e_ / sinza ** 2
            saa = abs(math.sin(math.radians(ref[4])))
            tl = [64 * e_ * abs(ref[0]), math.degrees(64 * e_ / coslat), math.degrees(64 * e_ / coslat), math.degrees(64 * e_ / sinza),
                  math.degrees(dc / saa if saa > math.sqrt(dc) else 2 * math.sqrt(dc))]
            for i, w in enumerate(ref):
                if not all(math.isfinite(v) and (abs(v - w) <= tl[i] + 1e-9 or abs(circ(v, w)) <= tl[i] + 1e-9) for v in got[i * n:(i + 1) * n]):
                    self.v(c, f"cartposlos2geocentric with {how} arguments at {(x, y, z) + d}: result[{i}] = {got[i * n:(i + 1) * n]}, float64: {w!r} (tolerance {tl[i]:.3g})")
                    break

    def f32_tol(self, name, f, fvals, ref, angles, units):
        """sound tolerance for the result of a call with float32 arguments against the float64 call, per result component:
        8 x the largest change of the float64 result under a one-ulp(float32) change of one argument (input rounding and
        its amplification: poles, date line, near-coincident points, heights as differences), plus the forward error of
        the float32 evaluation with its known conditioning (haversine / arcsin towards antipodal points and poles,
        cancellation in lengths), all with generous constants.  The property itself says nothing about float32."""
        np = self.np
        E32 = 2.0 ** -23

        def flat(v):
            return [float(t) for a_ in (v if isinstance(v, (tuple, list)) else (v,)) for t in np.ravel(np.asarray(a_, dtype=float))]
        sens = [0.0] * len(ref)
        for i, v in enumerate(fvals):
            ulp = float(np.spacing(np.float32(v))) if v != 0 else 0.0
            for sgn in (1.0, -1.0):
                if ulp == 0.0:
                    continue
                pv = list(fvals)
                pv[i] = v + sgn * ulp
                try:
                    with np.errstate(all="ignore"):
                        pr = flat(f(*pv))
                except Exception:
                    continue
                for k, (a_, b_) in enumerate(zip(pr, ref)):
                    dlt = abs(circ(a_, b_)) if k in angles else abs(a_ - b_)
                    if math.isfinite(dlt):
                        sens[k] = max(sens[k], dlt)
        lengths_in = max([abs(v) for v in fvals if abs(v) > 360.0] + [0.0])
        lengths_out = max([abs(w) for k, w in enumerate(ref) if k not in angles and k not in units] + [0.0])
        L = max(lengths_in, lengths_out, 1.0)
        out = []
        for k, w in enumerate(ref):
            t = 8 * sens[k] + 8 * E32 * abs(w)
            if name.startswith("great_circle_distance"):
                cdeg = ref[0] if name == "great_circle_distance" else math.degrees(ref[0] / max(fvals[4], 1e-300))
                cond = 32 * E32 / max(math.cos(math.radians(min(cdeg, 180.0)) / 2), math.sqrt(E32))     # radians
                t += math.degrees(cond) + 64 * E32 if name == "great_circle_distance" else (cond + 64 * E32) * fvals[4]
            elif k in angles:
                # latitude from arcsin / arctan: 1/cos(lat); longitude from arctan2: relative
                latlike = k == 1
                cl = max(math.cos(math.radians(min(abs(ref[1]), 90.0))), math.sqrt(E32)) if latlike else 1.0
                t += math.degrees(64 * E32 / cl)
            elif k in units:
                t += 256 * E32
            elif name == "tunnel_distance":
                t += 64 * E32 * 6.3781e6
            else:
                amp = 1.0
                if name in ("cart2geodetic", "geocentric2geodetic"):
                    amp = 1.0 / max(math.cos(math.radians(min(abs(ref[1]), 90.0))), 1e-2)     # dh/dlat = (N+h) tan(lat)
                t += 64 * E32 * L * amp
            out.append(t)
        return out

    # ------------------------------------------------------------------ memory layout of >= 2-d arguments
    def layout(self, c, ans):
        """the same VALUES in another memory layout (Fortran order, transposed view, strided slice of a bigger array,
        negative strides, read-only) for ONE argument at a time and for all of them: the result must be the one of the
        call on C-contiguous copies (to rounding: SIMD loops for strided data may differ in the last bits), the
        arguments must not be modified and a second call must repeat the result.  The C-contiguous call itself is tied
        to the scalar calls / the oracle by the kinds `shapes`, `arrays`, `geodetic`."""
        g, np = self.g, self.np
        raw = self.raw_ell[c["model"]]
        ellf = self.ell[c["model"]]
        P = np.array(c["pos"], dtype=float)                     # (12, 3): h, lat, lon — all different
        shp = tuple(c["shape"])
        H, LA, LO = (P[:, k].reshape(shp).copy() for k in range(3))
        ZA = (7.0 + 13.0 * np.arange(P.shape[0])).reshape(shp) % 166.0 + 7.0
        AA = np.array([circ(v * 1.7 + 11.0, 0.0) for v in P[:, 2]]).reshape(shp)
        LOc = np.vectorize(lambda v: circ(v, 0.0))(LO)
        R = 6.5e6 + np.abs(H)
        X, Y, Z = (np.array(t) for t in g.geodetic2cart(H, LA, LO, ellf))
        Pc = [np.array(t) for t in g.geocentricposlos2cart(R, LA, LOc, ZA, AA)]
        LA2, LO2 = LA[::-1, ...].copy(), LO[..., ::-1].copy()

        def relay(a, how):
            if how == "F":
                return np.asfortranarray(a)
            if how == "T":                                       # transposed view of a C-contiguous transpose
                return a.T.copy().T
            if how == "strided":
                big = np.full(tuple(2 * n + 1 for n in a.shape), -777.0)
                sl = tuple(slice(1, None, 2) for _ in a.shape)
                big[sl] = a
                return big[sl]
            if how == "negstride":
                sl = tuple(slice(None, None, -1) for _ in a.shape)
                return a[sl].copy()[sl]
            r_ = a.copy()
            r_.setflags(write=False)
            return r_
        funcs = [
            ("geodetic2cart", lambda a_, b_, c_: g.geodetic2cart(a_, b_, c_, raw), [H, LA, LO], 1e-9 * ellf[0]),
            ("cart2geodetic", lambda a_, b_, c_: g.cart2geodetic(a_, b_, c_, raw), [X, Y, Z], 1e-7),
            ("geodetic2geocentric", lambda a_, b_, c_: g.geodetic2geocentric(a_, b_, c_, raw), [H, LA, LO], 1e-8),
            ("geocentric2geodetic", lambda a_, b_, c_: g.geocentric2geodetic(a_, b_, c_, raw), [R, LA, LOc], 1e-7),
            ("geocentric2cart", g.geocentric2cart, [R, LA, LO], 1e-8),
            ("cart2geocentric", g.cart2geocentric, [X, Y, Z], 1e-8),
            ("ellipsoid_r_geodetic", lambda a_: g.ellipsoid_r_geodetic(raw, a_), [LA], 1e-8),
            ("ellipsoid_r_geocentric", lambda a_: g.ellipsoid_r_geocentric(raw, a_), [LA], 1e-8),
            ("great_circle_distance", g.great_circle_distance, [LA, LO, LA2, LO2], 1e-6),
            ("great_circle_distance(r)", lambda a_, b_, c_, d_, e_: g.great_circle_distance(a_, b_, c_, d_, r=e_), [LA, LO, LA2, LO2, R], 1.0),
            ("tunnel_distance", g.tunnel_distance, [LA, LO, LA2, LO2], 1e-8),
            ("geocentricposlos2cart", g.geocentricposlos2cart, [R, LA, LOc, ZA, AA], 1e-8),
            ("cartposlos2geocentric", g.cartposlos2geocentric, Pc, 1e-6),
        ]
        for name, f, args, atol in funcs:
            base_args = [np.ascontiguousarray(a).copy() for a in args]
            keep = [a.copy() for a in base_args]
            base = [np.array(t, dtype=float) for t in (lambda v: v if isinstance(v, (tuple, list)) else (v,))(f(*base_args))]
            if any(not np.array_equal(a, b) for a, b in zip(base_args, keep)):
                self.v(c, f"{name} modified an argument in place (shape {shp})", "argument-modified")
                continue
            again = [np.array(t, dtype=float) for t in (lambda v: v if isinstance(v, (tuple, list)) else (v,))(f(*base_args))]
            if any(not np.array_equal(u, v, equal_nan=True) for u, v in zip(base, again)):
                self.v(c, f"{name}: a second identical call returned a different result (shape {shp})", "not-repeatable")
                continue
            if any(t.shape != shp and name != "geocentric2cart" for t in base):
                self.v(c, f"{name}: result shapes {[t.shape for t in base]} for arguments of shape {shp}")
                continue
            done = False
            for how in ("F", "T", "strided", "negstride", "readonly"):
                for target in list(range(len(args))) + ["all"]:
                    la = [relay(a, how) if (target == "all" or target == i) else np.ascontiguousarray(a).copy() for i, a in enumerate(args)]
                    try:
                        out = f(*la)
                    except Exception as ex:
                        self.v(c, f"{name} raised {type(ex).__name__} for layout {how} of argument {target} (shape {shp}): {str(ex)[:120]}", "layout-raised")
                        done = True
                        break
                    out = [np.array(t, dtype=float) for t in (out if isinstance(out, (tuple, list)) else (out,))]
                    for k, (u, w) in enumerate(zip(out, base)):
                        if u.shape != w.shape:
                            bad = f"shape {u.shape} instead of {w.shape}"
                        else:
                            df = np.abs(u - w)
                            if name in ("cart2geodetic", "geodetic2geocentric", "geocentric2geodetic", "cart2geocentric", "cartposlos2geocentric") and k >= 1:
                                df = np.minimum(df, np.abs(360.0 - df))          # angles: modulo 360
                            ok = (df <= atol + 1e-12 * np.abs(w)) | (np.isnan(u) & np.isnan(w))
                            if bool(np.all(ok)):
                                continue
                            idx = tuple(int(t) for t in np.argwhere(~ok)[0])
                            bad = f"element {idx} = {float(u[idx])!r} instead of {float(w[idx])!r}"
                        self.v(c, f"{name}: argument {target} in memory layout {how} (same values, shape {shp}) changes result[{k}]: {bad}",
                               "layout-dependent")
                        done = True
                        break
                    if done:
                        break
                if done:
                    break

    def reject(self, c, ans):
        g = self.g
        for fn, args in ((g.geocentric2cart, (0.0, 10.0, 20.0)), (g.cart2geocentric, (0.0, 0.0, 0.0)),
                         (g.geodetic2cart, (0.0, 10.0, 20.0, (6378137.0, 1.0))), (g.cart2geodetic, (1e6, 2e6, 3e6, (6378137.0, -0.1))),
                         (g.ellipsoid_r_geodetic, ((6378137.0, 1.5), 10.0)), (g.ellipsoid_r_geocentric, ((6378137.0, -1e-9), 10.0)),
                         (g.geocentricposlos2cart, (0.0, 10.0, 20.0, 30.0, 40.0)), (g.geocentricposlos2cart, (7e6, 91.0, 20.0, 30.0, 40.0)),
                         (g.geocentricposlos2cart, (7e6, 10.0, 181.0, 30.0, 40.0)), (g.geocentricposlos2cart, (7e6, 10.0, 20.0, 181.0, 40.0)),
                         (lambda: g.ellipsoidmodels()["Vulcan"], ())):
            try:
                fn(*args)
                self.v(c, f"{getattr(fn, '__name__', 'ellipsoidmodels')}{args} was accepted")
            except Exception:
                pass
        # the table itself against the independent reference values
        if sorted(self.ell) != sorted(REF_ELL):
            self.v(c, f"ellipsoidmodels offers {sorted(self.ell)}, expected {sorted(REF_ELL)}")
        for m, (ra, re_) in REF_ELL.items():
            if m in self.ell and not (abs(self.ell[m][0] - ra) <= 1e-12 * ra and abs(self.ell[m][1] - re_) <= 1e-12):
                self.v(c, f"ellipsoidmodels['{m}'] = {self.ell[m]}, reference value {(ra, re_)}")
        self.calls.append(("geocentric2cart!rejects", (0.0, 10.0, 20.0), 1.0))
        self.calls.append(("geocentric2cart!rejects", (7e6, 10.0, 20.0), 0.0))
        self.calls.append(("cart2geocentric!rejects", (0.0, 0.0, 0.0), 1.0))
        self.calls.append(("geodetic2cart!rejects", (0.0, 10.0, 20.0, 6378137.0, 1.0), 1.0))
        self.calls.append(("geodetic2cart!rejects", (0.0, 10.0, 20.0, 6378137.0, 0.0), 0.0))
        self.calls.append(("cart2geodetic!rejects", (1e6, 2e6, 3e6, 6378137.0, -0.1), 1.0))
        self.calls.append(("ellipsoid_r_geodetic!rejects", (6378137.0, 1.5, 10.0), 1.0))
        self.calls.append(("geocentricposlos2cart!rejects", (7e6, 91.0, 20.0, 30.0, 40.0), 1.0))
        self.calls.append(("geocentricposlos2cart!rejects", (7e6, 10.0, 20.0, 30.0, 40.0), 0.0))
        for m in MODELS:
            self.calls.append((f"ellipsoidmodels.{m}", (), tuple(float(t) for t in self.ell[m])))
        for x in (0.0, 30.0, -45.0, 90.0, 123.456, 180.0, -270.0):
            self.calls.append(("sind", (x,), sc(g.sind(x))))
            self.calls.append(("cosd", (x,), sc(g.cosd(x))))


def run_cases(cases, oracle, ck=None):
    """returns (violations, calls): violations = [(signature, what, case)]"""
    import numpy as np
    from typhon import geodesy as g
    E = g.ellipsoidmodels()
    ell = {m: tuple(float(t) for t in E[m]) for m in E.models}
    J = Judge(g, np, ell)
    J.raw_ell = {m: E[m] for m in E.models}
    tasks, spans = [], []
    for c in cases:
        t = oracle_tasks(c, REF_ELL)
        spans.append((len(tasks), len(tasks) + len(t)))
        tasks += t
    ans = oracle(tasks)
    with np.errstate(all="ignore"):
        for c, (i, j) in zip(cases, spans):
            nv = len(J.viol)
            try:
                getattr(J, c["kind"])(c, ans[i:j])
            except vlib.InfraError:
                raise
            except Exception as ex:      # the real code raised inside the property's domain
                J.v(c, f"{c['kind']} case raised {type(ex).__name__}: {ex}")
            if ck is not None:
                key = None
                if c["kind"] in ("geodetic", "surface", "geocentric", "poslos"):
                    key = (c["kind"], c.get("model"), c.get("lat"), c.get("lon"), c.get("h", c.get("r")))
                elif c["kind"] == "dist" and c["p"][0] != c["p"][1]:
                    key = ("dist", tuple(map(tuple, c["p"])))
                kind = c["kind"] + ("/" + c["model"] if "model" in c else "")
                ck.case(key=key, kind=kind, sample={k: v for k, v in c.items() if k != "pos"} if nv == len(J.viol) else None)
        # second stage (oracle inverse at the computed cartesian points)
        t2, sp2 = [], []
        for c, t, cb in J.stage2:
            sp2.append((len(t2), len(t2) + len(t)))
            t2 += t
        a2 = oracle(t2)
        for (c, t, cb), (i, j) in zip(J.stage2, sp2):
            cb(a2[i:j])
    return J.viol, J.calls


def explore(ck, cases, oracle, xrun):
    viol, calls = run_cases(cases, oracle, ck)
    for sig, what, c in viol:
        ck.violation(sig, what, c)
    if xrun:
        float_cross(ck, calls)


def main():
    ck = vlib.Check(PROP, pkg=PKG, props="Proofs.Props.C07", more_props=["Proofs.Props.C07Conv"], driver=EXE,
                    lemma_files=["Proofs/Lemmas/Dist.lean", "Proofs/Lemmas/Conv.lean", "Proofs/Lemmas/Los.lean", "Proofs/Lemmas/Contract.lean"],
                    model_files=["GenReal/Geodesy.lean", "GenReal/Constants.lean"],
                    trusted=["tools/py2lean (translator): the emitted Lean term is the exact real-number reading of the Python expression "
                             "(np.arctan2 y x as Complex.arg ⟨x,y⟩, the while loop of cart2geodetic as whileLoop <stop test> <iteration map>, masked "
                             "assignments as pointwise if); validated each run by compiling the Float reading of the same AST and comparing it with "
                             "numpy on generated points (1e-9 relative on well-conditioned points)",
                             "floating-point evaluation, numpy broadcasting / masking / np.any over arrays are modelled pointwise, not verified "
                             "(scalar / array / broadcast agreement is exercised by the harness)",
                             "convergence of the cart2geodetic iteration (contraction 1/50, <= 9 passes) and the 1 cm / 1e-7 deg accuracy of "
                             "cart2geodetic(geodetic2cart(.)) are PROVED over the reals (Proofs/Props/C07Conv.lean: e^2 <= 0.012, |lat| <= 88 deg, "
                             "h >= -a/300); the same accuracy in FLOATING POINT and the other composed routes are validated by the oracle sweep "
                             "(mpmath, 40 digits) only; optional hint arguments (lat0, lon0, za0, aa0, ppc) are modelled as absent",
                             "pole / zenith special cases of the position+LOS functions are translated but carry no theorem"],
                    assumptions=["|lat| <= 88 deg, any lon, heights -10 km .. 1000 km, all six ellipsoid models of ellipsoidmodels",
                                 "zenith angles in [0.01, 179.99] deg, |lat| <= 88 deg for the position+LOS round trip"])
    ck.rule = ("positions: uniform latitude in [-88, 88] plus +-88, 0, band 86..88; longitudes uniform plus 0, +-180, +-179.9999999, beyond +-180; "
               "heights log-uniform 1 m..1000 km, negative to -10 km, 0; all six ellipsoids; distance pairs/triples incl. coincident, very close, "
               "antipodal; scalar, array and broadcast shapes; non-trivial = distinct (kind, model, position) / distinct non-coincident point triple")
    ck.anchors([("typhon/geodesy.py", n) for n in
                ("ellipsoidmodels", "sind", "cosd", "inrange", "ellipsoid_r_geocentric", "ellipsoid_r_geodetic", "cart2geocentric",
                 "geocentric2cart", "cart2geodetic", "geodetic2cart", "geodetic2geocentric", "geocentric2geodetic",
                 "great_circle_distance", "tunnel_distance", "cartposlos2geocentric", "geocentricposlos2cart", "_broadcast")]
               + [("typhon/constants.py", None)])
    regenerate(ck, NEEDED, PKG, "specs_geodesy")
    ck.build()
    xrun = True
    try:
        ck.driver(["sind 0"], exe=EXE)
    except vlib.InfraError:
        xrun = False
        ck.notes.append("Float driver not available (build broken): cross-run skipped")
        ck.disagree("Float driver drv_geo not built: no cross-run", {"kind": "xrun"})
    oracle = Oracle(ck)
    corpus = [obj["case"] for _, obj in vlib.load_corpus(PROP) if "case" in obj]
    explore(ck, corpus, oracle, xrun)
    explore(ck, gen_cases(ck.rng, ck.budget(1000, 100000)), oracle, xrun)
    ck.extra_cov["oracle"] = oracle.mode
    if ck.broken() and not [v for v in ck.violations if v["signature"] == "other"]:
        explore(ck, gen_cases(ck.rng, 12000), oracle, xrun=False)      # failing-input search, oracle only
    ck.finish()


def py_call(g, name, args):
    """the REAL function behind a Float-driver request (tuple parameters re-assembled); returns a tuple of floats"""
    import numpy as np
    args = [float(a) for a in args]
    if name.startswith("ellipsoidmodels."):
        return tuple(float(t) for t in g.ellipsoidmodels()[name.split(".", 1)[1]])
    rej = name.endswith("!rejects")
    name = name.replace("!rejects", "")
    ell_last = {"geodetic2cart": 3, "cart2geodetic": 3, "geodetic2geocentric": 3, "geocentric2geodetic": 3}
    if name in ("ellipsoid_r_geocentric", "ellipsoid_r_geodetic"):
        call = lambda: getattr(g, name)((args[0], args[1]), args[2])                       # noqa: E731
    elif name in ell_last:
        call = lambda: getattr(g, name)(*args[:3], (args[3], args[4]))                     # noqa: E731
    elif name == "great_circle_distance_r":
        call = lambda: g.great_circle_distance(*args[:4], r=args[4])                       # noqa: E731
    else:
        call = lambda: getattr(g, name)(*args)                                             # noqa: E731
    if rej:
        try:
            with np.errstate(all="ignore"):
                call()
            return (0.0,)
        except Exception:
            return (1.0,)
    with np.errstate(all="ignore"):
        v = call()
    return tuple(sc(t) for t in v) if isinstance(v, (tuple, list)) else (sc(v),)


def replay(path):
    obj = json.load(open(path))
    c = obj.get("case")
    print(json.dumps(c, indent=1), obj.get("what"))
    if not c:
        # no concrete input was found then: re-examine the recorded correspondence disagreements
        cs = [d["case"] for d in obj.get("correspondence_disagreements", []) if d.get("case", {}).get("kind") == "xrun" and "fn" in d["case"]]
        if not cs:
            raise SystemExit(0)
    else:
        cs = [c]
    if cs[0].get("kind") == "xrun":
        # model (compiled Float reading of the CURRENT generated files) against the real function, same doubles
        from typhon import geodesy as g
        ck = vlib.Check(PROP, pkg=PKG, props="Proofs.Props.C07", driver=EXE)
        calls = [(x["fn"], tuple(x["args"]), py_call(g, x["fn"], x["args"])) for x in cs]
        float_cross(ck, calls)
        for d in ck.disagreements:
            print(f"REPRODUCED: model and implementation differ: {d['what']}")
        raise SystemExit(1 if ck.disagreements else 0)
    viol, _ = run_cases(cs, Oracle())
    for sig, what, _c in viol:
        print(f"REPRODUCED: [{sig}] {what}")
    raise SystemExit(1 if viol else 0)
