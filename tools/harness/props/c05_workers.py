"""Importable reader / writer functions and the logging result queue for the C05 check.

They live in a module of their own so that worker processes (fork or spawn) and thread
pools can import / unpickle them.  Nothing here imports typhon's collocation code.

File format of the scratch filesets: one pickle per file holding a dict

    {"ids": int64[n], "time_ns": int64[n], "lat": float64[n], "lon": float64[n],
     "delay": seconds to sleep before returning (interleaving perturbation),
     "broken": True -> the reader raises IOError (unreadable file)}

The reader returns an xarray.Dataset with time/lat/lon/id on the dimension "obs" that
carries a *unique coordinate* (the ids) -- required by Collocator._prepare_data, which
selects by label.
"""
import pickle
import time

import numpy as np


class UnreadableFile(Exception):
    pass


def reader(file_info, **kwargs):
    import xarray as xr
    with open(file_info.path, "rb") as fh:
        d = pickle.load(fh)
    if d.get("delay"):
        time.sleep(d["delay"])
    if d.get("broken"):
        import multiprocessing
        if multiprocessing.parent_process() is not None:
            # keep the expected traceback of the crashing worker out of the check's output
            import os
            import sys
            sys.stderr = open(os.devnull, "w")
        raise UnreadableFile(f"harness: unreadable file {file_info.path}")
    ids = np.asarray(d["ids"], dtype="int64")
    ds = xr.Dataset(
        {
            "time": ("obs", np.asarray(d["time_ns"], dtype="int64").astype("M8[ns]")),
            "lat": ("obs", np.asarray(d["lat"], dtype="float64")),
            "lon": ("obs", np.asarray(d["lon"], dtype="float64")),
            "id": ("obs", ids.copy()),
        },
        coords={"obs": ids},
    )
    return ds


def writer(data, file_info, **kwargs):
    """writer of the input filesets (data is the dict described above)"""
    with open(file_info.path, "wb") as fh:
        pickle.dump(data, fh)


def out_reader(file_info, **kwargs):
    """reader of the output (collocations) fileset: the pickled xarray.Dataset"""
    with open(file_info.path, "rb") as fh:
        return pickle.load(fh)


def out_writer(data, file_info, **kwargs):
    """writer of the output fileset; logs every write (path) next to the file so that the
    harness can detect two results written to the same name"""
    data = data.load()
    with open(file_info.path, "wb") as fh:
        pickle.dump(data, fh)
    with open(file_info.path + ".writes", "a") as fh:
        fh.write("w\n")


# ------------------------------------------------------------------ logging queue
# collocate_filesets creates `Queue(maxsize=processes)` (results) and `Queue()` (errors) from
# the module-level name typhon.collocations.collocator.Queue.  The harness substitutes
# `make_queue`; the parent-side `get` of the results queue is logged.

GET_LOG = []          # parent side: [(worker name, progress, kind)] in the order of get()
RESULTS = []          # parent side: the raw result objects in the same order
PUT_DELAY = {"last": 0.0, "each": 0.0}   # child side: sleep before put (race perturbation)


def _make_queue_class():
    import multiprocessing
    import multiprocessing.queues

    class LoggingQueue(multiprocessing.queues.Queue):
        def __init__(self, maxsize=0):
            super().__init__(maxsize, ctx=multiprocessing.get_context())
            self._verif_results = maxsize > 0
            # the put delay travels with the queue object (pickled state), so it reaches the
            # workers under fork, spawn and forkserver alike
            self._verif_put_delay = PUT_DELAY["each"]

        def __getstate__(self):
            return super().__getstate__() + (self._verif_results, self._verif_put_delay)

        def __setstate__(self, state):
            super().__setstate__(state[:-2])
            self._verif_results, self._verif_put_delay = state[-2], state[-1]

        def put(self, obj, block=True, timeout=None):
            if self._verif_results and self._verif_put_delay:
                time.sleep(self._verif_put_delay)
            return super().put(obj, block, timeout)

        def get(self, block=True, timeout=None):
            item = super().get(block, timeout)
            if self._verif_results:
                GET_LOG.append(item)
            return item

    return LoggingQueue


_QCLS = None


def make_queue(maxsize=0):
    global _QCLS
    if _QCLS is None:
        _QCLS = _make_queue_class()
    return _QCLS(maxsize)


# ------------------------------------------------------------------ slow is_alive
# collocate_filesets creates its workers from the module-level name
# typhon.collocations.collocator.Process.  The harness substitutes a subclass whose
# `is_alive()` (called by the parent's `running` filter) first sleeps: this widens the window
# between the parent's `results.empty()` test and its liveness test, in which the last worker
# may put its final result and exit.
ALIVE_DELAY = {"s": 0.0}
_PCLS = None


def make_process_class():
    global _PCLS
    if _PCLS is None:
        import multiprocessing

        class SlowAliveProcess(multiprocessing.Process):
            def is_alive(self):
                if ALIVE_DELAY["s"]:
                    time.sleep(ALIVE_DELAY["s"])
                return super().is_alive()

        _PCLS = SlowAliveProcess
    return _PCLS
