"""C16 — indexing a fileset by a timestamp returns the covering or the nearest file.

Decided by: theorems in lean/find/Proofs/Props/C16.lean about the hand-written model
lean/find/Model/Closest.lean (on top of Model/Find.lean, C01) + correspondence of the
model's executable definitions (driver drv_c16) with FileSet.find_closest / __getitem__ on
real directory trees + an independent oracle (the covering-else-nearest rule evaluated
with Python datetimes over the harness's own list of created files).
"""
import datetime as dt
import json
import os
import shutil
import tempfile

import vlib
from props import findgen as G
from props import c01 as C1

PROP = "C16"
LEMMAS = ["Proofs/Lemmas/Time.lean", "Proofs/Lemmas/Find.lean", "Proofs/Lemmas/Spec.lean", "Proofs/Lemmas/Closest.lean"]
MODELS = ["Model/Time.lean", "Model/Find.lean", "Model/Closest.lean"]
ANCHORS = [("typhon/files/fileset.py", "FileSet." + n) for n in (
    "find_closest", "__getitem__", "find", "_get_search_dirs", "_check_placeholders", "_get_matching_files",
    "is_excluded", "get_filename", "path")] + [("typhon/trees.py", "IntervalTree.interval_contains")]


def new_check():
    return vlib.Check(
        PROP, pkg="find", props="Proofs.Props.C16", driver="drv_c16", lemma_files=LEMMAS, model_files=MODELS,
        trusted=["hand-written model lean/find/Model/Closest.lean (on Model/Find.lean, Model/Time.lean) tied to "
                 "FileSet.find_closest / __getitem__ by the correspondence run of this check (driver drv_c16: same template, "
                 "population, timestamp, filters, exclusion; error class and covering / end-point distance of the returned file must be equal)",
                 "which file carries the name get_filename(t) generates (exact-name short-cut, premise ExactOK) is supplied by the harness "
                 "from its own rendering of the template; the rendering is compared with the real get_filename(t) on every probe and the "
                 "named file's parsed coverage must contain t (name formatting / parsing themselves are C02: format, C02_start_roundtrip)",
                 "fsspec glob/isfile, numpy argmin over timedelta objects are modelled, not verified"],
        assumptions=["timestamps are given at the resolution of the file names (property text); other timestamps: model-vs-code only",
                     "templates as in C01; t +- sub-directory resolution must stay inside the datetime range (else OverflowError, agreed)",
                     "the neighbourhood is t +- _sub_dir_time_resolution as the code derives it (366 d for a directory part without "
                     "temporal placeholders, all time without directory part)"])


def exact_rel(tpl, t):
    """relative path get_filename(t) must produce for a single datetime (start = end = t), by the
    harness's own rendering; None when the code cannot fill the template (user placeholders, '*',
    {microsecond}: UnfilledPlaceholderError / UnknownPlaceholderError, swallowed by find_closest)"""
    if tpl.users() or tpl.n_stars() or t.year < 1000:
        return None
    if any(tok[0] == "f" and tok[1].endswith("microsecond") for toks in tpl.dir_tokens + [tpl.name_tokens] for tok in toks):
        return None
    return G.render(tpl, G.File(-1, t, t, {}, []))


def exact_file(tpl, files, t):
    """the file named get_filename(t), by the harness's own rendering"""
    rel = exact_rel(tpl, t)
    if rel is None:
        return None
    for f in files:
        if f.rel == rel:
            return f
    return None


def check_exact_name(ck, fs, root, ids, tpl, files, p, case):
    """ties the `exact` parameter of the model to the code: the real get_filename(t) — called with a
    SINGLE datetime, as find_closest does — must produce the name the harness renders, and when a
    file of that name exists its parsed coverage must contain t (for t at name resolution).  This
    is the premise `ExactOK` of the C16 theorems (C02: format + start round trip)."""
    t = p["t"]
    want = exact_rel(tpl, t)
    try:
        real = fs.get_filename(t)
    except Exception as e:  # noqa
        real = None
        if want is not None:
            ck.disagree(f"get_filename({G.iso(t)}) raised {type(e).__name__}, harness renders {'/'.join(want)} on '{tpl.text()}'", case)
            return
    if want is None:
        return
    ck.count("exact-name checks")
    wpath = os.path.join(root, *want)
    if real != wpath:
        ck.disagree(f"get_filename({G.iso(t)}) = '{os.path.relpath(real, root) if real else real}', harness renders '{'/'.join(want)}' on '{tpl.text()}'", case)
        return
    if real in ids and p["onres"]:
        info = fs.get_info(real)
        if not (info.times[0] <= t <= info.times[1]):
            ck.violation("exactname-not-covering", f"the file named get_filename({G.iso(t)}) = {'/'.join(want)} has coverage "
                         f"[{G.iso(info.times[0])}, {G.iso(info.times[1])}] which does not contain t on '{tpl.text()}'", case)


def gen_times(rng, tpl, files, n):
    unit = tpl.start_unit() if tpl.is_temporal() else "second"
    res = tpl.subdir_res()
    pts = []
    if files:
        fs = sorted(files, key=lambda f: (f.t0, f.t1))
        for _ in range(n):
            f = rng.choice(fs)
            kind = rng.choice(["start", "end", "inside", "after-end", "before-start", "gap", "first", "last", "far", "edge"])
            if kind == "start":
                t = f.t0
            elif kind == "end":
                t = f.t1
            elif kind == "inside":
                t = f.t0 + (f.t1 - f.t0) / 2
            elif kind == "after-end":
                t = C1.sadd(f.t1, dt.timedelta(microseconds=G.UNIT_US[unit]))
            elif kind == "before-start":
                t = C1.sadd(f.t0, -dt.timedelta(microseconds=G.UNIT_US[unit]))
            elif kind == "gap":
                g = rng.choice(fs)
                a, b = min(f.t1, g.t0), max(f.t1, g.t0)
                t = a + (b - a) / 2
            elif kind == "first":
                t = C1.sadd(fs[0].t0, -rng.choice([dt.timedelta(hours=1), dt.timedelta(days=2), dt.timedelta(days=45), dt.timedelta(days=400)]))
            elif kind == "last":
                t = C1.sadd(max(x.t1 for x in fs), rng.choice([dt.timedelta(hours=1), dt.timedelta(days=2), dt.timedelta(days=45), dt.timedelta(days=400)]))
            elif kind == "far":
                t = C1.sadd(f.t0, rng.choice([-1, 1]) * dt.timedelta(days=rng.choice([800, 5000])))
            else:   # exactly one sub-directory period away from a boundary of the file
                d = res if res is not None else dt.timedelta(days=1)
                t = C1.sadd(rng.choice([f.t0, f.t1]), rng.choice([-1, 1]) * d + rng.choice([-1, 0, 1]) * dt.timedelta(microseconds=G.UNIT_US[unit]))
            if t is None or not (dt.datetime(2, 1, 1) < t < dt.datetime(9997, 1, 1)):
                continue
            onres = rng.random() < 0.85
            if onres:
                t = G.trunc_unit(t, unit)
            pts.append((t, kind, onres))
    else:
        o = G.gen_origin(rng, tpl)
        pts = [(G.trunc_unit(o, unit), "empty", True)]
    return pts


def dist(f, t):
    return min(abs(f.t0 - t), abs(f.t1 - t))


def run_population(ck, rng, scratch, tpl, files, time_cov, probes, use_model=True, tag="gen", ddirs=None, spelling=None):
    from typhon.files import FileSet
    from typhon.files.handlers.common import FileHandler
    root = tempfile.mkdtemp(dir=scratch)
    cwd0 = os.getcwd()
    if spelling is None:       # how the user wrote the template: absolute, or relative to the working directory
        spelling = rng.choice(G.SPELLINGS)
    try:
        os.chdir(root)         # relative templates are resolved against the working directory on every access
        if ddirs is None:
            ddirs = G.decoy_dirs(rng, tpl, files, rng.choice([0, 1, 3]))
        ids = G.build_tree(root, tpl, files, rng, ddirs=ddirs)
        # empty directories: a rendered directory chain without any file in it
        for p in probes:
            if p.get("emptydir") and tpl.dirs and tpl.is_temporal():
                fake = G.File(-1, p["t"], p["t"], {u: G.USER_VALUES[u][0] for u in tpl.users()}, ["x"] * tpl.n_stars())
                os.makedirs(os.path.join(root, *G.render(tpl, fake)[:-1]), exist_ok=True)
        make = lambda **kw: G.make_fileset(root, tpl, time_cov, spelling=spelling,
                                           handler=FileHandler(reader=lambda info, **kw2: os.fspath(info)), **kw)
        fs0 = make()
        fs = fs0
        paths_of = {i: p for p, i in ids.items()}
        honour = G.honours(tpl, files)
        base_case = {"op": "closest", "template": tpl.to_json(), "files": [f.to_json() for f in files],
                     "time_cov_us": None if time_cov is None else time_cov // G.US, "decoy_dirs": ddirs, "spelling": spelling}
        for f in files:
            try:
                info = fs.get_info(paths_of[f.id])
                got = (info.times[0], info.times[1])
            except Exception as e:  # noqa
                got = f"{type(e).__name__}: {e}"
            if got != (f.t0, f.t1):      # find_closest then works on a wrong coverage: the oracle below judges by the stated one
                ck.count("coverage-parse-mismatch")
                if len(ck.notes) < 20:
                    ck.notes.append(f"coverage parsed from {'/'.join(f.rel)} under {tpl.text()} is {got}, the name states {(f.t0, f.t1)}")
        ordered = G.traversal_sorted(tpl, files)
        lines = [tpl.layout_line(), "clear"] + [G.file_line(tpl, f) for f in ordered]
        nhead = len(lines)
        pidx = []
        for p in probes:
            lines += C1.excl_lines(p)
            ex = exact_file(tpl, files, p["t"])
            w, bl = G.filter_tokens(p["filters"])
            pidx.append(len(lines))
            lines.append(f"closest {G.us(p['t'])} {int(p['filters'] is not None)} {w} {bl} {'-' if ex is None else ex.id}")
        out = ck.driver(lines) if use_model else None
        if out is not None:
            bad = [o for o in out[:nhead] if not o.startswith("ok")]
            if bad:
                raise vlib.InfraError(f"driver rejected input: {bad[0]} ({tpl.text()})")
        res = tpl.subdir_res()
        byid = {f.id: f for f in files}
        for k, p in enumerate(probes):
            t = p["t"]
            case = dict(base_case, probe=dict(C1.query_json(dict(p, start=None, end=None)), t=G.iso(t)))
            fs = C1.excluded_fileset(fs0, make, p, paths_of)      # methods, or constructor argument exclude=[…]
            check_exact_name(ck, fs, root, ids, tpl, files, p, case)
            targ = t.isoformat(sep=" ") if p.get("as_str") else t       # the API also takes time strings
            try:
                if p["via"] == "getitem":
                    r = fs[targ] if p["filters"] is None else fs[targ, p["filters"]]
                else:
                    r = fs.find_closest(targ, filters=p["filters"])
                got = "none" if r is None else "ok " + str(G.file_id(ids, r))
            except Exception as e:  # noqa
                got = "err " + G.err_class(e)
                if os.environ.get("VERIF_DEBUG") and got.startswith("err other"):
                    import traceback
                    traceback.print_exc()
            # ---- oracle
            applicable = honour and p["onres"] and G.black_prefix_free(files, p["filters"]) and got != "err overflow"
            nwin = -1
            if applicable:
                if res is None:
                    s, e = None, None
                else:
                    s, e = C1.sadd(t, -res), C1.sadd(t, res)
                    if s is None or e is None:
                        applicable = False
            if applicable:
                W = G.select(files, s, e, set(p["xnames"]), p["xtimes"], p["filters"])
                nwin = len(W)
                cov = [f for f in W if f.t0 <= t <= f.t1]
                what = None
                if not W:
                    if got not in ("err noFiles", "none"):
                        what = f"no file in the neighbourhood of {G.iso(t)} but find_closest gave {got}"
                elif not got.startswith("ok "):
                    what = f"find_closest({G.iso(t)}) gave {got}; {len(W)} files are in the neighbourhood"
                else:
                    f = byid[int(got[3:])]
                    if f not in W:
                        what = f"find_closest({G.iso(t)}) returned {'/'.join(f.rel)} which is excluded, filtered out or outside t +- {res}"
                    elif cov and not (f.t0 <= t <= f.t1):
                        what = f"find_closest({G.iso(t)}) returned {'/'.join(f.rel)} [{G.iso(f.t0)}, {G.iso(f.t1)}] although {'/'.join(cov[0].rel)} covers t"
                    elif not cov and dist(f, t) != min(dist(g, t) for g in W):
                        best = min(W, key=lambda g: dist(g, t))
                        what = f"find_closest({G.iso(t)}) returned {'/'.join(f.rel)} at distance {dist(f, t)}, {'/'.join(best.rel)} is at {dist(best, t)}"
                if what:
                    ex = exact_file(tpl, files, t)
                    hit_exact = ex is not None and got == f"ok {ex.id}" and \
                        (G.is_excluded(ex, set(p["xnames"]), p["xtimes"]) or not G.passes_filters(ex, p["filters"]))
                    sig = "closest-shortcut-excluded" if hit_exact else "other"
                    ck.violation(sig, what + f" on '{tpl.text()}'", case)
            kindk = f"{tag}{'' if spelling == 'abs' else '-relpath'}/{p['kind']}/{'onres' if p['onres'] else 'offres'}/{p['via']}/" + \
                    ("err-" + got[4:] if got.startswith("err") else ("none" if got == "none" else
                     ("covering" if byid[int(got[3:])].t0 <= t <= byid[int(got[3:])].t1 else "nearest")))
            ck.case(key=(tpl.text(), G.us(t), json.dumps(case["probe"], sort_keys=True), len(files)) if (got.startswith("ok") and len(files) > 1) else None,
                    kind=kindk, sample={"template": tpl.text(), "files": len(files), "t": G.iso(t), "filters": p["filters"], "answer": got, "window_files": nwin})
            if out is not None:
                m = out[pidx[k]].strip()
                code = "err noFiles" if got == "none" else got

                def judged(ans):
                    # what the property fixes of an answer: covering or not, else the end-point distance
                    if not ans.startswith("ok "):
                        return ans
                    f = byid[int(ans[3:])]
                    return ("covering",) if f.t0 <= t <= f.t1 else ("nearest", dist(f, t))
                if judged(m) != judged(code):
                    ck.disagree(f"find_closest({G.iso(t)}): model '{m}' vs code '{got}' on '{tpl.text()}'", case)
                elif m != code:
                    ck.count("diagnostic/another-covering-or-equidistant-file")
    finally:
        os.chdir(cwd0)
        shutil.rmtree(root, ignore_errors=True)


def gen_probes(rng, tpl, files, n):
    probes = []
    pts = C1.boundary_times(rng, tpl, files) if files else []
    for t, kind, onres in gen_times(rng, tpl, files, n):
        xn, xt = C1.gen_excludes(rng, files, pts)
        # exclusion of the very file that would be hit
        if files and rng.random() < 0.15:
            hit = [f for f in files if f.t0 <= t <= f.t1]
            if hit:
                xn = sorted(set(xn) | {rng.choice(hit).id})
        probes.append({"t": t, "kind": kind, "onres": onres, "filters": C1.gen_filters(rng, tpl, files) if rng.random() < 0.5 else None,
                       "xnames": xn, "xtimes": xt, "via": rng.choice(["find_closest", "find_closest", "getitem"]),
                       "emptydir": rng.random() < 0.2, "sort": False, "bundle": None, "nferr": True, "only_path": False,
                       "as_str": rng.random() < 0.15 and 1700 < t.year < 2250, "excl_ctor": rng.random() < 0.4})
    return probes


def run_single(ck, scratch, case, use_model=True):
    """find_closest on a single-file fileset described by `case` (also used by --replay)"""
    from typhon.files import FileSet
    root = tempfile.mkdtemp(dir=scratch)
    try:
        p = os.path.join(root, "one.dat")
        exists = case["exists"]
        if exists:
            open(p, "w").close()
        fs = FileSet(p)
        t = G.from_iso(case["t"])
        try:
            r = fs.find_closest(t.isoformat(sep=" ") if case.get("as_str") else t)
            got = "ok the-file" if os.fspath(r) == p else f"other:{r}"
        except Exception as e:  # noqa
            got = "err " + G.err_class(e)
        want = "ok the-file" if exists else "err valueError"
        ck.case(kind="single/" + got.replace(" ", "-"))
        if got != want:
            ck.violation("other", f"single-file fileset find_closest({case['t']}) = {got}, expected {want}", case)
        if use_model:
            m = ck.driver([f"csingle {int(exists)} {G.us(t)}"])[0]
            if m != got:
                ck.disagree(f"csingle: model '{m}' vs code '{got}'", case)
    finally:
        shutil.rmtree(root, ignore_errors=True)


def single_cases(ck, rng, scratch, use_model=True):
    t = G.gen_origin(rng, G.Template([], "{year}.dat"))
    run_single(ck, scratch, {"op": "csingle", "exists": rng.random() < 0.8, "t": G.iso(t),
                             "as_str": rng.random() < 0.3 and 1700 < t.year < 2250}, use_model)


def run_case_json(ck, c, scratch, use_model=True):
    import random
    if c.get("op") == "csingle":
        run_single(ck, scratch, c, use_model)
        return
    if c.get("op") != "closest":
        return
    tpl = G.Template.from_json(c["template"])
    files = G._dedupe(tpl, [G.File.from_json(o) for o in c["files"]])
    tc = None if c.get("time_cov_us") is None else dt.timedelta(microseconds=c["time_cov_us"])
    probes = []
    for o in ([c["probe"]] if c.get("probe") else []) + c.get("probes", []):
        p = C1.query_from_json(o)
        p["t"] = G.from_iso(o["t"])
        probes.append(p)
    run_population(ck, random.Random(0), scratch, tpl, files, tc, probes, use_model, tag="corpus", ddirs=c.get("decoy_dirs") or [], spelling=c.get("spelling", "abs"))


def explore(ck, n, scratch, use_model=True):
    rng = ck.rng
    for i in range(n):
        tpl = G.gen_template(rng)
        honour = rng.random() < 0.85
        files, tc = G.gen_population(rng, tpl, honour, max_files=rng.choice([6, 15, 40]))
        probes = gen_probes(rng, tpl, files, rng.choice([4, 8, 12]))
        run_population(ck, rng, scratch, tpl, files, tc, probes, use_model)
        if i % 10 == 0:
            single_cases(ck, rng, scratch, use_model)


def main():
    ck = new_check()
    ck.rule = ("C01's templates and populations on a real directory tree (gaps, overlaps, discrete files, ties, empty directories); timestamps "
               "at a file start/end, inside, one name unit outside, in gaps, before the first / after the last file, exactly one sub-directory "
               "period away, far away; with filters and exclusion (also of the file that would be hit); through find_closest and fileset[t]; "
               "non-trivial = distinct (template, population size, timestamp, options) answered with a file from >1 files")
    ck.anchors(ANCHORS)
    ck.build()
    use_model = os.path.exists(os.path.join(ck.pkgdir, ".lake/build/bin/drv_c16"))
    scratch = tempfile.mkdtemp(prefix="verif_c16_")
    try:
        for name, c in vlib.load_corpus(PROP):
            run_case_json(ck, c, scratch, use_model)
        explore(ck, ck.budget(300, 5000), scratch, use_model)
        if ck.broken() and not ck.violations:
            explore(ck, 1500, scratch, use_model=False)
    finally:
        shutil.rmtree(scratch, ignore_errors=True)
    C1.debug_dump(ck)
    ck.finish()


def replay(path):
    obj = json.load(open(path))
    c = obj.get("case")
    if not c:
        print(json.dumps(obj, indent=1)[:3000])
        raise SystemExit(1)
    ck = new_check()
    scratch = tempfile.mkdtemp(prefix="verif_c16_")
    try:
        run_case_json(ck, c, scratch, use_model=False)
    finally:
        shutil.rmtree(scratch, ignore_errors=True)
    for v in ck.violations:
        print("REPRODUCED:", v["what"])
    raise SystemExit(1 if ck.violations else 0)
