"""C05 — collocating filesets equals collocating all their data, for any process count.

Decided by: theorems in lean/cfiles/Proofs/Props/C05.lean about the hand-written model
lean/cfiles/Model/CollocFiles.lean (array_split chunks, worker bundling loop, bounded result
queue + parent drain loop for every interleaving, file matching completeness) + correspondence
of the model's executable definitions (driver drv_c05) with the real
Collocator.collocate_filesets on the same filesets (per-worker emission sequences observed
through a logging Queue, file matches, totals) + an independent brute-force oracle over the
concatenated data of the two filesets.
"""
import atexit
import datetime as dt
import json
import logging
import os
import shutil
import signal
import tempfile

import vlib
from props import c05_workers as W

PROP = "C05"
PKG = "cfiles"
TEMPLATE = ("{year}{month}{day}_{hour}{minute}{second}{millisecond}-"
            "{end_year}{end_month}{end_day}_{end_hour}{end_minute}{end_second}{end_millisecond}.pkl")
EPOCH = dt.datetime(1970, 1, 1)
US = dt.timedelta(microseconds=1)
CALL_TIMEOUT = 60          # seconds for one collocate_filesets call (normally ~1 s)

# jitter (degrees) of points around a site centre: pairs at one site are < 35 km apart,
# different sites are > 1000 km apart; max_distance is drawn from [60, 400] km -> every
# pair is far from the threshold (no float boundary cases by chance)
JITTER = [(0.0, 0.0), (0.1, 0.0), (0.0, 0.1), (-0.1, 0.05), (0.05, -0.1), (0.12, 0.12), (-0.08, -0.08)]
SITES = [(0.0, 0.0), (20.0, 30.0), (-35.0, 100.0), (60.0, -120.0), (-70.0, -20.0), (10.0, 170.0)]


class CallTimeout(Exception):
    pass


# ---------------------------------------------------------------- case generation
def gen_case(rng):
    """a pair of filesets + query, JSON-serialisable.  All times are integer milliseconds
    relative to `origin_us` (µs since 1970), so they are exact in the file names
    (millisecond placeholders), in datetime64[ns] and in the model (µs)."""
    day_ms = 86_400_000
    origin = dt.datetime(2016, 1, 1) + dt.timedelta(days=rng.randint(0, 1500))
    style = rng.choice(["regular", "regular", "big-covers-many", "gaps", "midnight", "tiny", "overlap", "sparse",
                        "long-interval"])
    if style == "long-interval":
        return gen_long_interval(rng, origin)
    unit = rng.choice([1000, 60_000, 60_000, 600_000])        # typical file length scale (ms)
    span = rng.randint(6, 16) * unit                          # both filesets cover about the same span
    base = rng.choice([0, 3_600_000 * rng.randint(1, 20)])
    if style == "midnight":
        base = day_ms - span // 2                             # data straddles midnight -> two 'daily' tags
    nsites = 1 if rng.random() < 0.6 else 2
    sites = rng.sample(SITES, nsites)
    next_id = [1000, 5000]
    used_t = set()
    sets = []
    big = rng.randrange(2)
    for k in range(2):
        files = []
        t = base + rng.randint(0, 2) * (unit // 2)
        k_end = base + span
        if style == "tiny":
            k_end = base + rng.randint(1, 3) * unit
        while (t < k_end or not files) and len(files) < 9:
            length = rng.choice([1, 1, 2, 3, 5]) * unit
            if style == "big-covers-many" and k == big:
                length = rng.randint(6, 16) * unit               # one file covering many of the other set
            lo, hi = t, t + length
            npts = rng.choice([0, 1, 2, 2, 3, 4, 6])  # 0: a file without data points contributes nothing (fix 3262c37)
            if style == "sparse":
                npts = 1
            pts = []
            for _ in range(npts):
                tm = rng.choice([lo, hi, rng.randint(lo, hi), rng.randint(lo, hi)])
                if k == 0:
                    # primary times are globally distinct: then results of *different* primary files never
                    # span the same time range (known finding output-name-collision stays confined to
                    # bundle=None, where two results of one primary file can)
                    for _try in range(20):
                        if tm not in used_t:
                            break
                        tm = rng.randint(lo, hi)
                    if tm in used_t:
                        tm = next(x for x in range(lo, hi + 1) if x not in used_t)
                    used_t.add(tm)
                site = rng.randrange(nsites)
                j = rng.choice(JITTER)
                pts.append({"id": next_id[k], "t": tm,
                            "lat": sites[site][0] + j[0], "lon": sites[site][1] + j[1], "site": site})
                next_id[k] += 1
            rng.shuffle(pts)                       # unsorted times inside a file
            files.append({"lo": lo, "hi": hi, "pts": pts, "delay": rng.choice([0, 0, 0, 0.01, 0.03]), "broken": False})
            gap = 0 if style != "gaps" else rng.choice([0, 1, 4]) * unit
            if style == "overlap" and rng.random() < 0.4:
                t = lo + rng.randint(1, max(1, length))   # next file starts inside this one
            else:
                t = hi + rng.choice([1, 1, unit // 2, 0 if style == "overlap" else 1]) + gap
        sets.append(files)
    all_lo = min(f["lo"] for s in sets for f in s)
    all_hi = max(f["hi"] for s in sets for f in s)
    # max_interval relative to the file length scale (µs); whole seconds, off the ms grid, tiny
    mi_us = rng.choice([unit * 300, unit * 1000, unit * 1000 + 500, unit * 3000, unit * 2000, 1_500_000, 60_000_000])
    if rng.random() < 0.6:
        start_us, end_us = (all_lo - 3_600_000) * 1000, (all_hi + 3_600_000) * 1000
    else:   # period cutting through files; off the millisecond grid half of the time
        a = rng.randint(all_lo, (all_lo + all_hi) // 2)
        b = rng.randint((all_lo + all_hi) // 2, all_hi + unit)
        off = rng.choice([0, 500])
        start_us, end_us = a * 1000 + off, b * 1000 + 1000 + off
    return {"op": "cf", "style": style, "origin_us": (origin - EPOCH) // US, "sets": sets,
            "mi_us": mi_us, "dist_km": rng.choice([60.0, 150.0, 400.0]),
            "start_us": start_us, "end_us": end_us}


def gen_long_interval(rng, origin):
    """max_interval of a day or more: 6-hourly files whose partners lie many hours later (no direct
    overlap of the coverages, but within max_interval) -- catches a widening that drops whole days
    (`timedelta.seconds` for `total_seconds()`)"""
    h = 3_600_000
    site = rng.choice(SITES)
    nfiles = rng.randint(2, 4)
    lag_h = rng.choice([26, 30, 30, 40])               # partner files start that many hours later
    mi_h = lag_h + rng.choice([2, 6])                  # 28 .. 46 h  (>= 1 day)
    sets, ids = [[], []], [1000, 5000]
    for k in range(2):
        for f in range(nfiles):
            lo = (6 * f + (lag_h if k == 1 else 0)) * h
            hi = lo + 6 * h - 1
            pts = []
            for n in range(rng.randint(1, 3)):
                j = rng.choice(JITTER)
                pts.append({"id": ids[k], "t": lo + rng.randint(0, 6 * h - 1) if n else lo + (6 * h - 1) * (1 - k),
                            "lat": site[0] + j[0], "lon": site[1] + j[1], "site": 0})
                ids[k] += 1
            ts = set()
            pts = [p for p in pts if not (p["t"] in ts or ts.add(p["t"]))]
            sets[k].append({"lo": lo, "hi": hi, "pts": pts, "delay": 0, "broken": False})
    return {"op": "cf", "style": "long-interval", "origin_us": (origin - EPOCH) // US, "sets": sets,
            "mi_us": mi_h * h * 1000, "dist_km": 150.0,
            "start_us": -24 * h * 1000, "end_us": (6 * nfiles + lag_h + 24) * h * 1000}


def big_payload_case(rng):
    """one file pair whose single result holds several thousand collocations: the pickled dataset
    is larger than the 64 KiB pipe buffer, so the worker's feeder thread blocks in the middle of
    the object until the parent reads"""
    origin = dt.datetime(2019, 5, 1)
    n = 70
    sets, ids = [], [1000, 5000]
    for k in range(2):
        files = []
        for f in range(2):
            lo = f * 100_000
            pts = []
            for i in range(n if f == 0 else 3):
                j = JITTER[i % len(JITTER)]
                pts.append({"id": ids[k], "t": lo + 10 * i + k, "lat": j[0] + 0.001 * i, "lon": j[1], "site": 0})
                ids[k] += 1
            files.append({"lo": lo, "hi": lo + 90_000, "pts": pts, "delay": 0, "broken": False})
        sets.append(files)
    return {"op": "cf", "style": "big-payload", "origin_us": (origin - EPOCH) // US, "sets": sets,
            "mi_us": 5_000_000, "dist_km": 150.0, "start_us": -3_600_000_000, "end_us": 3_600_000_000}


def result_spans(case, excl=None):
    """bundle=None: expected results (one per file pair with collocations) grouped by the time span
    (min, max primary time, µs since 1970) that names their output file"""
    groups = {}
    for i, fp in enumerate(case["sets"][0]):
        for j, fs in enumerate(case["sets"][1]):
            if excl is not None and ((excl[0] == 0 and excl[1] == i) or (excl[0] == 1 and excl[1] == j)):
                continue
            pr = file_pair_pairs(case, fp, fs)
            if pr:
                ids = {a for a, _ in pr}
                ts = [case["origin_us"] + pt["t"] * 1000 for pt in fp["pts"] if pt["id"] in ids]
                groups.setdefault((min(ts), max(ts)), []).append(sorted(pr))
    return groups


def would_collide(case):
    return any(len(v) > 1 for v in result_spans(case).values())


def gen_config(rng, case, force=None, allow_collision=False, stress=None):
    cfg = {"procs": rng.choice([1, 2, 2, 3, 4]), "bundle": rng.choice([None, "primary", "daily"]),
           "output": "fileset" if rng.random() < 0.25 else "memory",
           "skip": False, "broken": None, "put_delay": rng.choice([0, 0, 0.002]),
           "alive_delay": rng.choice([0, 0.003, 0.01, 0.03]), "search": rng.random() < 0.5,
           # forms of the arguments: open period, strings, numbers, processes=None
           "open": rng.choice([None, None, None, "start", "end", "both"]),
           "mi_form": rng.choice(["td", "str", "num"]), "period_form": rng.choice(["dt", "dt", "str"])}
    if rng.random() < 0.12:
        cfg["procs"] = None
    if stress if stress is not None else rng.random() < 0.3:
        # race stress: workers slower than the parent (each put arrives while the parent idles in its
        # `running` filter, whose is_alive() calls are slowed): the last worker's final put + exit fall
        # between the parent's `empty()` test and its liveness test with high probability
        cfg["put_delay"], cfg["alive_delay"] = 0.12, 0.04
    r = rng.random()
    if r < 0.3:
        k = rng.randrange(2)
        cfg["broken"] = [k, rng.randrange(len(case["sets"][k]))]
        cfg["skip"] = rng.random() < 0.8
    if force:
        cfg.update(force)
    ocase = dict(case, start_us=None if cfg.get("open") in ("start", "both") else case["start_us"],
                 end_us=None if cfg.get("open") in ("end", "both") else case["end_us"])
    if cfg["output"] == "fileset" and cfg["bundle"] is None and not allow_collision and would_collide(ocase):
        # known finding output-name-collision: kept out of the ordinary stream (see collision_stream)
        cfg["bundle"] = rng.choice(["primary", "daily"])
    return cfg


# ---------------------------------------------------------------- oracle (typhon-independent)
def chord_km(lat1, lon1, lat2, lon2):
    import numpy as np
    ld = np.longdouble
    r = ld(6371.0)
    d2r = ld(np.pi) / ld(180)

    def xyz(lat, lon):
        la, lo = ld(lat) * d2r, ld(lon) * d2r
        return np.cos(la) * np.cos(lo), np.cos(la) * np.sin(lo), np.sin(la)
    a, b = xyz(lat1, lon1), xyz(lat2, lon2)
    return float(r * np.sqrt(sum((x - y) ** 2 for x, y in zip(a, b))))


def file_pair_pairs(case, fp, fs):
    """brute force: collocations between two lists of points (exact integer µs times)"""
    out = []
    mi, st, en, dist = case["mi_us"], case["start_us"], case["end_us"], case["dist_km"]
    for a in fp["pts"]:
        ta = a["t"] * 1000
        if not ((st is None or st <= ta) and (en is None or ta <= en)):
            continue
        for b in fs["pts"]:
            tb = b["t"] * 1000
            if not ((st is None or st <= tb) and (en is None or tb <= en)):
                continue
            if abs(ta - tb) < mi:
                d = chord_km(a["lat"], a["lon"], b["lat"], b["lon"])
                if abs(d - dist) < 0.05 * dist:
                    raise vlib.InfraError("generator placed a pair on the distance threshold")
                if d < dist:
                    out.append((a["id"], b["id"]))
    return out


def oracle_total(case, exclude=None):
    """all collocations between the complete data of the two filesets (multiset as sorted list);
    `exclude` = [set index, file index] of an unreadable file whose collocations vanish"""
    tot = []
    for i, fp in enumerate(case["sets"][0]):
        for j, fs in enumerate(case["sets"][1]):
            if exclude is not None and ((exclude[0] == 0 and exclude[1] == i) or (exclude[0] == 1 and exclude[1] == j)):
                continue
            tot += file_pair_pairs(case, fp, fs)
    return sorted(tot)


# ---------------------------------------------------------------- real filesets
def build_filesets(case, cfg, root):
    from typhon.files import FileSet, FileHandler
    origin = EPOCH + case["origin_us"] * US
    sets, index = [], []
    for k in range(2):
        sub = os.path.join(root, f"s{k}")
        os.makedirs(sub, exist_ok=True)
        fs = FileSet(os.path.join(sub, TEMPLATE), name=f"s{k}",
                     handler=FileHandler(reader=W.reader, writer=W.writer))
        files = sorted(range(len(case["sets"][k])), key=lambda i: (case["sets"][k][i]["lo"], case["sets"][k][i]["hi"], i))
        paths = {}
        for i in files:
            f = case["sets"][k][i]
            lo = origin + dt.timedelta(milliseconds=f["lo"])
            hi = origin + dt.timedelta(milliseconds=f["hi"])
            path = fs.get_filename((lo, hi))
            broken = cfg.get("broken") == [k, i]
            data = {"ids": [p["id"] for p in f["pts"]],
                    "time_ns": [case["origin_us"] * 1000 + p["t"] * 1_000_000 for p in f["pts"]],
                    "lat": [p["lat"] for p in f["pts"]], "lon": [p["lon"] for p in f["pts"]],
                    "delay": f.get("delay", 0), "broken": broken}
            if path in paths:
                raise vlib.InfraError("generator made two files with one name")
            paths[path] = i
            W.writer(data, type("P", (), {"path": path})())
        sets.append(fs)
        index.append(paths)
    return sets, index


def kill_children():
    import multiprocessing
    for p in multiprocessing.active_children():
        try:
            p.terminate()
        except Exception:
            pass


def _alarm(signum, frame):
    raise CallTimeout()


def period_args(case, cfg):
    """start / end / max_interval in the form the configuration asks for (datetime, string, None;
    timedelta, string, number of seconds) -- all denote exactly case[start_us/end_us/mi_us]"""
    origin_us = case["origin_us"]

    def bound(us):
        if us is None:
            return None
        t = EPOCH + (origin_us + us) * US
        return t.strftime("%Y-%m-%d %H:%M:%S.%f") if cfg.get("period_form") == "str" else t
    mi_us = case["mi_us"]
    form = cfg.get("mi_form", "td")
    if form == "num" and mi_us % 500_000 == 0:
        mi = mi_us // 1_000_000 if mi_us % 1_000_000 == 0 else mi_us / 1_000_000      # seconds (exact in binary)
    elif form == "str" and mi_us % 1000 == 0:
        mi = f"{mi_us // 3_600_000_000} h" if mi_us % 3_600_000_000 == 0 else \
            f"{mi_us // 1_000_000} s" if mi_us % 1_000_000 == 0 else f"{mi_us // 1000} ms"
    else:
        mi = dt.timedelta(microseconds=mi_us)
    return bound(case["start_us"]), bound(case["end_us"]), mi


INFRA_PAT = None


def infra_in_stderr(text):
    """a worker died of an operating-system problem (disk full, out of memory, too many files...):
    an infrastructure error of the host, never a violation"""
    import re
    global INFRA_PAT
    if INFRA_PAT is None:
        INFRA_PAT = re.compile(r"^(OSError|MemoryError|BlockingIOError|PermissionError|ConnectionError|BrokenPipeError|"
                               r"EOFError|FileNotFoundError|_pickle\.PicklingError).*$|No space left on device|"
                               r"Cannot allocate memory|Too many open files", re.M)
    m = INFRA_PAT.search(text or "")
    return m.group(0)[:200] if m else None


def run_real(case, cfg, sets, root, timeout=None):
    """run the real collocate_filesets; returns dict(results=list, get_log=list, error=str|None)"""
    import typhon.collocations.collocator as CM
    from typhon.collocations import Collocator, Collocations
    from typhon.files import FileHandler
    start, end, mi_arg = period_args(case, cfg)
    out = None
    if cfg["output"] == "fileset":
        od = tempfile.mkdtemp(dir=root, prefix="out")
        out = Collocations(os.path.join(od, TEMPLATE), name="out",
                           handler=FileHandler(reader=W.out_reader, writer=W.out_writer), read_mode="compact")
    old_q, old_p = CM.Queue, CM.Process
    CM.Queue = W.make_queue
    CM.Process = W.make_process_class()
    W.ALIVE_DELAY["s"] = cfg.get("alive_delay", 0)
    W.GET_LOG.clear()
    W.PUT_DELAY["each"] = cfg.get("put_delay", 0)
    old_handler = signal.signal(signal.SIGALRM, _alarm)
    signal.setitimer(signal.ITIMER_REAL, timeout or CALL_TIMEOUT)
    # the workers' stderr (tracebacks of crashed processes) goes to a file: it tells an
    # infrastructure problem (OSError, MemoryError) from a defect, and keeps the output clean
    import sys
    sys.stderr.flush()
    errpath = os.path.join(root, f"stderr{len(os.listdir(root))}.txt")
    errfd = os.open(errpath, os.O_WRONLY | os.O_CREAT | os.O_TRUNC)
    saved2 = os.dup(2)
    os.dup2(errfd, 2)
    res = {"results": [], "error": None, "out": out, "start": start, "end": end}
    try:
        kw = dict(start=start, end=end, processes=cfg["procs"], bundle=cfg["bundle"], skip_file_errors=cfg["skip"],
                  max_interval=mi_arg, max_distance=case["dist_km"])
        if out is not None and cfg.get("search"):
            # Collocations.search: collocate_filesets(output=self) consumed internally; what it
            # yielded is what the parent got from the queue with a result that is not None
            out.search(sets, **kw)
            res["results"] = [it[2] for it in W.GET_LOG if it[2] is not None]
        else:
            for item in Collocator().collocate_filesets(sets, output=out, **kw):
                res["results"].append(item)
    except CallTimeout:
        res["error"] = "timeout"
        kill_children()
    except Exception as e:          # mapped to a small enum
        from typhon.files.fileset import NoFilesError
        res["error"] = "no-files" if isinstance(e, NoFilesError) else f"{type(e).__name__}"
        res["error_text"] = str(e)[:200]
        if isinstance(e, (OSError, MemoryError)):
            res["infra"] = f"{type(e).__name__}: {e}"[:200]
    finally:
        signal.setitimer(signal.ITIMER_REAL, 0)
        signal.signal(signal.SIGALRM, old_handler)
        sys.stderr.flush()
        os.dup2(saved2, 2)
        os.close(saved2)
        os.close(errfd)
        try:
            res["stderr"] = open(errpath, errors="replace").read()[-20000:]
        except OSError:
            res["stderr"] = ""
        CM.Queue, CM.Process = old_q, old_p
        W.PUT_DELAY["each"] = 0
        W.ALIVE_DELAY["s"] = 0
    res["get_log"] = list(W.GET_LOG)
    return res


class CorruptResult(Exception):
    pass


def ds_pairs(ds):
    """the collocations of a compact collocation dataset as (id_p, id_s) label pairs"""
    try:
        p = ds["Collocations/pairs"].values
        return list(zip(ds["s0/id"].values[p[0]].tolist(), ds["s1/id"].values[p[1]].tolist()))
    except Exception as e:      # pair indices pointing outside the data etc.
        raise CorruptResult(f"{type(e).__name__}: {e}")


# ---------------------------------------------------------------- one run = real + model + oracle
def sorted_files(case, k):
    return sorted(range(len(case["sets"][k])), key=lambda i: (case["sets"][k][i]["lo"], case["sets"][k][i]["hi"], i))


def check_run(ck, case, cfg, scratch, use_model=True):
    """returns True when the run was explored (counts as a case)"""
    import typhon.collocations.collocator as CM
    if getattr(ck, "hung", False):
        return False
    root = tempfile.mkdtemp(dir=scratch)
    case = dict(case)
    if cfg.get("open") in ("start", "both"):
        case["start_us"] = None         # open period: start=None
    if cfg.get("open") in ("end", "both"):
        case["end_us"] = None
    full = dict(case, cfg=cfg)
    try:
        sets, index = build_filesets(case, cfg, root)
        origin_us = case["origin_us"]
        order = [sorted_files(case, 0), sorted_files(case, 1)]          # position in find order -> file index
        pos = [{i: n for n, i in enumerate(order[k])} for k in range(2)]
        # ---- real match (public API), compared with the model's restated match
        start = None if case["start_us"] is None else EPOCH + (origin_us + case["start_us"]) * US
        end = None if case["end_us"] is None else EPOCH + (origin_us + case["end_us"]) * US
        mi = dt.timedelta(microseconds=case["mi_us"])
        from typhon.files.fileset import NoFilesError
        try:
            real_matches = [(index[0][p.path], [index[1][s.path] for s in ss])
                            for p, ss in sets[0].match(sets[1], start, end, max_interval=mi)]
            match_err = None
        except NoFilesError:
            real_matches, match_err = [], "no-files"
        except Exception as e:
            ck.case(kind="match-raised")
            ck.violation("match-raised", f"FileSet.match(start={start}, end={end}, max_interval={mi}) raised {type(e).__name__}: {str(e)[:120]}", full)
            return True
        # ---- oracle
        excl = cfg["broken"] if (cfg["broken"] is not None) else None
        want_all = oracle_total(case)
        want = oracle_total(case, exclude=excl) if (excl is not None and cfg["skip"]) else want_all
        # file level completeness (independent of typhon's match): every file pair holding a
        # collocation must be among the matches
        matched = {(p, s) for p, ss in real_matches for s in ss}
        for i, fp in enumerate(case["sets"][0]):
            for j, fs in enumerate(case["sets"][1]):
                if (i, j) not in matched and file_pair_pairs(case, fp, fs):
                    ck.violation("match-incomplete", f"files ({i},{j}) hold collocations but FileSet.match did not pair them", full)
        # ---- real run
        r = run_real(case, cfg, sets, root)
        if r["error"] == "timeout":
            # a loaded host is an infrastructure matter: a hang counts only if the same case does
            # not finish either on a second attempt with twice the time
            ck.notes.append(f"one call exceeded {CALL_TIMEOUT} s and was repeated")
            r = run_real(case, cfg, sets, root, timeout=2 * CALL_TIMEOUT)
            if r["error"] == "timeout":
                ck.violation("hang", f"collocate_filesets did not finish within {CALL_TIMEOUT} s nor, repeated, within {2 * CALL_TIMEOUT} s", full)
                ck.hung = True          # decisive: stop exploring (every further run would cost minutes)
                return True
        infra = r.get("infra") or infra_in_stderr(r.get("stderr"))
        if infra:
            raise vlib.InfraError(f"host problem while running collocate_filesets: {infra}")
        crash_expected = cfg["broken"] is not None and not cfg["skip"] and \
            any((cfg["broken"][0] == 0 and p == cfg["broken"][1]) or (cfg["broken"][0] == 1 and cfg["broken"][1] in ss)
                for p, ss in real_matches)
        # ---- totals
        got, crashed_marker, names, contents, contents_name, pending = [], 0, [], {}, {}, None
        try:
            if r["error"] is None and cfg["output"] == "memory":
                for item in r["results"]:
                    if item is not CM.ProcessCrashed:
                        ds_pairs(item[0])
        except CorruptResult as e:
            ck.case(kind="corrupt-result")
            ck.violation("corrupt-result", f"processes={cfg['procs']} bundle={cfg['bundle']}: a yielded dataset is inconsistent "
                                           f"(Collocations/pairs does not index its data): {e}", full)
            return True
        if r["error"] is None:
            if cfg["output"] == "memory":
                for item in r["results"]:
                    if item is CM.ProcessCrashed:
                        crashed_marker += 1
                    else:
                        got += ds_pairs(item[0])
            else:
                for item in r["results"]:
                    if item is CM.ProcessCrashed:
                        crashed_marker += 1
                    else:
                        names.append(item)
                out = r["out"]
                for f in out.find(dt.datetime(2000, 1, 1), dt.datetime(2100, 1, 1), no_files_error=False):
                    ds = out.read(f)
                    try:
                        got += ds_pairs(ds)
                    except CorruptResult as e:
                        ck.case(kind="corrupt-result")
                        ck.violation("corrupt-result", f"output file {os.path.basename(f.path)} is inconsistent: {e}", full)
                        return True
                    contents[((f.times[0] - EPOCH) // US, (f.times[1] - EPOCH) // US)] = sorted(ds_pairs(ds))
                    contents_name[os.path.basename(f.path)] = sorted(ds_pairs(ds))
                    # named by the time span of the collocations it holds
                    tp = ds["s0/time"].values
                    lo = EPOCH + int(tp.min().astype("M8[us]").astype("int64")) * US
                    hi = EPOCH + int(tp.max().astype("M8[us]").astype("int64")) * US
                    if list(f.times) != [lo, hi]:
                        ck.violation("output-name", f"output file {os.path.basename(f.path)} holds collocations spanning {lo}..{hi}", full)
        got.sort()
        # explicit claim: with bundle='primary' every primary file's results form exactly one bundle
        # (one dataset / output file per primary), also when matches were skipped
        if cfg["bundle"] == "primary" and r["error"] is None and not crash_expected:
            id2p = {pt["id"]: i for i, f in enumerate(case["sets"][0]) for pt in f["pts"]}
            bundles = []
            if cfg["output"] == "memory":
                bundles = [ds_pairs(item[0]) for item in r["results"] if item is not CM.ProcessCrashed]
            elif len(set(names)) == len(names):
                bundles = list(contents_name.values())
            prims = [sorted({id2p.get(a) for a, _ in b}) for b in bundles]
            seen = [p for ps in prims for p in ps]
            if any(len(ps) != 1 for ps in prims) or len(seen) != len(set(seen)):
                lag = cfg["skip"] and cfg["broken"] is not None
                ck.violation("bundle-tag-lag" if lag else "bundle-not-per-primary",
                             f"processes={cfg['procs']} bundle=primary output={cfg['output']} skip={cfg['skip']} broken={cfg['broken']}: "
                             f"the yielded bundles hold the primary files {prims} (expected: every primary file in exactly one bundle, "
                             f"one primary per bundle)" + (" -- the bundle tag lags behind after a skipped match" if lag else ""), full)
        if crashed_marker and not crash_expected:
            ck.violation("worker-crashed", f"processes={cfg['procs']} bundle={cfg['bundle']} skip={cfg['skip']} broken={cfg['broken']}: the generator "
                                           f"yielded {crashed_marker} ProcessCrashed marker(s) although no file is unreadable"
                                           + (" (skip_file_errors=True)" if cfg["skip"] else ""), full)
        npairs = len(want_all)
        key = None
        if npairs > 1 and len(matched) > 1:
            key = json.dumps([case["sets"], case["mi_us"], case["start_us"], case["end_us"], cfg["procs"], cfg["bundle"],
                              cfg["output"], cfg["broken"], cfg["skip"]], sort_keys=True)
        kind = f"p{cfg['procs']}/{cfg['bundle']}/{cfg['output']}" + ("/skip" if excl and cfg["skip"] else "/crash" if excl else "")
        ck.case(key=key, kind=kind,
                sample={"style": case.get("style"), "files": [len(case["sets"][0]), len(case["sets"][1])], "matches": len(matched),
                        "collocations": npairs, "processes": cfg["procs"], "bundle": cfg["bundle"], "output": cfg["output"]})
        ck.count("style/" + str(case.get("style")))
        if r["error"] == "no-files":
            # FileSet.find raises NoFilesError when one fileset has no file in the widened period
            # (documented behaviour of find/match): then no collocation can exist
            if match_err != "no-files":
                ck.violation("other", "collocate_filesets raised NoFilesError although match() finds files", full)
            elif want:
                ck.violation("other", f"NoFilesError but {len(want)} collocations exist", full)
            ck.count("no-files")
        elif r["error"] is not None:
            ck.violation(classify(full, r["error"]), f"collocate_filesets raised {r['error']}: {r.get('error_text', '')}", full)
        elif crash_expected:
            # no claim about the total when a worker crashed (skip_file_errors=False), but nothing
            # may be reported that does not exist, nothing twice
            if not multiset_leq(got, want_all):
                ck.violation("other", f"spurious/duplicated collocations after a crash: {multiset_diff(got, want_all)[:5]}", full)
        elif got != want:
            missing, extra = multiset_diff(want, got), multiset_diff(got, want)
            sig = "other"
            dup = sorted({os.path.basename(n) for n in names if names.count(n) > 1})
            if cfg["output"] == "fileset" and cfg["bundle"] is None and dup and not extra:
                # known finding: assigned only when >= 2 yielded results carry the identical file name and
                # the loss is exactly the overwritten results (every file = one of the results named like
                # it, singly-named results intact)
                groups = result_spans(case, excl if cfg["skip"] else None)
                if set(groups) == set(contents) and any(len(v) > 1 for v in groups.values()) and \
                        all(contents[k] in v for k, v in groups.items()):
                    sig = "output-name-collision"
                    full = dict(full, overwritten_names=dup)
            what = (f"processes={cfg['procs']} bundle={cfg['bundle']} output={cfg['output']} skip={cfg['skip']} broken={cfg['broken']}: "
                    f"{len(got)} collocations reported, {len(want)} exist; missing {missing[:6]} extra {extra[:6]}")
            if sig == "other" and cfg["output"] == "fileset" and dup and not extra and use_model:
                # bundling modes: whether the loss is exactly the overwritten bundles is decided below,
                # once the model has said which bundles the workers put (k-th result of worker w)
                pending = {"what": what, "dup": dup}
            else:
                ck.violation(sig, what + (f"; output files written more than once: {dup}" if sig != "other" else ""), full)
        if cfg["output"] == "fileset" and r["error"] is None and len(set(names)) < len(names) and got == want:
            ck.count("name-collision-harmless")
        # ---- correspondence with the model
        if not use_model:
            return True
        lines = []
        # (a) match
        l1 = " ".join(f"{origin_us + case['sets'][0][i]['lo'] * 1000} {origin_us + case['sets'][0][i]['hi'] * 1000}" for i in order[0])
        l2 = " ".join(f"{origin_us + case['sets'][1][i]['lo'] * 1000} {origin_us + case['sets'][1][i]['hi'] * 1000}" for i in order[1])
        st_tok = "-" if case["start_us"] is None else str(origin_us + case["start_us"])
        en_tok = "-" if case["end_us"] is None else str(origin_us + case["end_us"])
        lines.append(f"match {case['mi_us']} {st_tok} {en_tok} {len(order[0])} {l1} {len(order[1])} {l2}")
        # (b) pipeline driven by the real matches and the oracle's per-file-pair results
        rid, rlist, rtoks = {}, [], []
        for p, ss in real_matches:
            for s in ss:
                pr = file_pair_pairs(case, case["sets"][0][p], case["sets"][1][s])
                if pr:
                    rid[(p, s)] = len(rlist)
                    rlist.append(pr)
                    tmin = min(pt["t"] for pt in case["sets"][0][p]["pts"] if any(pt["id"] == a for a, _ in pr))
                    day = (origin_us + tmin * 1000) // 86_400_000_000
                    rtoks.append(f"{pos[0][p]}:{pos[1][s]}:{rid[(p, s)]}:{day}")
        mtoks = [f"{pos[0][p]}:" + ",".join(str(pos[1][s]) for s in ss) for p, ss in real_matches]
        bp = [str(pos[0][cfg["broken"][1]])] if cfg["broken"] and cfg["broken"][0] == 0 else []
        bs = [str(pos[1][cfg["broken"][1]])] if cfg["broken"] and cfg["broken"][0] == 1 else []
        b = {None: "n", "primary": "p", "daily": "d"}[cfg["bundle"]]
        lines.append(f"cf {b} {1 if cfg['skip'] else 0} {'-' if cfg['procs'] is None else cfg['procs']} M {' '.join(mtoks)} R {' '.join(rtoks)} BP {' '.join(bp)} BS {' '.join(bs)}")
        pn = 1 if cfg["procs"] is None else cfg["procs"]
        lines.append(f"chunks {min(pn, max(len(real_matches), 1))} {len(real_matches)}")
        outl = ck.driver(lines)
        # (a)
        real_m = "no-files" if match_err else (" ".join(f"{pos[0][p]}:" + ",".join(str(pos[1][s]) for s in ss) for p, ss in real_matches) or "-")
        if outl[0] != real_m:
            ck.disagree(f"match: model '{outl[0][:120]}' vs code '{real_m[:120]}'", full)
        # (c) the model's array_split against numpy's (the function the code calls)
        import numpy as np
        nk = min(pn, max(len(real_matches), 1))
        np_sizes = " ".join(str(len(c)) for c in np.array_split(np.arange(len(real_matches)), nk))
        if outl[2] != np_sizes:
            ck.disagree(f"array_split({len(real_matches)}, {nk}): model '{outl[2]}' vs numpy '{np_sizes}'", full)
        # (b)
        if match_err or r["error"] is not None:
            return True
        id2file = [{pt["id"]: i for i, f in enumerate(case["sets"][k]) for pt in f["pts"]} for k in range(2)]

        def show(result):
            if result is None:
                return "P"
            if result is CM.ProcessCrashed:
                return "X"
            if cfg["output"] == "memory":
                prs = ds_pairs(result[0])
                seen = []
                for a, bb in prs:
                    k = rid.get((id2file[0].get(a), id2file[1].get(bb)))
                    if k is None:
                        return "R?"
                    if k not in seen:
                        seen.append(k)
                exp = sorted(x for k in seen for x in rlist[k])
                return "R" + ".".join(map(str, seen)) + ("" if sorted(prs) == exp else "!")
            return "R"
        nworkers = max(1, len(outl[1].split(" | "))) if outl[1] not in ("nothing", "value-error") else 0
        per = [[] for _ in range(max(nworkers, pn))]
        for name, progress, result in r["get_log"]:
            per[CM.PROCESS_NAMES.index(name)].append(show(result))
        while len(per) > nworkers and not per[-1]:
            per.pop()
        real_cf = " | ".join(" ".join(x) if x else "-" for x in per) if per else "nothing"
        model_cf = outl[1]
        if cfg["output"] == "fileset":
            import re
            model_cf = re.sub(r"R[0-9.]+", "R", model_cf)
        if pending is not None:
            # known finding output-name-collision in a bundling mode (e.g. skip_file_errors: the lagging
            # matches[processed] splits the results of one primary into two bundles with the same primary
            # time span): same rule as for bundle=None -- >= 2 yielded results with one file name, every file
            # holds exactly one of the bundles named like it, singly named bundles intact
            sig, by_name = "other", {}
            if real_cf == model_cf:
                wl = outl[1].split(" | ")
                fn_per = [[] for _ in wl]
                for name, progress, result in r["get_log"]:
                    if isinstance(result, str) and CM.PROCESS_NAMES.index(name) < len(wl):
                        fn_per[CM.PROCESS_NAMES.index(name)].append(os.path.basename(result))
                ok = True
                for w, toks in enumerate(wl):
                    rt = [t for t in toks.split() if t.startswith("R")]
                    if len(rt) != len(fn_per[w]):
                        ok = False
                        break
                    for t, fn in zip(rt, fn_per[w]):
                        by_name.setdefault(fn, []).append(sorted(x for k in t[1:].split(".") for x in rlist[int(k)]))
                if ok and set(by_name) == set(contents_name) and any(len(v) > 1 for v in by_name.values()) and \
                        all(contents_name[n] in v for n, v in by_name.items()):
                    sig = "output-name-collision"
                    full = dict(full, overwritten_names=pending["dup"])
            ck.violation(sig, pending["what"] + (f"; output files written more than once: {pending['dup']}" if sig != "other" else ""), full)
        if real_cf != model_cf:
            ck.disagree(f"worker emissions (processes={cfg['procs']} bundle={cfg['bundle']} skip={cfg['skip']} broken={cfg['broken']}): "
                        f"model '{model_cf[:160]}' vs code '{real_cf[:160]}'", full)
        # what the generator yielded = every non-None result got, in get order
        ny_model = sum(1 for t in model_cf.replace("|", " ").split() if t[0] in "RX")
        if len(r["results"]) != ny_model:
            ck.disagree(f"parent yielded {len(r['results'])} objects, model's workers emit {ny_model} non-None results", full)
        return True
    finally:
        try:
            from typhon.files import FileSet
            atexit.unregister(FileSet.save_cache)
        except Exception:
            pass
        shutil.rmtree(root, ignore_errors=True)


def multiset_diff(a, b):
    """elements of a not in b (with multiplicity); inputs are lists of tuples"""
    from collections import Counter
    c = Counter(map(tuple, a))
    c.subtract(Counter(map(tuple, b)))
    return sorted(x for x, n in c.items() for _ in range(max(n, 0)))


def multiset_leq(a, b):
    return not multiset_diff(a, b)


def classify(full, err=None):
    return "other"


# ---------------------------------------------------------------- model-only: parent schedules
def parent_schedules(ck, n_sched):
    """random complete schedules of the parent state machine, produced by an independent Python
    re-implementation that only picks enabled events; the Lean model must accept them, end in
    `done`, and have yielded every worker's items in order (executable reading of
    C05_parent_collects_all)."""
    rng = ck.rng
    lines, expect = [], []
    for _ in range(n_sched):
        n = rng.randint(1, 4)
        cap = n
        counts = [rng.randint(0, 4) for _ in range(n)]
        todo, buf, alive = counts[:], [0] * n, [True] * n
        put_k = [0] * n
        pipe, sem, running, pc, ev = [], 0, list(range(n)), "loopTest", []
        bufq = [[] for _ in range(n)]
        steps = 0
        while pc != "done" and steps < 2000:
            steps += 1
            choices = ["s"] * 2
            for w in range(n):
                if alive[w] and todo[w] and sem < cap:
                    choices.append(("p", w))
                if bufq[w]:
                    choices.append(("f", w))
                if alive[w] and not todo[w] and not bufq[w]:
                    choices.append(("d", w))
            c = rng.choice(choices)
            if c == "s":
                stale = []
                if pc == "loopTest":
                    pc = "done" if not running else "filter"
                elif pc == "filter":
                    stale = [w for w in running if not alive[w] and rng.random() < 0.3]
                    running = [w for w in running if alive[w] or w in stale]
                    pc = "emptyTest"
                elif pc == "emptyTest":
                    pc = "loopTest" if not pipe else "get"
                elif pc == "get":
                    pipe.pop(0)
                    sem -= 1
                    pc = "emptyTest"
                ev.append("s" + ",".join(map(str, stale)))
            elif c[0] == "p":
                w = c[1]
                todo[w] -= 1
                bufq[w].append(put_k[w])
                put_k[w] += 1
                sem += 1
                ev.append(f"p{w}")
            elif c[0] == "f":
                w = c[1]
                pipe.append((w, bufq[w].pop(0)))
                ev.append(f"f{w}")
            else:
                alive[c[1]] = False
                ev.append(f"d{c[1]}")
        if pc != "done":
            continue
        lines.append(f"par {n} {cap} W {' '.join(map(str, counts))} E {' '.join(ev)}")
        expect.append(counts)
    if not lines:
        return
    out = ck.driver(lines)
    for line, o, counts in zip(lines, out, expect):
        ck.case(kind="parent-schedule")
        ok = o.startswith("pc=done y=")
        if ok:
            ys = o[len("pc=done y="):].split()
            for w, c in enumerate(counts):
                if [y for y in ys if y.startswith(f"{w}.")] != [f"{w}.{k}" for k in range(c)]:
                    ok = False
        if not ok:
            ck.disagree(f"parent model: schedule gives '{o[:100]}' for counts {counts}", {"op": "par", "line": line})


# ---------------------------------------------------------------- main / replay
def make_check():
    return vlib.Check(
        PROP, pkg=PKG, props="Proofs.Props.C05", driver="drv_c05",
        lemma_files=["Proofs/Lemmas/Chunks.lean", "Proofs/Lemmas/Worker.lean", "Proofs/Lemmas/Parent.lean",
                     "Proofs/Lemmas/Match.lean", "Proofs/Lemmas/Total.lean"],
        model_files=["Model/CollocFiles.lean"],
        trusted=["hand-written model Model/CollocFiles.lean tied to Collocator.collocate_filesets/_process_caller/_should_save_cache/"
                 "_collocate_matches and FileSet.match/align by the correspondence run of this check (driver drv_c05: file matches, "
                 "array_split sizes, per-worker emission sequences observed through a logging result queue)",
                 "multiprocessing semantics are modelled, not verified: Queue = bounded semaphore + per-process feeder buffer + FIFO pipe, "
                 "empty() sees the pipe, a process exits only after its feeder flushed, is_alive() is monotone",
                 "the per-file-pair collocation (Collocator.collocate) is opaque in the model; its pair-level correctness is property C04 "
                 "(hypothesis `hcoll` of C05_total / C05_total_skip)",
                 "pickle-based file handlers of the harness; xarray concat/merge inside concat_collocations are exercised, not verified"],
        assumptions=["every data point is stored in exactly one file whose name-derived coverage contains its time; point labels (ids) are unique",
                     "no claim about the total when a worker crashes (skip_file_errors=False and an unreadable file)",
                     "FileSet.find raising NoFilesError for a fileset without files in the widened period is regarded as documented behaviour"])


ANCHORS = [("typhon/collocations/collocator.py", "Collocator.collocate_filesets"),
           ("typhon/collocations/collocator.py", "Collocator._process_caller"),
           ("typhon/collocations/collocator.py", "Collocator._should_save_cache"),
           ("typhon/collocations/collocator.py", "Collocator._save_and_return"),
           ("typhon/collocations/collocator.py", "Collocator._collocate_matches"),
           ("typhon/collocations/collocator.py", "concat_collocations"),
           ("typhon/collocations/common.py", "Collocations.search"),
           ("typhon/collocations/common.py", "Collocations.read"),
           ("typhon/files/fileset.py", "FileSet.match"),
           ("typhon/files/fileset.py", "FileSet.align")]


def explore(ck, n_pairs, runs_per_pair, scratch, use_model=True):
    rng = ck.rng
    for _ in range(n_pairs):
        if sum(1 for v in ck.violations if v["signature"] != "output-name-collision") >= 8 or getattr(ck, "hung", False):
            break                       # enough failing inputs; every further run costs seconds
        case = gen_case(rng)
        for k in range(runs_per_pair):
            ck.run_no = getattr(ck, "run_no", 0) + 1
            cfg = gen_config(rng, case, stress=(ck.run_no % 3 == 0))      # race stress in every third run
            check_run(ck, case, cfg, scratch, use_model)
        # separate low-rate stream for the known finding output-name-collision (thorough tier only;
        # the quick tier has the corpus witness)
        if ck.tier == "thorough" and rng.random() < 0.08 and would_collide(case):
            cfg = gen_config(rng, case, force={"output": "fileset", "bundle": None, "broken": None, "skip": False},
                             allow_collision=True)
            ck.count("collision-stream")
            check_run(ck, case, cfg, scratch, use_model)


def main():
    logging.disable(logging.CRITICAL)
    ck = make_check()
    ck.rule = ("random pairs of scratch filesets (styles regular / big-covers-many / gaps / midnight / tiny / overlapping coverage; files of "
               "different lengths, unsorted points, period cutting through files) run through the real collocate_filesets with processes 1-4, "
               "bundle None/primary/daily, output memory/fileset, one unreadable file with/without skip_file_errors, reader and put delays; "
               "non-trivial = distinct (filesets, query, configuration) with > 1 matched file pair and > 1 collocation")
    ck.anchors(ANCHORS)
    ck.build()
    use_model = os.path.exists(os.path.join(ck.pkgdir, ".lake/build/bin/drv_c05"))
    scratch = tempfile.mkdtemp(prefix="verif_c05_")
    try:
        for name, c in vlib.load_corpus(PROP):
            run_corpus_case(ck, c, scratch, use_model)
        if use_model:
            parent_schedules(ck, ck.budget(150, 3000))
        # fixed cases of every run: a result larger than the pipe buffer; day-long max_interval
        big = big_payload_case(ck.rng)
        for cfg in ({"procs": 2, "bundle": None}, {"procs": 1, "bundle": "primary", "put_delay": 0.12, "alive_delay": 0.04}):
            check_run(ck, big, dict(DEFAULT_CFG, **cfg), scratch, use_model)
        li = gen_long_interval(ck.rng, dt.datetime(2017, 3, 1))
        check_run(ck, li, gen_config(ck.rng, li, force={"broken": None, "skip": False, "open": None}, stress=False), scratch, use_model)
        explore(ck, ck.budget(10, 80), 2 if ck.tier == "quick" else 5, scratch, use_model)
        if ck.broken() and not ck.violations:
            # failing-input search on the real code (oracle only) with the larger budget
            explore(ck, 60 if ck.tier == "quick" else 150, 4, scratch, use_model=False)
    finally:
        kill_children()
        shutil.rmtree(scratch, ignore_errors=True)
    ck.finish()


DEFAULT_CFG = {"procs": 1, "bundle": None, "output": "memory", "skip": False, "broken": None, "put_delay": 0}


def run_corpus_case(ck, c, scratch, use_model=True):
    if c.get("op") != "cf":
        return
    case = {k: v for k, v in c.items() if k != "cfg" and k != "cfgs"}
    cfgs = c.get("cfgs") or [c["cfg"]]
    for cfg in cfgs:
        cfg = dict(DEFAULT_CFG, **cfg)
        before = len(ck.violations)
        check_run(ck, case, cfg, scratch, use_model)
        exp = cfg.get("expect")
        if exp is not None:
            # a corpus witness of a known finding: it must be classified exactly as recorded
            # (nothing reported = the defect was repaired, fine)
            for v in ck.violations[before:]:
                if v["signature"] != exp:
                    v["what"] = f"corpus witness expected signature {exp}: " + v["what"]


def replay(path):
    logging.disable(logging.CRITICAL)
    obj = json.load(open(path))
    c = obj.get("case")
    if not c or c.get("op") != "cf":
        print(json.dumps(obj, indent=1)[:3000])
        raise SystemExit(1)
    ck = vlib.Check(PROP, pkg=PKG, props="Proofs.Props.C05", driver="drv_c05")
    scratch = tempfile.mkdtemp(prefix="verif_c05_")
    try:
        use_model = os.path.exists(os.path.join(ck.pkgdir, ".lake/build/bin/drv_c05"))
        for _ in range(3):          # interleavings are not deterministic: a few attempts
            run_corpus_case(ck, c, scratch, use_model=use_model)   # the model only refines the signature
            if ck.violations:
                break
    finally:
        kill_children()
        shutil.rmtree(scratch, ignore_errors=True)
    for v in ck.violations[:5]:
        print(f"REPRODUCED [{v['signature']}]:", v["what"])
    raise SystemExit(1 if ck.violations else 0)
