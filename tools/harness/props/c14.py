"""C14 — column integrals and hydrostatic conversions agree with their defining integrals.

Tie: (a) translator for the scalar converters (as C09), (b) hand-written array-level model
lean/numeric/Model/Column.lean run with Float by driver drv_col on the same inputs as the real
code (correspondence), (c) exact-Fraction / refinement oracle on the real code.
"""
import json
import math
from fractions import Fraction

import numlib
import vlib

PROP = "C14"
NEEDED = ["Atmosphere." + n for n in ("vmr2specific_humidity", "specific_humidity2vmr", "density",
                                     "water_vapor_pressure2specific_humidity", "e_eq_mixed_mk")]
G, RSTAR, MD, MW = 9.80665, 8.31446261815324, 28.9645e-3, 18.01528e-3


def rel(a, b):
    a, b = float(a), float(b)
    return abs(a - b) / max(abs(a), abs(b), 1e-300)


def bl(vals):
    return " ".join(str(numlib.bits(v)) for v in vals)


def frac_trapz(x, y):
    return sum((Fraction(x[i + 1]) - Fraction(x[i])) * (Fraction(y[i]) + Fraction(y[i + 1])) / 2 for i in range(len(x) - 1))


def gen_grid(rng, n, kind):
    if kind == "uniform":
        a, h = rng.uniform(-5, 5), rng.uniform(0.01, 3)
        x = [a + h * i for i in range(n)]
    elif kind == "irregular":
        x = sorted(rng.uniform(-10, 10) for _ in range(n))
        x = [v + 1e-3 * i for i, v in enumerate(x)]
    elif kind in ("tiny", "nearuniform"):
        x = []
    else:  # pressure-like decreasing
        x = sorted((math.exp(rng.uniform(math.log(1e2), math.log(1.1e5))) for _ in range(n)), reverse=True)
        x = [v - 1e-6 * i for i, v in enumerate(x)]
    if kind == "tiny":       # coordinates in small units (wavelengths in m, small mixing ratios): widths << 1e-8
        sc = rng.choice([1e-9, 1e-12, 1e-7])
        x = [v * sc for v in sorted(rng.uniform(0, 10) for _ in range(n))]
        x = [v + sc * 1e-3 * i for i, v in enumerate(x)]
    if kind == "nearuniform":    # equidistant except for one slightly different spacing
        a, h = rng.uniform(-5, 5), rng.uniform(0.5, 3)
        x = [a + h * i for i in range(n)]
        k = rng.randrange(n)
        eps = h * rng.choice([1e-5, 3e-6, 1e-4, 1e-7])
        x = [v + (eps if i >= k else 0.0) for i, v in enumerate(x)]
    if kind != "pressure" and rng.random() < 0.3:
        x = x[::-1]
    return x


def explore(ck, n, np, tmath, atm, use_model=True):
    rng = ck.rng
    lines, expect = [], []

    def model(line, real, what, case, tol=1e-11):
        if use_model:
            lines.append(line)
            expect.append((real, what, case, tol))

    for it in range(n):
        m = rng.choice([2, 3, 5, 17, 60]) if it % 25 else (2000 if ck.tier == "quick" else rng.choice([2000, 10000]))
        kind = rng.choice(["uniform", "irregular", "pressure", "pressure", "tiny", "nearuniform"])
        x = gen_grid(rng, m, kind)
        y = [rng.uniform(0, 5) if rng.random() < 0.7 else rng.uniform(-5, 5) for _ in range(m)]
        z = [rng.uniform(-2, 2) for _ in range(m)]
        xa, ya, za = np.array(x), np.array(y), np.array(z)
        case = {"fn": "integrate_column", "x": x if m <= 60 else x[:5], "y": y if m <= 60 else y[:5], "n": m}
        try:
            got = float(tmath.integrate_column(ya, xa))
        except Exception as e:
            ck.violation("other", f"integrate_column raised {type(e).__name__}: {e}", case)
            return
        want = frac_trapz(x, y)
        scale = float(sum(abs((Fraction(x[i + 1]) - Fraction(x[i])) * (Fraction(y[i]) + Fraction(y[i + 1])) / 2) for i in range(m - 1))) or 1.0
        ck.case(key=("trapz", m, x[0], y[0]), kind=f"trapz/{kind}/n{m if m < 100 else 'big'}", sample={"x": x[:4], "y": y[:4], "integral": got})
        if abs(got - float(want)) > 1e-12 * scale:
            ck.violation("other", f"integrate_column = {got!r}, integral of the piecewise-linear interpolant = {float(want)!r}", case)
        if m <= 60:
            model(f"trapz {m} {bl(x)} {bl(y)}", got, "integrate_column(y, x)", case, 1e-12 * scale / max(abs(got), 1e-300) + 1e-13)
        # linear, split, reverse, unit spacing (oracle laws on the real code)
        c, d = rng.uniform(-3, 3), rng.uniform(-3, 3)
        lin = float(tmath.integrate_column(c * ya + d * za, xa))
        if abs(lin - (c * got + d * float(tmath.integrate_column(za, xa)))) > 1e-11 * (scale * (abs(c) + abs(d)) + 1):
            ck.violation("other", "integrate_column is not linear in y", case)
        if m >= 3:
            k = rng.randint(1, m - 2)
            parts = float(tmath.integrate_column(ya[:k + 1], xa[:k + 1])) + float(tmath.integrate_column(ya[k:], xa[k:]))
            if abs(parts - got) > 1e-11 * scale:
                ck.violation("other", f"integrate_column not additive when split at grid point {k}", dict(case, split=k))
        rev = float(tmath.integrate_column(ya[::-1], xa[::-1]))
        if abs(rev + got) > 1e-11 * scale:
            ck.violation("other", "integrate_column does not change sign when the coordinate is reversed", case)
        unit = float(tmath.integrate_column(ya))
        wu = float(sum((Fraction(y[i]) + Fraction(y[i + 1])) / 2 for i in range(m - 1)))
        if abs(unit - wu) > 1e-11 * (sum(abs(v) for v in y) + 1):
            ck.violation("other", f"integrate_column(y) without x = {unit!r}, unit-spacing value {wu!r}", case)
        if m <= 60:
            model(f"trapzu {m} {bl(y)}", unit, "integrate_column(y)", case)
        # integer-typed inputs (dtype glue): integer y, and integer pressures further below
        if m <= 60 and kind in ("uniform", "irregular"):
            yi = [rng.randint(-9, 9) for _ in range(m)]
            gi = float(tmath.integrate_column(np.array(yi, dtype=rng.choice(["int64", "int32"])), xa))
            wi = float(frac_trapz(x, yi))
            if abs(gi - wi) > 1e-11 * (sum(abs(v) for v in x) * 9 + 1):
                ck.violation("other", f"integrate_column with integer-typed y = {gi!r}, expected {wi!r}", dict(case, y=yi))
        if m <= 60 and it % 5 == 0:
            numlib.pure_call(ck, np, tmath.integrate_column, [ya, xa], "integrate_column(y, x)", case)
            if kind == "pressure":
                Tp = np.array([rng.uniform(190, 310) for _ in range(m)])
                vp = np.array([rng.uniform(0, 0.03) for _ in range(m)])
                numlib.pure_call(ck, np, atm.integrate_water_vapor, [vp, xa], "integrate_water_vapor(vmr, p)", case)
                numlib.pure_call(ck, np, atm.pressure2height, [xa, Tp], "pressure2height(p, T)", case)
                numlib.pure_call(ck, np, atm.column_relative_humidity, [vp * 0.1, xa, Tp], "column_relative_humidity(q, p, t)", case)
        # any axis of an n-d array
        if m <= 17:
            k2 = rng.randint(1, 3)
            arr = np.array([[rng.uniform(0, 3) for _ in range(k2)] for _ in range(m)])
            ax = rng.choice([0, 1])
            a_in = arr if ax == 0 else arr.T.copy()
            res = np.asarray(tmath.integrate_column(a_in, xa, axis=ax))
            for j in range(k2):
                w = float(frac_trapz(x, arr[:, j].tolist()))
                if abs(float(res[j]) - w) > 1e-11 * (scale + 10):
                    ck.violation("other", f"integrate_column along axis {ax} of a 2-d array differs from the 1-d integral of column {j}", dict(case, axis=ax))
        # rank 3 / 4 arrays, every axis (positive and negative): the integral of each 1-d column, in the
        # layout of the input with that axis removed
        if m <= 17 and it % 3 == 0:
            rank = rng.choice([3, 3, 4])
            other = [rng.choice([1, 2, 3]) for _ in range(rank - 1)]
            ax = rng.randrange(rank)
            shape = other[:ax] + [m] + other[ax:]
            big = np.array([rng.uniform(0, 3) for _ in range(int(np.prod(shape)))]).reshape(shape)
            big, lay = numlib.relayout(np, rng, big)
            axarg = ax if rng.random() < 0.5 else ax - rank
            cnd = {"fn": "integrate_column/nd", "shape": shape, "axis": axarg, "layout": lay, "x": x[:4]}
            ck.case(key=("nd", tuple(shape), axarg, x[0]), kind=f"trapz/rank{rank}/axis{ax}")
            try:
                res = np.asarray(tmath.integrate_column(big, xa, axis=axarg))
            except Exception as e:
                ck.violation("other", f"integrate_column raised {type(e).__name__} for shape {shape}, axis {axarg}: {str(e)[:80]}", cnd)
                res = None
            if res is not None:
                moved = np.moveaxis(np.asarray(big), ax, -1)
                want = np.array([float(frac_trapz(x, col.tolist())) for col in moved.reshape(-1, m)]).reshape(moved.shape[:-1])
                if res.shape != want.shape or np.max(np.abs(res - want)) > 1e-11 * (scale + 10):
                    ck.violation("other", f"integrate_column along axis {axarg} of an array of shape {shape}: result shape {res.shape}, expected {want.shape}"
                                          + ("" if res.shape != want.shape else f", max deviation {float(np.max(np.abs(res - want)))!r}"), cnd)
                if kind == "pressure" and rank == 3:
                    vm3 = np.asarray(big) * 0.01
                    iw3 = np.asarray(atm.integrate_water_vapor(vm3, xa, axis=axarg))
                    mv = np.moveaxis(vm3, ax, -1)
                    w3 = np.array([float(atm.integrate_water_vapor(col.copy(), xa)) for col in mv.reshape(-1, m)]).reshape(mv.shape[:-1])
                    if iw3.shape != w3.shape or np.max(np.abs(iw3 - w3)) > 1e-12 * (np.max(np.abs(w3)) + 1e-300):
                        ck.violation("other", f"integrate_water_vapor along axis {axarg} of a rank-3 field of shape {shape} differs from the per-column results", cnd)
        # ---------------- water vapour
        if kind == "pressure" and m >= 2:
            vmr = [rng.choice([0.0, rng.uniform(0, 0.04), numlib.loguniform(rng, 1e-7, 0.04)]) for _ in range(m)]
            T = [rng.uniform(190, 310) for _ in range(m)]
            iw = float(atm.integrate_water_vapor(np.array(vmr), xa))
            ck.case(key=("iwv", m, x[0], vmr[0]), kind="iwv")
            c2 = {"fn": "integrate_water_vapor", "vmr": vmr[:6], "p": x[:6], "n": m}
            q = [Fraction(v) * Fraction(MW) / ((1 - Fraction(v)) * Fraction(MD) + Fraction(v) * Fraction(MW)) for v in vmr]
            wiw = float(-frac_trapz(x, q) / Fraction(G))
            if iw < 0 or abs(iw - wiw) > 1e-11 * max(abs(wiw), 1e-300) + 1e-300:
                ck.violation("other", f"integrate_water_vapor(vmr, p) = {iw!r}, expected {wiw!r} (must be >= 0)", c2)
            if m <= 60:
                model(f"iwv {m} {bl(vmr)} {bl(x)}", iw, "integrate_water_vapor(vmr, p)", c2)
                zz = sorted(rng.uniform(0, 3e4) for _ in range(m))
                ig = float(atm.integrate_water_vapor(np.array(vmr), xa, np.array(T), np.array(zz)))
                model(f"iwvg {m} {bl(vmr)} {bl(x)} {bl(T)} {bl(zz)}", ig, "integrate_water_vapor(vmr, p, T, z)", c2)
                # column relative humidity: saturated profile -> 1, linear in q
                qs = np.array([float(atm.water_vapor_pressure2specific_humidity(atm.e_eq_mixed_mk(t), p)) for t, p in zip(T, x)])
                if np.all((qs > 0) & (qs < 1)) and m >= 2:
                    one = float(atm.column_relative_humidity(qs.copy(), xa.copy(), np.array(T)))
                    a = rng.uniform(0.05, 0.95)
                    qq = qs * np.array([rng.uniform(0.1, 0.9) for _ in range(m)])
                    r1 = float(atm.column_relative_humidity(qq.copy(), xa.copy(), np.array(T)))
                    r2 = float(atm.column_relative_humidity(a * qq, xa.copy(), np.array(T)))
                    ck.case(key=("crh", m, x[0], T[0]), kind="crh")
                    c3 = {"fn": "column_relative_humidity", "p": x[:6], "T": T[:6], "n": m}
                    if abs(one - 1) > 1e-11:
                        ck.violation("other", f"column_relative_humidity of a saturated profile = {one!r}, expected 1", c3)
                    if rel(r2, a * r1) > 1e-11:
                        ck.violation("other", f"column_relative_humidity not linear in q: crh({a}q) = {r2!r}, {a}*crh(q) = {a * r1!r}", c3)
                    model(f"crh {m} {bl(qq.tolist())} {bl(x)} {bl(T)}", r1, "column_relative_humidity(q, p, t)", c3)
            # pressure2height
            zz = np.asarray(atm.pressure2height(xa, np.array(T)))
            ck.case(key=("p2h", m, x[0], T[0]), kind="p2h")
            c4 = {"fn": "pressure2height", "p": x[:6], "T": T[:6], "n": m}
            if zz[0] != 0 or not np.all(np.diff(zz) > 0):
                ck.violation("other", "pressure2height does not start at 0 / is not strictly increasing with decreasing pressure", c4)
            if m <= 60 and use_model:
                lines.append(f"p2h {m} {bl(x)} {bl(T)}")
                expect.append((zz.tolist(), "pressure2height(p, T)", c4, 1e-11))
            if rng.random() < 0.3:
                # integer-typed pressure array (Pa as integers): same heights as for the float array
                pi_ = sorted({int(v) for v in x}, reverse=True)
                if len(pi_) >= 2:
                    Ti = [T[0]] * len(pi_)
                    zi = np.asarray(atm.pressure2height(np.array(pi_, dtype="int64"), np.array(Ti)))
                    zf = np.asarray(atm.pressure2height(np.array(pi_, dtype=float), np.array(Ti)))
                    iwi = float(atm.integrate_water_vapor(np.full(len(pi_), 0.01), np.array(pi_, dtype="int64")))
                    iwf = float(atm.integrate_water_vapor(np.full(len(pi_), 0.01), np.array(pi_, dtype=float)))
                    ck.case(key=("intp", len(pi_), pi_[0]), kind="int-dtype")
                    if zi.shape != zf.shape or np.max(np.abs(zi - zf)) > 1e-9 * max(float(zf[-1]), 1.0) or rel(iwi, iwf) > 1e-12:
                        ck.violation("other", f"integer-typed pressures change the result: pressure2height {zi[:4].tolist()} vs {zf[:4].tolist()}, IWV {iwi!r} vs {iwf!r}",
                                     {"fn": "pressure2height/int", "p": pi_[:8], "T": T[0]})
            zstd = np.asarray(atm.pressure2height(xa))
            if zstd[0] != 0 or not np.all(np.diff(zstd) > 0):
                ck.violation("other", "pressure2height without T (standard atmosphere) is not strictly increasing", c4)
            # ... and it uses the standard atmosphere addressed by PRESSURE (independent table + interpolation)
            hh = [-610, 11000, 20000, 32000, 47000, 51000, 71000, 84852]
            ppp = [108900, 22632, 5474.9, 868.02, 110.91, 66.939, 3.9564, 0.3734]
            ttt = [19.0, -56.5, -56.5, -44.5, -2.5, -2.5, -58.5, -86.28]
            lp = np.log(np.array(ppp))[::-1]
            tk = (np.array(ttt) + 273.15)[::-1]
            lx = np.log(xa)
            idx = np.clip(np.searchsorted(lp, lx), 1, 7)
            Tstd = tk[idx - 1] + (tk[idx] - tk[idx - 1]) / (lp[idx] - lp[idx - 1]) * (lx - lp[idx - 1])
            zref = np.asarray(atm.pressure2height(xa, Tstd))
            if np.max(np.abs(zstd - zref)) > 1e-6 * max(float(zref[-1]), 1.0):
                ck.violation("other", f"pressure2height(p) without T differs from pressure2height(p, standard atmosphere at p): {zstd[-1]!r} vs {zref[-1]!r}", c4)
            # multi-dimensional water vapour / CRH along either axis = the 1-d result per column
            if 2 <= m <= 17:
                ncol = rng.randint(2, 3)
                V = np.array([[rng.uniform(0, 0.03) for _ in range(ncol)] for _ in range(m)])
                TT = np.array([[rng.uniform(200, 310) for _ in range(ncol)] for _ in range(m)])
                ax = rng.choice([0, 1])
                Vin, Tin = (V, TT) if ax == 0 else (V.T.copy(), TT.T.copy())
                ck.case(key=("axis", m, ncol, ax, x[0]), kind=f"iwv-crh/2d/axis{ax}")
                c6 = {"fn": "2d", "p": x[:6], "axis": ax, "n": m, "columns": ncol}
                Vin, lv = numlib.relayout(np, rng, Vin)
                Tin, lt = numlib.relayout(np, rng, Tin)
                c6["layout"] = [lv, lt]
                ck.count(f"layout/{lv}")
                iw2 = np.asarray(atm.integrate_water_vapor(Vin, xa, axis=ax))
                for j in range(ncol):
                    w1 = float(atm.integrate_water_vapor(V[:, j].copy(), xa))
                    if iw2.shape != (ncol,) or rel(iw2[j], w1) > 1e-12:
                        ck.violation("other", f"integrate_water_vapor along axis {ax} of a 2-d array differs from the 1-d result of column {j}", c6)
                        break
                qsat = np.array([[float(atm.water_vapor_pressure2specific_humidity(atm.e_eq_mixed_mk(TT[i, j]), x[i])) for j in range(ncol)] for i in range(m)])
                if np.all((qsat > 0) & (qsat < 1)):
                    frac = np.array([rng.uniform(0.1, 0.9) for _ in range(ncol)])
                    Q = qsat * frac[None, :]
                    Qin = Q if ax == 0 else Q.T.copy()
                    Qin, lq = numlib.relayout(np, rng, Qin)
                    c6["layout"] = [lv, lt, lq]
                    crh2 = np.asarray(atm.column_relative_humidity(Qin, xa.copy(), Tin, axis=ax))
                    if crh2.shape != (ncol,) or np.max(np.abs(crh2 - frac)) > 1e-10:
                        ck.violation("other", f"column_relative_humidity along axis {ax}: columns at {frac.tolist()} of saturation give {crh2.tolist()}", c6)
    # ---------------- long columns (the property ranges over 2 .. 10^4 levels): exact integral, split, unit spacing
    sizes = [4097, 10000] if ck.tier == "quick" else [1023, 1025, 4095, 4096, 4097, 8193, 10000, rng.randint(4098, 9999)]
    for m in sizes:
        kind = rng.choice(["uniform", "irregular", "pressure"])
        x = gen_grid(rng, m, kind)
        y = [float(rng.randint(-9, 9)) if rng.random() < 0.5 else rng.uniform(0, 5) for _ in range(m)]
        xa, ya = np.array(x), np.array(y)
        case = {"fn": "integrate_column/long", "n": m, "grid": kind, "x": x[:4], "y": y[:4]}
        ck.case(key=("long", m, x[0], y[0]), kind=f"trapz/long/n{m}")
        scale = float(sum(abs((Fraction(x[i + 1]) - Fraction(x[i])) * (Fraction(y[i]) + Fraction(y[i + 1])) / 2) for i in range(m - 1))) or 1.0
        got = float(tmath.integrate_column(ya, xa))
        if abs(got - float(frac_trapz(x, y))) > 1e-11 * scale:
            ck.violation("other", f"integrate_column on {m} levels = {got!r}, integral of the piecewise-linear interpolant = {float(frac_trapz(x, y))!r}", case)
        unit = float(tmath.integrate_column(ya))
        wu = float(sum((Fraction(y[i]) + Fraction(y[i + 1])) / 2 for i in range(m - 1)))
        if abs(unit - wu) > 1e-11 * (sum(abs(v) for v in y) + 1):
            ck.violation("other", f"integrate_column(y) without x on {m} levels = {unit!r}, unit-spacing value {wu!r}", case)
        k = rng.choice([m // 2, 4096 if m > 4097 else m // 3, rng.randint(1, m - 2)])
        parts = float(tmath.integrate_column(ya[:k + 1], xa[:k + 1])) + float(tmath.integrate_column(ya[k:], xa[k:]))
        if abs(parts - got) > 1e-11 * scale:
            ck.violation("other", f"integrate_column on {m} levels not additive when split at grid point {k}", dict(case, split=k))
        two = np.asarray(tmath.integrate_column(np.stack([ya, 2 * ya]), xa, axis=1))
        if two.shape != (2,) or abs(float(two[0]) - got) > 1e-11 * scale or abs(float(two[1]) - 2 * got) > 2e-11 * scale:
            ck.violation("other", f"integrate_column along axis 1 of a (2, {m}) array differs from the 1-d integrals", case)
        if kind == "pressure":
            vm = np.full(m, 0.01)
            iw = float(atm.integrate_water_vapor(vm, xa))
            qv = Fraction(0.01) * Fraction(MW) / ((1 - Fraction(0.01)) * Fraction(MD) + Fraction(0.01) * Fraction(MW))
            wiw = float(-qv * (Fraction(x[-1]) - Fraction(x[0])) / Fraction(G))
            if rel(iw, wiw) > 1e-10:
                ck.violation("other", f"integrate_water_vapor of a well-mixed column on {m} levels = {iw!r}, expected {wiw!r}", case)
    # ---------------- refinement: both IWV forms converge; isothermal column
    for _ in range(max(n // 10, 3)):
        T0, x0 = rng.uniform(220, 300), rng.uniform(1e-4, 0.03)
        p0, p1 = 1.0e5, rng.uniform(2e4, 6e4)
        Mm = (1 - x0) * MD + x0 * MW
        Rm = RSTAR / Mm
        diffs, zerrs = [], []
        for lev in (40, 80, 160):
            p = np.linspace(p0, p1, lev)
            z = Rm * T0 / G * np.log(p0 / p)                 # hydrostatic height of the moist column
            vm, TT = np.full(lev, x0), np.full(lev, T0)
            ih = float(atm.integrate_water_vapor(vm, p))
            ig = float(atm.integrate_water_vapor(vm, p, TT, z))
            diffs.append(abs(ih - ig) / ih)
            zz = np.asarray(atm.pressure2height(p, TT))
            zerrs.append(abs(zz[-1] - RSTAR / MD * T0 / G * math.log(p0 / p1)))
        ck.case(key=("refine", T0, x0, p1), kind="refinement", sample={"T": T0, "vmr": x0, "rel_diff_of_IWV_forms": diffs, "height_error_m": zerrs})
        c5 = {"fn": "refinement", "T": T0, "vmr": x0, "p_top": p1}
        if not (diffs[2] < 1e-4 and 3.0 < diffs[0] / diffs[1] < 5.0 and 3.0 < diffs[1] / diffs[2] < 5.0):
            ck.violation("other", f"hydrostatic and general IWV do not converge quadratically under grid refinement: {diffs}", c5)
        if not (zerrs[2] < 1.0 and 3.0 < zerrs[0] / zerrs[1] < 5.0 and 3.0 < zerrs[1] / zerrs[2] < 5.0):
            ck.violation("other", f"pressure2height of an isothermal column does not converge to (RT/g) ln(p0/p): errors {zerrs}", c5)
    # ---------------- standard atmosphere nodes: height and pressure addressing agree
    h = [-610, 11000, 20000, 32000, 47000, 51000, 71000, 84852]
    pp = [108900, 22632, 5474.9, 868.02, 110.91, 66.939, 3.9564, 0.3734]
    tt = [19.0, -56.5, -56.5, -44.5, -2.5, -2.5, -58.5, -86.28]
    for i in range(8):
        a = float(atm.standard_atmosphere(float(h[i])))
        b = float(atm.standard_atmosphere(float(pp[i]), coordinates="pressure"))
        ck.case(key=("isa", i), kind="isa-node")
        if abs(a - (tt[i] + 273.15)) > 1e-9 or abs(b - a) > 1e-9:
            ck.violation("other", f"standard_atmosphere at tabulated level {i}: height addressing {a!r}, pressure addressing {b!r}, table {tt[i] + 273.15!r}", {"fn": "standard_atmosphere", "level": i})
    xs = [float(v) for v in h]
    ys = [t + 273.15 for t in tt]
    for _ in range(20):
        zq = rng.choice(xs) if rng.random() < 0.3 else rng.uniform(-2000, 90000)
        model(f"interp 8 {bl(xs)} {bl(ys)} {numlib.bits(zq)}", float(atm.standard_atmosphere(zq)), "standard_atmosphere(z)", {"fn": "standard_atmosphere", "z": zq}, 1e-12)
    lx = [math.log(v) for v in pp][::-1]
    for _ in range(20):
        pq = rng.choice(pp) if rng.random() < 0.3 else numlib.loguniform(rng, 0.2, 1.2e5)
        model(f"interp 8 {bl(lx)} {bl(ys[::-1])} {numlib.bits(math.log(pq))}", float(atm.standard_atmosphere(pq, coordinates="pressure")),
              "standard_atmosphere(p, 'pressure')", {"fn": "standard_atmosphere", "p": pq}, 1e-11)
    # ---------------- run the model
    if use_model and lines:
        out = ck.driver(lines, exe="drv_col")
        for o, (real, what, case, tol) in zip(out, expect):
            if o in ("bad-op", "none"):
                ck.disagree(f"model answered {o} for {what}", case)
                continue
            mv = [numlib.unbits(t) for t in o.split()]
            rv = real if isinstance(real, list) else [real]
            if len(mv) != len(rv) or any(abs(a - b) > tol * max(abs(a), abs(b), 1e-300) + 1e-300 for a, b in zip(mv, rv)):
                ck.disagree(f"{what}: model {mv[:4]} vs code {rv[:4]}", case)
        ck.count("model/compared", len(lines))


def main():
    ck = vlib.Check(PROP, pkg="numeric", props="Proofs.Props.C14", more_props=["Proofs.Props.C14Refine"], driver="drv_col", extra_targets=[],
                    lemma_files=["Proofs/Lemmas/Trapz.lean", "Proofs/Lemmas/Refine.lean"], model_files=["Model/Column.lean", "GenReal/Atmosphere.lean"],
                    trusted=["hand-written array-level model Model/Column.lean (trapezoid, IWV, CRH, pressure2height, linear interpolation), tied to the code by running it with Float on the same inputs (driver drv_col) each run",
                             "tools/py2lean for the scalar converters inside (validated by the C09 cross-run)",
                             "axis handling of n-d arrays, numpy cumsum/diff/hstack, scipy interp1d are modelled for 1-d data; other axes are exercised by the harness only",
                             "refinement limits are PROVED over the reals (Proofs/Props/C14Refine.lean: trapezoid error M/12 mesh^2 length, IWV forms agree up to an explicit O(mesh^2) bound + the 1e-16 inconsistency of the double gas constants, isothermal pressure2height -> (RT/g) ln(p0/p)); the floating-point behaviour (error ratio ~4 per halving) is validated numerically"],
                    assumptions=["0 <= vmr < 1, positive pressures strictly decreasing, positive temperatures"])
    ck.rule = ("uniform / irregular / pressure-like grids (2..2000 levels, increasing and decreasing), random integrands, 2-d arrays along both axes, "
               "moist profiles; non-trivial = distinct (grid, integrand) case")
    ck.anchors([("typhon/math/common.py", "integrate_column"), ("typhon/physics/atmosphere.py", "integrate_water_vapor"),
                ("typhon/physics/atmosphere.py", "column_relative_humidity"), ("typhon/physics/atmosphere.py", "pressure2height"),
                ("typhon/physics/atmosphere.py", "standard_atmosphere")])
    numlib.regenerate(ck, NEEDED)
    ck.build()
    import numpy as np
    from typhon import math as tmath
    from typhon.physics import atmosphere as atm
    use_model = True
    try:
        ck.driver(["trapz 2 0 0 0 0"], exe="drv_col")
    except vlib.InfraError:
        use_model = False
        ck.notes.append("model driver not available (build broken): correspondence skipped")
    for _name, c in vlib.load_corpus(PROP):
        corpus_case(ck, c, np, tmath, atm)
    ck.guard(lambda: explore(ck, ck.budget(120, 3000), np, tmath, atm, use_model), what="typhon (column integrals)")
    if ck.broken() and not ck.violations:
        ck.guard(lambda: explore(ck, 3000, np, tmath, atm, use_model=False), what="typhon (column integrals)")
    ck.finish()


def corpus_case(ck, c, np, tmath, atm):
    """stored witnesses: {"fn": "integrate_column", "x", "y", "expect"} | {"fn": "crh2d", ...}"""
    if c.get("fn") == "integrate_column":
        got = float(tmath.integrate_column(np.array(c["y"], float), np.array(c["x"], float)))
        ck.case(key=("corpus", str(c["x"])), kind="corpus")
        if abs(got - c["expect"]) > 1e-12 * max(abs(c["expect"]), 1.0):
            ck.violation("other", f"integrate_column({c['y']}, {c['x']}) = {got!r}, expected {c['expect']!r}", c)
    if c.get("fn") == "crh2d":
        t = np.linspace(240, 320, 10)
        p = np.linspace(1000e2, 250e2, 10)
        qs = np.array([float(atm.water_vapor_pressure2specific_humidity(atm.e_eq_mixed_mk(tt), pp)) for tt, pp in zip(t, p)])
        Q = np.stack([0.5 * qs, 0.3 * qs], axis=1)
        T = np.stack([t, t], axis=1)
        got = np.asarray(atm.column_relative_humidity(Q, p, T, axis=0))
        ck.case(key=("corpus", "crh2d"), kind="corpus")
        if got.shape != (2,) or np.max(np.abs(got - np.array([0.5, 0.3]))) > 1e-10:
            ck.violation("other", f"column_relative_humidity of two columns at 0.5 / 0.3 of saturation = {got.tolist()}", c)


def replay(path):
    import numpy as np
    from typhon import math as tmath
    from typhon.physics import atmosphere as atm
    numlib.replay_by_rerun(PROP, path, lambda: vlib.Check(PROP, pkg="numeric", props="Proofs.Props.C14", more_props=["Proofs.Props.C14Refine"]),
                           lambda ck: (ck.guard(lambda: explore(ck, ck.budget(120, 3000), np, tmath, atm, use_model=False)),
                                       [corpus_case(ck, c, np, tmath, atm) for _n, c in vlib.load_corpus(PROP)]))
