"""C10 — parallel map / imap / collect process each file once and keep file order.

Decided by: theorems in lean/pool/Proofs/Props/C10.lean about the hand-written event-system
model lean/pool/Model/Pool.lean (+ Model/Align.lean) + correspondence of the model's executable
definitions (driver drv_c10) with FileSet.map / imap / collect / icollect / align of the real
code under FORCED completion orders + an independent oracle on the real code.

Forced schedules: every task blocks on a gate (threads: threading.Event, processes: marker
files); a controller thread releases the tasks following the effective order the release rule
produces from a wished permutation ("a task that has not started cannot be released; release
the earliest in-flight task first").  The same rule is implemented in the model (Pool.drive /
Pool.mdrive) and, independently, below (eff_imap / eff_map); all three must agree.
"""
import collections
import datetime as dt
import itertools
import json
import os
import shutil
import tempfile
import threading
import time
import warnings

import vlib
from props import c10_workers as cw

PROP = "C10"
TEMPLATE = "{year}{month}{day}_{hour}{minute}-{end_hour}{end_minute}.dat"
BASE = dt.datetime(2020, 1, 1)
KINDS_LAZY = ("imap", "icollect")
UARGS = ["A"]            # ONE list object handed to map(args=…): the wrapper must copy it per task
UKWARGS = {"k": 1}


def tmin(m):
    return BASE + dt.timedelta(minutes=m)


# ------------------------------------------------------------------ scratch filesets
class Scratch:
    def __init__(self, root):
        self.root = root
        self.sets = {}

    def fileset(self, name, spans, max_threads=None, max_processes=None, worker_type=None):
        """FileSet `name` with one file per (start_minute, end_minute); cached"""
        from typhon.files import FileSet, FileHandler
        key = (name, tuple(spans), max_threads, max_processes, worker_type)
        if key in self.sets:
            return self.sets[key]
        d = os.path.join(self.root, f"k{len(self.sets)}", name)
        os.makedirs(d)
        fs = FileSet(os.path.join(d, TEMPLATE), name=name, handler=FileHandler(reader=cw.reader, writer=cw.writer),
                     max_threads=max_threads, max_processes=max_processes, worker_type=worker_type)
        ids = {}
        for i, (a, b) in enumerate(spans):
            p = fs.get_filename((tmin(a), tmin(b)))
            with open(p, "w") as fh:
                fh.write(str(1000 + i))
            ids[os.path.basename(p)] = i
        cw.CTL[name] = cw.Ctl(name=name, ids=ids)       # so that file_id works for find()
        infos = {cw.file_id(f): f for f in fs.find()}
        self.sets[key] = (fs, ids, infos)
        return self.sets[key]


# ------------------------------------------------------------------ release rule (python side)
def eff_imap(n, w, perm, fail):
    """completion order produced by the release rule for imap (generator + eager consumer)"""
    nxt, queue, done, failed, order = 0, [], set(), False, []

    def settle():
        nonlocal nxt, failed
        while True:
            if not failed and nxt < n and len(queue) < w:
                queue.append(nxt)
                nxt += 1
                continue
            if not failed and (len(queue) >= w or nxt == n) and queue and queue[0] in done:
                h = queue.pop(0)
                if h in fail:
                    failed = True
                continue
            break

    def release(t):
        while True:
            settle()
            if t in done or t >= n or (failed and t not in queue):
                return
            infl = [i for i in queue if i not in done]
            pick = t if t in queue else (infl[0] if infl else None)
            if pick is None:
                return
            done.add(pick)
            order.append(pick)
            if pick == t:
                return

    for t in perm:
        release(t)
    for t in range(n):
        release(t)
    settle()
    return order


def eff_map(n, w, perm):
    started, done, order = 0, set(), []

    def settle():
        nonlocal started
        while started < n and started - len(done) < w:
            started += 1

    def release(t):
        while True:
            settle()
            if t in done or t >= n:
                return
            running = [i for i in range(started) if i not in done]
            pick = t if t < started else (running[0] if running else None)
            if pick is None:
                return
            done.add(pick)
            order.append(pick)
            if pick == t:
                return

    for t in perm:
        release(t)
    for t in range(n):
        release(t)
    return order


# ------------------------------------------------------------------ case helpers
def tasks_of(case):
    sel, b = case["sel"], case.get("bundle", 0)
    if b:
        return [sel[i:i + b] for i in range(0, len(sel), b)]
    return [[f] for f in sel]


def model_cfg(case):
    k = case["kind"]
    if k in ("icollect", "collect"):
        return (1, 0, 1 if k == "collect" else case["ri"], case["ew"], 0), "P"
    return (case["oc"], case["pi"], case["ri"], case["ew"], case.get("out", 0)), case["fb"]


def model_line(case):
    cfg, fb = model_cfg(case)
    k = case["kind"]
    op = {"imap": "imap", "icollect": "imap", "map": "map", "collect": "collect"}[k]
    files = " ".join(("b" + ",".join(map(str, t))) if case.get("bundle") else f"s{t[0]}" for t in tasks_of(case))
    tag = 100000 * case.get("tag", 0)
    rd = " ".join({"o": f"o{1000 + i + tag}", "n": "n", "f": "f"}[c] for i, c in enumerate(case["rb"]))
    ua = " UA;k=1" if case.get("ua") else ""
    return f"{op} {case['w']} {''.join(map(str, cfg))}{ua} | {files} | {rd} | {fb} | " + (" ".join(map(str, case["perm"])) or "-")


def render_content(c):
    return cw.render_content(c)


def oracle(case):
    """expected observable behaviour, computed directly from the case description"""
    cfg, fb = model_cfg(case)
    oc, pi, ri, ew, out = cfg
    rb = case["rb"]
    single = not case.get("bundle")
    per = []
    writes = {}
    tag = 100000 * case.get("tag", 0)
    upre, usuf = ("UA", "Kk=1") if case.get("ua") else ("", "")
    for files in tasks_of(case):
        info_r = f"s{files[0]}" if single else "b" + ",".join(map(str, files))
        head = info_r if ri else "-"
        content = None
        if oc:
            bad = [f for f in files if rb[f] == "f"]
            if bad:
                per.append(("ok", head + "/N", True) if ew else ("err", f"read:{bad[0]}"))
                continue
            content = (None if rb[files[0]] == "n" else 1000 + files[0] + tag) if single \
                else [1000 + f + tag for f in files if rb[f] == "o"]
        if fb == "P":
            per.append(("ok", head + "/" + ("N" if content is None else "V" + render_content(content)), False))
            continue
        if not oc:
            text, key = "I" + info_r, files[0]
        elif pi:
            text, key = "C" + render_content(content) + "I" + info_r, files[0]
        else:
            text = "C" + render_content(content)
            key = (content - 1000) % 100000 if isinstance(content, int) else ((content[0] - 1000) % 100000 if content else None)
        text = upre + text + usuf
        beh = fb[key] if key is not None and 0 <= key < len(fb) else "v"
        if beh == "n":
            per.append(("ok", head + ("/F0" if out else "/N"), False))
        elif beh == "r":
            per.append(("err", f"func:{key}"))
        elif out:
            per.append(("ok", head + "/F1", False))
            a, b = tmin(2 * min(files)), tmin(2 * max(files) + 1)
            writes[f"{a:%Y%m%d_%H%M}-{b:%H%M}.dat"] = text
        else:
            per.append(("ok", head + "/V" + text, False))
    items, exc = [], None
    for p in per:
        if p[0] == "err":
            exc = p[1]
            break
        items.append(p[1])
    return {"items": items, "exc": exc, "per": per, "writes": writes,
            "warn": sum(1 for p in per if p[0] == "ok" and p[2])}


def canon_info(x):
    return cw.render_file(x)


def canon_val(v):
    if isinstance(v, tuple):
        return "?" + repr(v)[:60]
    if v is None:
        return "N"
    if isinstance(v, bool):
        return "F1" if v else "F0"
    if isinstance(v, str):
        return "V" + v
    return "V" + render_content(v)


def canon_exc(e):
    msg = str(e)
    if isinstance(e, OSError) and msg.startswith("read "):
        return "read:" + msg.split()[1]
    if isinstance(e, RuntimeError) and msg.startswith("func "):
        return "func:" + msg.split()[1]
    return f"other:{type(e).__name__}:{msg[:80]}"


def count_read_warnings(wl):
    """RuntimeWarnings issued from typhon/files/fileset.py (the only one in the mapped code path
    is the read-error warning of _call_map_function); the wording is not part of the property"""
    return sum(1 for x in wl if issubclass(x.category, RuntimeWarning)
               and os.path.basename(str(x.filename)) == "fileset.py")


def generator_cache_keys(gen):
    """ids of the secondaries currently held by align's cache, read from the suspended generator
    frame; None when the introspection is not possible (renamed local, other python) — a
    harness introspection failure is never an observation about the code"""
    try:
        loc = gen.gi_frame.f_locals
        cand = loc.get("cache")
        if not isinstance(cand, dict):
            dicts = [v for k, v in loc.items() if type(v) is dict and all(hasattr(x, "path") for x in v)]
            if len(dicts) != 1:
                return None
            cand = dicts[0]
        return sorted(cw.file_id(k) for k in cand)
    except Exception:           # noqa
        return None


class Rec:
    """counts pool.submit calls of the main thread and consumed items"""
    def __init__(self):
        self.submitted = 0
        self.consumed = 0
        self.maxout = 0
        self.pools = []                  # (kind, max_workers) of the pools created by the main thread
        self.main = threading.main_thread()

    def on_pool(self, kind, max_workers):
        if threading.current_thread() is self.main:
            self.pools.append([kind, max_workers])

    def on_submit(self):
        if threading.current_thread() is self.main:
            self.submitted += 1
            self.maxout = max(self.maxout, self.submitted - self.consumed)


REC = Rec()
STALLS = {"n": 0, "confirmed": 0, "flaky": 0}


def stall_timeout(wt):
    """waiting for a task that never starts costs wall time: be patient only for the first stalls"""
    base = 20.0 if wt == "process" else 6.0
    if STALLS["n"] >= 8:
        return 0.15 if wt != "process" else 1.0
    if STALLS["n"] >= 2:
        return 0.5 if wt != "process" else 3.0
    return base


def patched_pools():
    """context manager: typhon's pool classes replaced by recording subclasses (from outside)"""
    import contextlib
    import typhon.files.fileset as tf
    from concurrent.futures import ThreadPoolExecutor, ProcessPoolExecutor

    class RecTPE(ThreadPoolExecutor):
        def __init__(self, max_workers=None, *a, **k):
            REC.on_pool("thread", max_workers)
            super().__init__(max_workers, *a, **k)

        def submit(self, fn, *a, **k):
            REC.on_submit()
            return super().submit(fn, *a, **k)

    class RecPPE(ProcessPoolExecutor):
        def __init__(self, max_workers=None, *a, **k):
            REC.on_pool("process", max_workers)
            super().__init__(max_workers, *a, **k)

        def submit(self, fn, *a, **k):
            REC.on_submit()
            return super().submit(fn, *a, **k)

    @contextlib.contextmanager
    def cm():
        old = tf.ThreadPoolExecutor, tf.ProcessPoolExecutor
        tf.ThreadPoolExecutor, tf.ProcessPoolExecutor = RecTPE, RecPPE
        try:
            yield
        finally:
            tf.ThreadPoolExecutor, tf.ProcessPoolExecutor = old
    return cm()


def controller(ctl, order, timeout, state, armed_at=None):
    """release tasks in `order`; a task is released only after it has started"""
    for k, t in enumerate(order):
        if armed_at is not None and k >= armed_at:
            break                        # map + exception: pending futures get cancelled, free run
        if not ctl.wait_started(t, timeout):
            if not ctl.opened.is_set():
                state["stall"] = t
            break
        ctl.release(t)
        state["released"].append(t)
    # everything the rule expects has been released: whatever else was started (code that
    # deviates from the model) must not stay blocked
    ctl.open_all()


def run_real(sc, case, patience=None):
    """drive the real code on one case; returns the observation dict.
    Optional case fields for the defaults of FileSet: fs (constructor arguments max_threads /
    max_processes / worker_type), now (do not pass max_workers), nowt (do not pass worker_type),
    wnone (fileset.max_threads = None -> imap counts one worker), outstr (output= given as path)"""
    global REC
    n = case["n"]
    fs, ids, infos = sc.fileset("a", [(2 * i, 2 * i + 1) for i in range(n)], **case.get("fs", {}))
    tasks = tasks_of(case)
    cfg, fb = model_cfg(case)
    oc = cfg[0]
    wt = case.get("wt", "thread")
    gdir = None
    if wt == "process":
        gdir = tempfile.mkdtemp(dir=sc.root, prefix="gate")
    ctl = cw.Ctl(mode=wt, gdir=gdir, ntasks=len(tasks), rb=case["rb"], fb=case.get("fb", ""),
                 gate="reader" if oc else "func", task_of_file={t[0]: k for k, t in enumerate(tasks)},
                 name="a", ids=ids)
    cw.CTL["a"] = ctl
    REC = Rec()
    kw = {} if case.get("now") else {"max_workers": case["w"]}
    if case.get("tag"):
        kw["read_args"] = {"tag": case["tag"]}
    mode = case.get("mode", "all")
    if mode == "range":
        kw["start"], kw["end"] = tmin(2 * case["sel"][0]), tmin(2 * case["sel"][-1] + 1.5)
    if mode == "files":
        kw["files"] = [[infos[f] for f in t] for t in tasks] if case.get("bundle") else [infos[t[0]] for t in tasks]
    elif case.get("bundle"):
        kw["bundle"] = case["bundle"]
    kind = case["kind"]
    outdir = None
    if cfg[4]:
        from typhon.files import FileSet, FileHandler
        outdir = tempfile.mkdtemp(dir=sc.root, prefix="out")
        kw["output"] = os.path.join(outdir, TEMPLATE) if case.get("outstr") else \
            FileSet(os.path.join(outdir, TEMPLATE), name="out", handler=FileHandler(writer=cw.writer))
    if kind in ("imap", "map"):
        kw.update(on_content=bool(cfg[0]), pass_info=bool(cfg[1]), return_info=bool(cfg[2]),
                  error_to_warning=bool(cfg[3]))
        if not case.get("nowt"):
            kw["worker_type"] = wt
        if case.get("ua"):
            kw.update(args=UARGS, kwargs=UKWARGS)
        call = (lambda: fs.imap(cw.func, **kw)) if kind == "imap" else (lambda: fs.map(cw.func, **kw))
    elif kind == "icollect":
        kw.update(return_info=bool(case["ri"]), error_to_warning=bool(case["ew"]))
        call = lambda: fs.icollect(**kw)
    else:
        kw.update(return_info=bool(case["ri"]), error_to_warning=bool(case["ew"]))
        call = lambda: fs.collect(**kw)
    exp = oracle(case)
    fail = {k for k, p in enumerate(exp["per"]) if p[0] == "err"}
    if kind in KINDS_LAZY:
        order = eff_imap(len(tasks), case["w"], case["perm"], fail)
        armed_at = None
    else:
        order = eff_map(len(tasks), case["w"], case["perm"])
        armed_at = None
        if fail:
            k0 = min(fail)
            pos = max(order.index(i) for i in range(k0 + 1))
            armed_at = pos            # release up to (excluding) the event that arms the exception
    state = {"released": [], "stall": None}
    ctrl = threading.Thread(target=controller, args=(ctl, order, patience or stall_timeout(wt), state, armed_at),
                            daemon=True)
    obs = {"items": [], "exc": None, "order": order}
    has_info = bool(cfg[2]) if kind != "collect" else False
    t0 = time.time()
    old_mt = fs.max_threads
    if case.get("wnone"):
        fs.max_threads = None
    with patched_pools(), warnings.catch_warnings(record=True) as wl:
        warnings.simplefilter("always")
        ctrl.start()
        try:
            if kind in KINDS_LAZY:
                for item in call():
                    REC.consumed += 1
                    obs["items"].append(item)
            elif kind == "map":
                obs["items"] = list(call())
            else:
                res = call()
                try:
                    if case["ri"]:
                        obs["infos"], obs["data"] = [canon_info(i) for i in res[0]], [canon_val(v) for v in res[1]]
                    else:
                        obs["infos"], obs["data"] = None, [canon_val(v) for v in res]
                except Exception:       # noqa
                    obs["infos"], obs["data"] = None, ["?" + repr(res)[:80]]
        except Exception as e:          # noqa: the exception IS the observation
            obs["exc"] = canon_exc(e)
        finally:
            ctl.open_all()
            ctrl.join(30)
            fs.max_threads = old_mt
        obs["warn"] = count_read_warnings(wl)
    if kind != "collect":
        items = []
        for it in obs["items"]:
            try:
                if has_info:
                    info, val = it
                    items.append(canon_info(info) + "/" + canon_val(val))
                else:
                    items.append("-/" + canon_val(it))
            except Exception:           # noqa: a malformed result is an observation, not a crash
                items.append("?" + repr(it)[:60])
        obs["items"] = items
    if state["stall"] is not None:
        STALLS["n"] += 1
    if UARGS != ["A"] or UKWARGS != {"k": 1}:
        obs["exc"] = (obs["exc"] or "") + f"|user-args-mutated:{UARGS}"
        UARGS[:] = ["A"]
    obs["pools"] = REC.pools
    obs.update(maxout=REC.maxout, submitted=REC.submitted, released=state["released"], stall=state["stall"],
               reads=collections.Counter(ctl.read_log()), wall=time.time() - t0)
    if gdir:
        shutil.rmtree(gdir, ignore_errors=True)
    if outdir:
        obs["writes"] = {f: open(os.path.join(outdir, f)).read() for f in sorted(os.listdir(outdir))}
        shutil.rmtree(outdir, ignore_errors=True)
    return obs, exp


def parse_model(case, out):
    f = [x.strip() for x in out.split(" | ")]
    lst = lambda s: [] if s == "-" else s.split()
    if case["kind"] == "collect":
        if len(f) != 4:
            return {"bad": out}
        return {"infos": lst(f[0]), "data": ["V" + x for x in lst(f[1])], "exc": None if f[2] == "-" else f[2], "warn": int(f[3])}
    if len(f) != 7:
        return {"bad": out}
    return {"events": lst(f[0]), "items": lst(f[1]), "exc": None if f[2] == "-" else f[2],
            "maxq": f[3], "log": lst(f[4]), "warn": int(f[5]), "writes": lst(f[6])}


def classify(case, what):
    return "other"


def check_case(ck, sc, case, model_out=None):
    """real run + oracle (+ model comparison when model_out is given)"""
    obs, exp = run_real(sc, case)
    if obs["stall"] is not None and STALLS["confirmed"] < 3:
        # a task did not start in time: host load or a real deviation?  run the case once more
        # with a long patience; only a stall that repeats is an observation about the code
        obs2, _ = run_real(sc, case, patience=15.0 if case.get("wt") != "process" else 40.0)
        if obs2["stall"] is None:
            STALLS["flaky"] += 1
            ck.count("stall-not-repeated(host-load)")
            obs = obs2
            if STALLS["flaky"] >= 3:
                raise vlib.InfraError("tasks repeatedly failed to start in time although they start on retry: host too loaded")
        else:
            STALLS["confirmed"] += 1
            obs = obs2
    kind, wt = case["kind"], case.get("wt", "thread")
    tasks = tasks_of(case)
    nt = len(tasks)
    lazy = kind in KINDS_LAZY
    viol = lambda what: ck.violation(classify(case, what), what, case)
    # ---------------- oracle
    if obs["stall"] is not None and obs["exc"] is None and kind != "collect" and len(obs["items"]) < len(exp["items"]):
        viol(f"stall: task {obs['stall']} never started and the results are incomplete")
    if obs["exc"] != exp["exc"]:
        viol(f"{kind}: exception reaching the caller is {obs['exc']}, expected {exp['exc']}")
    if kind == "collect":
        if exp["exc"] is None:
            want = [(i.split("/")[0], i.split("/", 1)[1]) for i in exp["items"] if not i.endswith("/N")]
            if obs.get("data") != [v for _, v in want]:
                viol(f"collect returned contents {obs.get('data')}, expected {[v for _, v in want]}")
            if case["ri"] and obs.get("infos") != [i for i, _ in want]:
                viol(f"collect returned infos {obs.get('infos')}, expected {[i for i, _ in want]}")
    elif lazy or exp["exc"] is None:
        if obs["items"] != exp["items"]:
            viol(f"{kind} delivered {obs['items']}, expected (find() order) {exp['items']}")
    if "writes" in obs:
        if exp["exc"] is None and obs["writes"] != exp["writes"]:
            viol(f"output files {obs['writes']}, expected {exp['writes']}")
        elif any(exp["writes"].get(k) != v for k, v in obs["writes"].items()):
            viol(f"unexpected output files {obs['writes']}, expected a subset of {exp['writes']}")
    if lazy and obs["maxout"] > case["w"] and not case.get("wnone"):   # max_workers=None: no bound claimed
        viol(f"{kind} held {obs['maxout']} submitted-but-unconsumed tasks with max_workers={case['w']}")
    oc = model_cfg(case)[0][0]
    over = {f: c for f, c in obs["reads"].items() if c > 1}
    if over:
        viol(f"files read more than once: {over}")
    if exp["exc"] is None:
        if obs["submitted"] != nt:
            viol(f"{obs['submitted']} tasks submitted for {nt} inputs")
        clean = [f for t, p in zip(tasks, exp["per"]) if not (p[0] == "ok" and p[2]) for f in t]
        want_reads = {f: 1 for f in clean} if oc else {}
        got_reads = {f: c for f, c in obs["reads"].items() if f in set(clean)}
        if got_reads != want_reads or (not oc and obs["reads"]):
            viol(f"read counts {dict(obs['reads'])}, expected once per selected file: {want_reads}")
        if wt == "thread" and obs["warn"] != exp["warn"]:
            viol(f"{obs['warn']} read warnings, expected {exp['warn']}")
    nontriv = nt >= 2 and case["perm"] != sorted(case["perm"])
    ck.case(key=json.dumps(case, sort_keys=True) if nontriv else None,
            kind=f"{kind}/{wt}/" + ("exc" if exp["exc"] else "ok") + ("/bundle" if case.get("bundle") else "")
            + ("/output" if case.get("out") else "") + f"/{case.get('mode', 'all')}",
            sample={"kind": kind, "workers": case["w"], "tasks": nt, "wish": case["perm"], "released": obs["released"],
                    "yielded": obs["items"][:4] if kind != "collect" else obs.get("data", [])[:4]})
    # configuration chosen by _configure_pool_and_worker_args (defaults are not claimed by the
    # property: a difference is model drift, not a violation)
    want_pool = [wt if kind in ("imap", "map") else "thread", None if case.get("wnone") else case["w"]]
    if obs["pools"][:1] != [want_pool]:
        ck.disagree(f"pool configuration: code created {obs['pools'][:1]}, expected {want_pool}", case)
    if model_out is None:
        return
    # ---------------- correspondence with the model
    m = parse_model(case, model_out)
    dis = lambda what: ck.disagree(what, case)
    if "bad" in m:
        dis(f"model output unreadable: {model_out[:100]}")
        return
    if m["exc"] != obs["exc"]:
        dis(f"exception: model {m['exc']} vs code {obs['exc']}")
    if kind == "collect":
        if m["exc"] is None and (m["data"] != obs.get("data") or (case["ri"] and m["infos"] != obs.get("infos"))):
            dis(f"collect: model {m['infos']} {m['data']} vs code {obs.get('infos')} {obs.get('data')}")
    elif lazy or m["exc"] is None:
        if m["items"] != obs["items"]:
            dis(f"items: model {m['items']} vs code {obs['items']}")
    if kind != "collect":
        mc = [int(e[1:]) for e in m["events"] if e.startswith("c")]
        if mc != obs["order"]:
            dis(f"release rule: model completes {mc}, python rule {obs['order']}")
        if obs["stall"] is not None:
            dis(f"stall: task {obs['stall']} did not start although the model has it in flight (released {obs['released']})")
        elif m["exc"] is None and obs["released"] != mc:
            dis(f"effective schedule: code released {obs['released']}, model {mc}")
        if lazy and str(obs["maxout"]) != m["maxq"]:
            dis(f"max submitted-but-unconsumed: code {obs['maxout']} vs model {m['maxq']}")
        if m["exc"] is None and [int(x) for x in m["log"]] != list(range(nt)):
            dis(f"model submit log {m['log']}")
    if "writes" in obs and m["exc"] is None and obs["exc"] is None and sorted(m["writes"]) != sorted(obs["writes"].values()):
        dis(f"written values: model {m['writes']} vs code {obs['writes']}")
    if wt == "thread" and m["exc"] is None and obs["exc"] is None and m["warn"] != obs["warn"]:
        dis(f"warnings: model {m['warn']} vs code {obs['warn']}")


# ------------------------------------------------------------------ align
def align_oracle(c):
    """sequential specification of align on hand-made matches"""
    out, exc = [], None
    pa, sb = c["prb"], c["srb"]
    seen = set()
    flat = [s for _, ss in c["matches"] for s in ss]
    remaining = collections.Counter(flat)
    caches = []
    for p, ss in c["matches"]:
        if pa[p] == "f" and not c["skip"]:
            exc = f"read:{p}"
            break
        pd = None if pa[p] in "nf" else 1000 + p
        stop = False
        for s in ss:
            if s not in seen:
                if sb[s] == "f" and not c["skip"]:
                    exc = f"read:{s}"
                    stop = True
                    break
                seen.add(s)
            remaining[s] -= 1
            sd = None if sb[s] in "nf" else 1000 + s
            if pd is None or (sd is None and c["skip"]):
                continue
            out.append((p, pd, s, sd))
            caches.append(sorted(x for x in seen if remaining[x] > 0))
        if stop:
            break
    return {"out": out, "exc": exc, "caches": caches}


def align_controller(ctls, perm, state):
    """model-free release rule for the two loaders of align: release the wished task once it has
    started; while it has not, release the earliest started task of each loader"""
    released = set()
    t_end = time.time() + 30

    def rel(t):
        ctls[t[0]].release(t[1])
        released.add(t)
        state["released"].append(t)

    for target in perm:
        while target not in released and not state["done"]:
            c = ctls[target[0]]
            if c.is_started(target[1]) or c.wait_started(target[1], 0.015):
                rel(target)
                break
            heads = []
            for nm, cc in ctls.items():
                st = [k for k in range(cc.ntasks) if cc.is_started(k) and (nm, k) not in released]
                if st:
                    heads.append((nm, min(st)))
            for h in heads:
                rel(h)
            if not heads and time.time() > t_end:
                state["stall"] = target
                break
        if state["done"] or state["stall"]:
            break
    for cc in ctls.values():
        cc.open_all()


def align_case(ck, sc, c, model_out=None):
    from typhon.files.fileset import AlignError
    a, ida, infa = sc.fileset("a", [(10 * i, 10 * i + 9) for i in range(c["np"])], max_threads=c["w"])
    b, idb, infb = sc.fileset("b", [(7 * i, 7 * i + 6) for i in range(c["ns"])], max_threads=c["w"])
    prim = [p for p, _ in c["matches"]]
    flat = [s for _, ss in c["matches"] for s in ss]
    uniq = list(dict.fromkeys(flat))
    # a primary listed twice is read twice: gate only its first task
    tofa = {}
    for k, p in enumerate(prim):
        tofa.setdefault(p, k)
    dup_prim = len(set(prim)) != len(prim)
    cta = cw.Ctl(mode="thread", ntasks=len(prim), rb=c["prb"], gate="none" if dup_prim else "reader",
                 task_of_file=tofa, name="a", ids=ida)
    ctb = cw.Ctl(mode="thread", ntasks=len(uniq), rb=c["srb"], gate="reader",
                 task_of_file={s: k for k, s in enumerate(uniq)}, name="b", ids=idb)
    cw.CTL["a"], cw.CTL["b"] = cta, ctb
    ctls = {"a": cta, "b": ctb}
    if dup_prim:
        ctls = {"b": ctb}
    matches = [(infa[p], [infb[s] for s in ss]) for p, ss in c["matches"]]
    perm = [tuple(t) for t in c["perm"] if tuple(t)[0] in ctls]
    state = {"released": [], "stall": None, "done": False}
    ctrl = threading.Thread(target=align_controller, args=(ctls, perm, state), daemon=True)
    got, caches, exc = [], [], None
    with warnings.catch_warnings(record=True) as wl:
        warnings.simplefilter("always")
        ctrl.start()
        try:
            gen = a.align(b, matches=matches, return_info=bool(c["ri"]), skip_errors=bool(c["skip"]))
            for prim_y, sec_y in gen:
                if c["ri"]:
                    got.append((cw.file_id(prim_y[0]), prim_y[1], cw.file_id(sec_y[0]), sec_y[1]))
                else:
                    got.append((None, prim_y, None, sec_y))
                caches.append(generator_cache_keys(gen))
        except Exception as e:          # noqa
            exc = "align" if isinstance(e, AlignError) else canon_exc(e)
        finally:
            state["done"] = True
            for cc in (cta, ctb):
                cc.open_all()
            ctrl.join(30)
        nwarn = count_read_warnings(wl)  # noqa: recorded for the sample only
    exp = align_oracle(c)
    viol = lambda what: ck.violation("other", what, c)
    want = exp["out"] if c["ri"] else [(None, x[1], None, x[3]) for x in exp["out"]]
    if exc != exp["exc"]:
        viol(f"align raised {exc}, expected {exp['exc']}")
    if got != want:
        viol(f"align yielded {got}, expected {want}")
    cache_seen = all(x is not None for x in caches)
    if not cache_seen:
        ck.count("align/cache-not-observable")
    if cache_seen and caches != exp["caches"][:len(caches)] and exc == exp["exc"]:
        viol(f"align cache at the yields {caches}, expected {exp['caches']}")
    ra, rb_ = collections.Counter(cta.read_log()), collections.Counter(ctb.read_log())
    if any(v > 1 for v in rb_.values()):
        viol(f"a secondary was read more than once: {dict(rb_)}")
    if exp["exc"] is None:
        if dict(rb_) != {s: 1 for s in uniq}:
            viol(f"secondary read counts {dict(rb_)}, expected each of {uniq} once")
        if dict(ra) != dict(collections.Counter(prim)):
            viol(f"primary read counts {dict(ra)}, expected {dict(collections.Counter(prim))}")
    shared = len(flat) - len(uniq)
    ck.case(key=json.dumps(c, sort_keys=True) if shared > 0 and len(c["matches"]) > 1 else None,
            kind="align/" + ("exc" if exp["exc"] else "ok") + ("/skip" if c["skip"] else ""),
            sample={"kind": "align", "matches": c["matches"], "yielded": len(got), "shared_uses": shared})
    if model_out is None or exp["exc"] is not None:
        return
    f = [x.strip() for x in model_out.split(" | ")]
    if len(f) != 5:
        ck.disagree(f"model output unreadable: {model_out[:100]}", c)
        return
    num = lambda s: None if s == "N" else int(s)
    mpairs = []
    for t in ([] if f[0] == "-" else f[0].split()):
        l, r = t.split("~")
        mpairs.append((int(l.split(":")[0]), num(l.split(":")[1]), int(r.split(":")[0]), num(r.split(":")[1])))
    if mpairs != exp["out"] or (c["ri"] and mpairs != got):
        ck.disagree(f"align pairs: model {mpairs} vs code {got}", c)
    if f[2] != "-":
        ck.disagree(f"align: model error {f[2]}, code {exc}", c)
    mreq = [] if f[1] == "-" else [int(x) for x in f[1].split()]
    order_read = list(dict.fromkeys(ctb.read_log()))
    if sorted(mreq) != sorted(rb_) or mreq != uniq:
        ck.disagree(f"align loader requests: model {mreq}, code read {order_read}", c)
    # cache snapshots: model trace entry where the out length first reaches j+1
    mt = {}
    for t in ([] if f[3] == "-" else f[3].split()):
        k, v = t.split("=")
        mt.setdefault(int(k), sorted(int(x) for x in v.split(",") if x))
    mc = [mt.get(j + 1) for j in range(len(caches))]
    if cache_seen and mc != caches:
        ck.disagree(f"align cache at yields: model {mc} vs code {caches}", c)
    if f[4] != "0":
        ck.disagree(f"align: model leaves {f[4]} items in the secondary loader", c)


def align_line(c):
    ms = " ".join(f"{p}:" + ",".join(map(str, ss)) for p, ss in c["matches"])
    dat = lambda rb, i: "n" if rb[i] in "nf" else f"o{1000 + i}"
    pd = " ".join(dat(c["prb"], p) for p, _ in c["matches"])
    sl = " ".join(dat(c["srb"], s) for s in range(c["ns"]))
    return f"align {c['skip']} | {ms} | {pd} | {sl}"


def gen_align(rng, big=False):
    np_, ns = rng.randint(1, 5), rng.randint(1, 6)
    style = rng.choice(["window", "random", "shared", "single"])
    k = rng.randint(1, np_)
    prims = rng.sample(range(np_), k)
    if rng.random() < 0.7:
        prims.sort()
    if rng.random() < 0.1 and k > 1:
        prims[-1] = prims[0]          # the same primary matched twice
    matches = []
    for j, p in enumerate(prims):
        if style == "window":
            lo = min(ns - 1, j)
            ss = list(range(lo, min(ns, lo + rng.randint(1, 3))))
        elif style == "shared":
            ss = [0] + rng.sample(range(ns), rng.randint(0, min(2, ns)))
        elif style == "single":
            ss = [rng.randrange(ns)]
        else:
            ss = [rng.randrange(ns) for _ in range(rng.randint(0 if len(prims) > 1 else 1, 4))]
        matches.append([p, ss])
    if not any(ss for _, ss in matches):
        matches[0][1] = [0]
    skip = rng.choice([0, 1, 1])
    pf = rng.random() < 0.35
    beh = lambda n, p: "".join(rng.choice("onf" if skip or rng.random() < 0.15 else "on") if rng.random() < p else "o" for _ in range(n))
    prb, srb = beh(np_, 0.3 if pf else 0), beh(ns, 0.3 if pf else 0)
    flat = list(dict.fromkeys(s for _, ss in matches for s in ss))
    tasks = [["a", i] for i in range(len(prims))] + [["b", i] for i in range(len(flat))]
    rng.shuffle(tasks)
    return {"op": "align", "np": np_, "ns": ns, "w": rng.randint(1, 4), "matches": matches, "skip": skip,
            "ri": rng.choice([1, 1, 0]), "prb": prb, "srb": srb, "perm": tasks}


def align_match_case(ck, sc, np_, ns):
    """align on the output of FileSet.match (no hand-made matches): oracle = overlap of the spans"""
    a, ida, infa = sc.fileset("a", [(10 * i, 10 * i + 9) for i in range(np_)], max_threads=2)
    b, idb, infb = sc.fileset("b", [(7 * i, 7 * i + 6) for i in range(ns)], max_threads=2)
    cw.CTL["a"] = cw.Ctl(ntasks=0, rb="o" * np_, name="a", ids=ida)
    cw.CTL["b"] = cw.Ctl(ntasks=0, rb="o" * ns, name="b", ids=idb)
    c = {"op": "align-match", "np": np_, "ns": ns}
    try:
        got = [(cw.file_id(p[0]), p[1], cw.file_id(s[0]), s[1]) for p, s in a.align(b)]
    except Exception as e:          # noqa
        ck.case(kind="align/match")
        ck.violation("other", f"align over match() raised {type(e).__name__}: {e}", c)
        return
    want = [(p, 1000 + p, s, 1000 + s) for p in range(np_) for s in range(ns)
            if 7 * s <= 10 * p + 9 and 10 * p <= 7 * s + 6]
    reads = collections.Counter(cw.CTL["b"].read_log())
    ck.case(key=f"align-match/{np_}/{ns}" if len(want) > 1 else None, kind="align/match")
    if got != want:
        ck.violation("other", f"align over match() yielded {got}, expected {want}", c)
    if any(v != 1 for v in reads.values()) or set(reads) != {s for _, _, s, _ in want}:
        ck.violation("other", f"align over match(): secondary read counts {dict(reads)}", c)


# ------------------------------------------------------------------ generators
PRESETS = ["info", "content_ri", "content_pi_none", "warn", "readfail", "funcfail", "icollect_none", "collect"]


def preset_case(rng, kind, n, w, perm, preset):
    c = {"op": "pool", "kind": kind, "n": n, "w": w, "perm": list(perm), "sel": list(range(n)), "bundle": 0,
         "mode": "all", "wt": "thread", "oc": 0, "pi": 0, "ri": 0, "ew": 0, "rb": "o" * n, "fb": "v" * n}
    j = rng.randrange(n)
    put = lambda s, ch: s[:j] + ch + s[j + 1:]
    if preset == "content_ri":
        c.update(oc=1, ri=1)
    elif preset == "content_pi_none":
        c.update(oc=1, pi=1, fb=put(c["fb"], "n"), rb=put(c["rb"], rng.choice("on")))
    elif preset == "warn":
        c.update(oc=1, ew=1, ri=rng.randint(0, 1), rb=put(c["rb"], "f"))
    elif preset == "readfail":
        c.update(oc=1, rb=put(c["rb"], "f"))
    elif preset == "funcfail":
        c.update(oc=rng.randint(0, 1), fb=put(c["fb"], "r"))
    elif preset == "icollect_none":
        c.update(kind="icollect" if kind == "imap" else "collect", ri=rng.randint(0, 1), ew=1,
                 rb=put(c["rb"], rng.choice("nf")))
    elif preset == "collect":
        c.update(kind="icollect" if kind == "imap" else "collect", ri=rng.randint(0, 1))
    return c


def random_case(rng, big=False):
    n = rng.randint(1, 9 if big else 7)
    kind = rng.choice(["imap", "imap", "map", "icollect", "collect"])
    bundle = rng.choice([0, 0, 0, 2, 2, 3])
    mode = rng.choice(["all", "all", "range", "files", "files"])
    sel = list(range(n))
    if mode == "range":
        a = rng.randrange(n)
        sel = list(range(a, rng.randint(a, n - 1) + 1))
    elif mode == "files":
        sel = rng.sample(range(n), rng.randint(1, n))
        if rng.random() < 0.5:
            sel.sort()
    p = rng.choice([0, 0, 0.2, 0.5, 1.0])
    rb = "".join(rng.choice("nf") if rng.random() < p else "o" for _ in range(n))
    q = rng.choice([0, 0, 0.3])
    fb = "".join(rng.choice("nr" if rng.random() < 0.5 else "n") if rng.random() < q else "v" for _ in range(n))
    c = {"op": "pool", "kind": kind, "n": n, "w": rng.randint(1, 5), "sel": sel, "bundle": bundle, "mode": mode,
         "wt": "thread", "oc": rng.choice([0, 1, 1]), "pi": rng.randint(0, 1), "ri": rng.randint(0, 1),
         "ew": rng.choice([0, 1, 1]), "rb": rb, "fb": fb}
    if kind in ("imap", "map") and rng.random() < 0.2:
        c["out"] = 1                                # map(..., output=<FileSet>)
        c["outstr"] = rng.randint(0, 1)             # ... or output="path with placeholders"
    if kind in ("imap", "map") and rng.random() < 0.3:
        c["ua"] = 1                                 # args=["A"] (one list object), kwargs={"k": 1}
    if rng.random() < 0.3:
        c["tag"] = rng.randint(1, 3)                # read_args={"tag": t}
    nt = len(tasks_of(c))
    perm = list(range(nt))
    rng.shuffle(perm)
    if rng.random() < 0.2:
        perm = perm[:rng.randint(0, nt)]          # incomplete wish list
    c["perm"] = perm
    return c


def process_case(rng):
    n = rng.randint(2, 4)
    c = random_case(rng)
    c.update(n=n, sel=list(range(n)), mode=rng.choice(["all", "files"]), bundle=rng.choice([0, 0, 2]),
             kind=rng.choice(["imap", "map"]), wt="process", w=rng.randint(1, 3),
             rb="".join(rng.choice("oooonf") for _ in range(n)), fb="".join(rng.choice("vvvvnr") for _ in range(n)))
    nt = len(tasks_of(c))
    perm = list(range(nt))
    rng.shuffle(perm)
    c["perm"] = perm
    return c


def default_cases(rng):
    """the defaults of FileSet / map: no max_workers, no worker_type, workers=None, output => process"""
    out = []

    def mk(kind, n, w, wt, **extra):
        c = {"op": "pool", "kind": kind, "n": n, "w": w, "sel": list(range(n)), "bundle": 0, "mode": "all", "wt": wt,
             "oc": rng.randint(0, 1), "pi": rng.randint(0, 1), "ri": rng.randint(0, 1), "ew": 0, "rb": "o" * n, "fb": "v" * n}
        c.update(extra)
        perm = list(range(len(tasks_of(c))))
        rng.shuffle(perm)
        c["perm"] = perm
        out.append(c)

    for kind in ("imap", "map"):
        mk(kind, 6, 4, "process", fs={}, now=1, nowt=1)                                   # worker_type -> "process", max_processes -> 4
        mk(kind, 5, 3, "thread", fs={"worker_type": "thread"}, now=1, nowt=1)             # max_threads -> 3
        mk(kind, 4, 2, "thread", fs={"worker_type": "thread", "max_threads": 2}, now=1, nowt=1)
        mk(kind, 4, 2, "process", fs={"max_processes": 2}, now=1, nowt=1)
        mk(kind, 4, 2, "thread", fs={"max_processes": 2}, now=1)                          # worker_type given, max_threads default is 3
        out[-1]["w"] = 3
        mk(kind, 3, 2, "process", fs={"worker_type": "thread"}, nowt=1, out=1)            # output => processes
        mk(kind, 3, 2, "thread", fs={"worker_type": "thread"}, out=1, outstr=1)           # output given as path string
    mk("imap", 4, 1, "thread", fs={"worker_type": "thread"}, now=1, nowt=1, wnone=1)      # pool_args max_workers None -> 1
    mk("icollect", 5, 3, "thread", fs={}, now=1)                                          # icollect/collect: threads, max_threads
    mk("collect", 5, 2, "thread", fs={"max_threads": 2}, now=1)
    mk("icollect", 4, 2, "thread", fs={"max_threads": 2}, now=1, tag=2)
    return out


def misc_cases(ck, sc):
    """argument errors and the empty selection.  The property does not say which exception class
    is raised for bad arguments or an empty selection, so these probes only record what happens
    (distribution) and fail when results are *fabricated*: items delivered for no file."""
    fs, ids, infos = sc.fileset("a", [(2 * i, 2 * i + 1) for i in range(3)])
    cw.CTL["a"] = cw.Ctl(ntasks=0, rb="ooo", fb="vvv", name="a", ids=ids)
    probes = [
        ("files+start", lambda: fs.map(cw.func, files=[infos[0]], start=tmin(0), worker_type="thread")),
        ("func-none", lambda: fs.map(None, worker_type="thread")),
        ("bad-worker-type", lambda: fs.map(cw.func, worker_type="fiber")),
        ("empty-selection-map", lambda: fs.map(cw.func, start=tmin(1000), end=tmin(1001), worker_type="thread")),
        ("empty-selection-imap", lambda: list(fs.imap(cw.func, start=tmin(1000), end=tmin(1001), worker_type="thread"))),
    ]
    for name, fn in probes:
        try:
            got = fn()
            tag = "returned"
        except Exception as e:          # noqa
            got, tag = None, type(e).__name__
        ck.case(kind=f"misc/{name}/{tag}")
        if name.startswith("empty-selection") and got:
            ck.violation("other", f"{name}: delivered {got!r} although no file was selected", {"op": "misc", "probe": name})
    ck.case(kind="misc/empty-files")
    for nm, fn, want in [("collect", lambda: fs.collect(files=[]), []), ("collect-ri", lambda: fs.collect(files=[], return_info=True), ([], [])),
                         ("icollect", lambda: list(fs.icollect(files=[])), []), ("map", lambda: fs.map(cw.func, files=[], worker_type="thread"), [])]:
        try:
            got = fn()
        except Exception as e:          # noqa
            got = f"{type(e).__name__}: {e}"
        if got != want:
            ck.violation("collect-all-none" if "collect" in nm else "other", f"{nm}(files=[]) gave {got!r}, expected {want!r}",
                         {"op": "misc", "probe": "empty-files-" + nm})


def speed_up_gc():
    """collect() and align() call gc.collect() per call / per evicted secondary, which costs
    ~0.1 s with numpy/xarray/pandas loaded: park the objects that exist now in the permanent
    generation (no effect on semantics)"""
    import gc
    import typhon.files  # noqa
    gc.collect()
    gc.freeze()


# ------------------------------------------------------------------ running batches
def run_batch(ck, sc, cases, use_model):
    pool_cases = [c for c in cases if c.get("op") == "pool"]
    align_cases = [c for c in cases if c.get("op") == "align"]
    outs = {}
    if use_model:
        lines = [model_line(c) for c in pool_cases] + [align_line(c) for c in align_cases]
        if lines:
            res = ck.driver(lines)
            for c, o in zip(pool_cases + align_cases, res):
                outs[id(c)] = o
    for c in pool_cases:
        check_case(ck, sc, c, outs.get(id(c)))
    for c in align_cases:
        align_case(ck, sc, c, outs.get(id(c)))


def exhaustive_cases(rng, nmax, wmax=4):
    cases = []
    k = 0
    for n in range(1, nmax + 1):
        for w in range(1, wmax + 1):
            for perm in itertools.permutations(range(n)):
                for kind in ("imap", "map"):
                    if n <= 4:
                        preset = PRESETS[k % len(PRESETS)]
                    else:                       # larger n: mostly the plain configuration
                        preset = PRESETS[(k // 5) % len(PRESETS)] if k % 5 == 0 else "info"
                    k += 1
                    cases.append(preset_case(rng, kind, n, w, perm, preset))
    return cases


def explore(ck, sc, use_model, n_random, n_align, n_proc, nmax):
    rng = ck.rng
    grid = exhaustive_cases(rng, nmax)
    run_batch(ck, sc, grid, use_model)
    if not getattr(ck, "_grid_noted", False):
        ck._grid_noted = True
        ck.exhaustive = True
        ck.notes.append(f"exhaustive ONLY for the completion-order grid: all {len(grid)} cases = every permutation of the wished completion "
                        f"order for n=1..{nmax} tasks x max_workers 1..4 x {{imap,map}} on thread pools (configuration per case rotates over "
                        f"{len(PRESETS)} presets, failing index drawn at random); every other family (random configurations, bundles, selections, "
                        "process pools, align) is sampled, not enumerated")
    cases = default_cases(rng)
    cases += [random_case(rng, big=ck.tier == "thorough") for _ in range(n_random)]
    cases += [gen_align(rng) for _ in range(n_align)]
    cases += [process_case(rng) for _ in range(n_proc)]
    run_batch(ck, sc, cases, use_model)
    for _ in range(max(3, n_align // 10)):
        align_match_case(ck, sc, rng.randint(1, 4), rng.randint(1, 6))


def main():
    ck = vlib.Check(PROP, pkg="pool", props="Proofs.Props.C10", driver="drv_c10",
                    lemma_files=["Proofs/Lemmas/Pool.lean", "Proofs/Lemmas/Align.lean"],
                    model_files=["Model/Pool.lean", "Model/Align.lean"],
                    trusted=["hand-written event-system model Model/Pool.lean (imap, map, _call_map_function, collect) and Model/Align.lean tied to typhon/files/fileset.py by the correspondence run of this check (driver drv_c10; same wished completion order, same release rule, canonicalised results)",
                             "concurrent.futures is modelled, not verified: Future.result() blocks until done and re-raises, Executor.map delivers by index and submits everything up front, workers take queued calls in FIFO order, pool shutdown waits for running calls",
                             "pickling of FileSet / FileInfo / results for process pools; the GIL; warnings issued in worker processes are not observable in the parent",
                             "the harness gates (threading.Event / marker files) and the outside wrappers of ThreadPoolExecutor / ProcessPoolExecutor.submit"],
                    assumptions=["the outcome of a task (value or exception of _call_map_function on one file/bundle) is a function of that input alone, not of timing",
                                 "which files find() returns and in which order is C01's business: the selected files are taken in start-time order of the scratch fileset",
                                 "max_workers >= 1 (the executors reject 0)",
                                 "align: the two loaders deliver one item per file in files= order (this is C10_imap_order applied to icollect); FileInfo equality/hash is by path"])
    ck.rule = ("forced completion orders: every permutation of the tasks for n<=4 files (thorough: n<=6) x max_workers 1..4 x {imap,map} under "
               "rotating configurations (info-only, on_content, pass_info, None results, read errors with/without error_to_warning, function "
               "errors, icollect, collect); random cases with bundles, files= lists vs start/end selection, failing-reader subsets, incomplete "
               "wish lists; process pools with file gates; align on hand-made one-to-many matches and on FileSet.match output under random "
               "release orders of both loaders. non-trivial = >=2 tasks and a wish order different from submission order (pool), or an align case "
               "with a secondary shared between primaries")
    ck.anchors([("typhon/files/fileset.py", "FileSet.map"), ("typhon/files/fileset.py", "FileSet.imap"),
                ("typhon/files/fileset.py", "FileSet._configure_pool_and_worker_args"),
                ("typhon/files/fileset.py", "FileSet._call_map_function"), ("typhon/files/fileset.py", "FileSet.collect"),
                ("typhon/files/fileset.py", "FileSet.icollect"), ("typhon/files/fileset.py", "FileSet.align"),
                ("typhon/files/fileset.py", "FileSet._pseudo_passer"), ("typhon/utils/common.py", "unique")])
    ck.build()
    use_model = os.path.exists(os.path.join(ck.pkgdir, ".lake/build/bin/drv_c10"))
    scratch = tempfile.mkdtemp(prefix="verif_c10_")
    sc = Scratch(scratch)
    speed_up_gc()
    try:
        corpus = [c for _, c in vlib.load_corpus(PROP)]
        run_batch(ck, sc, [c for c in corpus if c.get("op") in ("pool", "align")], use_model)
        misc_cases(ck, sc)
        nmax = 4 if ck.tier == "quick" else 6
        # (a changed anchor multiplies the budgets by 10: cap them at the thorough sizes)
        explore(ck, sc, use_model, min(ck.budget(700, 4000), 5000), min(ck.budget(250, 2000), 2500),
                min(ck.budget(16, 80), 100), nmax)
        if ck.broken() and not ck.violations and ck.tier == "quick":
            # failing-input search on the real code with the larger budget (oracle only)
            explore(ck, sc, False, 1500, 400, 20, 5)
    finally:
        for c in cw.CTL.values():
            c.open_all()
        shutil.rmtree(scratch, ignore_errors=True)
    ck.finish()


def replay(path):
    obj = json.load(open(path))
    c = obj.get("case")
    if not c:
        print(json.dumps(obj, indent=1)[:3000])
        raise SystemExit(1)
    ck = vlib.Check(PROP, pkg="pool", props="Proofs.Props.C10", driver="drv_c10")
    scratch = tempfile.mkdtemp(prefix="verif_c10_")
    sc = Scratch(scratch)
    try:
        if c.get("op") == "pool":
            check_case(ck, sc, c, None)
        elif c.get("op") == "align":
            align_case(ck, sc, c, None)
        elif c.get("op") == "misc":
            misc_cases(ck, sc)
        elif c.get("op") == "align-match":
            align_match_case(ck, sc, c["np"], c["ns"])
        else:
            print("case kind not replayable:", c.get("op"))
    finally:
        shutil.rmtree(scratch, ignore_errors=True)
    for v in ck.violations:
        print("REPRODUCED:", v["what"])
    raise SystemExit(1 if ck.violations else 0)
