"""C20 — SRTM30 elevation mosaics are seamless and match the tiles cell by cell.

Decided by: theorems in lean/srtm/Proofs/Props/C20.lean about the hand-written exact-rational
model lean/srtm/Model/Srtm.lean + correspondence of the model's executable definitions (driver
drv_c20) with typhon.topography.SRTM30 on the same rectangles + an independent oracle
(`fractions.Fraction` lattice arithmetic, own tile table derived from the tile names) on the
real code.

No network, no 57 MB arrays: `download_tile` is replaced from outside by a counter that creates
an empty `<NAME>.DEM` in a scratch cache directory (`typhon.topography._data_path` is pointed
there), and the module-level name `typhon.topography.np` is wrapped by a proxy whose `fromfile`
returns a lazy synthetic tile: `tile[mask]` evaluates `(global_row*7 + global_col*13) % 30000`
only for the selected cells.  `SRTM30.get_tile` itself (the cache test) is the REAL code.

Float vs exact: the real code divides by `_dlat = 50/6000` in doubles.  Every edge value on a
multiple of 0.125 degree (the only grid-aligned values a double can hold) is enumerated
exhaustively for the index computation and must agree with the exact model; at +-1 ulp of such a
value (and for other edges within 1e-6 cell of a grid line) the double computation may absorb
the perturbation, so there the code may agree with the model on the exact input OR on the input
snapped to the grid line (counted as `snap`).
"""
import itertools
import json
import math
import os
import shutil
import tempfile
from fractions import Fraction as F

import numpy as np

import vlib

PROP = "C20"
CELL = F(1, 120)
TOL_ULPS = 2                   # accepted deviation of a block edge, in ulps of the shifted edge value (90 - lat, lon + 180)
CENTRE_TOL = F(1, 10 ** 6)     # in cells: returned float centres vs exact lattice centres
DL = 50.0 / 6000               # the harness' own copy of the cell size in doubles
SIG_DEGENERATE = "srtm-rect-below-double-resolution"
NROWS, NCOLS = 18000, 43200    # global lattice 90N..60S, 180W..180E
TH, TW = 6000, 4800


# ---------------------------------------------------------------- own tile table (from the names)
def own_tiles():
    out = []
    for lat in (90, 40, -10):
        for lon in range(-180, 180, 40):
            name = f"{'w' if lon < 0 else 'e'}{abs(lon):03d}{'n' if lat > 0 else 's'}{abs(lat):02d}"
            out.append((name, lat - 50, lon, lat, lon + 40))
    return out


OWN = own_tiles()
OWN_BY_NAME = {t[0]: t for t in OWN}


def name_offsets(name):
    """global row / column of pixel (0, 0) of the tile, from its NAME only"""
    lon = int(name[1:4]) * (-1 if name[0] == "w" else 1)
    lat = int(name[5:7]) * (-1 if name[4] == "s" else 1)
    return (90 - lat) * 120, (lon + 180) * 120


def pix(R, C):
    return (R * 7 + C * 13) % 30000


FILE_BYTES = TH * TW * 2       # a real .DEM file: 6000 x 4800 big-endian int16, row-major


class LazyTile:
    """The content of one `<NAME>.DEM` file seen through the dtype and shape the code under test
    asked for.  The file's bytes are DEFINED as the big-endian int16 encoding of
    `(global_row*7 + global_col*13) % 30000` in row-major order (as the real files are laid out);
    only the bytes of the cells selected by a boolean mask are ever materialised, then decoded
    with the requested dtype -- so a wrong byte order, item size or shape changes the values."""

    def __init__(self, name, dtype, shape):
        self.name = name
        self.R0, self.C0 = name_offsets(name)
        self.dtype = np.dtype(dtype)
        self.shape = tuple(int(x) for x in shape)
        self.ndim = len(self.shape)

    def _decode(self, flat):
        isz = self.dtype.itemsize
        off = flat.astype(np.int64)[:, None] * isz + np.arange(isz, dtype=np.int64)[None, :]
        el = off // 2                                     # int16 element of the file holding that byte
        r, c = np.divmod(el, TW)
        val = pix(r + self.R0, c + self.C0)
        byte = np.where(off % 2 == 0, val >> 8, val & 255).astype(np.uint8)
        return np.ascontiguousarray(byte).view(self.dtype).reshape(-1)

    def __getitem__(self, mask):
        mask = np.asarray(mask)
        if mask.dtype != bool:
            raise vlib.InfraError(f"synthetic tile: only boolean-mask indexing is supported, got {mask.dtype}")
        if mask.shape != self.shape:      # what numpy raises for a real array
            raise IndexError(f"boolean index did not match indexed array; dimension is {self.shape} "
                             f"but corresponding boolean dimension is {mask.shape}")
        return self._decode(np.ravel_multi_index(np.nonzero(mask), self.shape))

    def ravel(self):
        raise vlib.InfraError("synthetic tile: ravel not supported")


class LazyFlat:
    """result of np.fromfile(path, dtype): a 1-d array of file_size // itemsize items"""

    def __init__(self, name, dtype, nbytes):
        self.name = name
        self.dtype = np.dtype(dtype)
        self.size = nbytes // self.dtype.itemsize
        self.shape = (self.size,)

    def reshape(self, *shape):
        if len(shape) == 1 and not isinstance(shape[0], (int, np.integer)):
            shape = tuple(shape[0])
        n = 1
        for x in shape:
            n *= int(x)
        if n != self.size:                # what numpy raises
            raise ValueError(f"cannot reshape array of size {self.size} into shape {tuple(shape)}")
        return LazyTile(self.name, self.dtype, shape)


class NpProxy:
    """wraps the module-level name `np` of typhon.topography: everything is numpy, except that
    `fromfile` of a `<NAME>.DEM` in the scratch cache yields the lazy synthetic tile"""

    def __init__(self, env):
        self._env = env

    def __getattr__(self, k):
        return getattr(np, k)

    def fromfile(self, path, dtype=float, count=-1, sep="", offset=0, **kw):
        if count != -1 or sep != "" or offset != 0 or kw:
            raise vlib.InfraError("synthetic fromfile: count/sep/offset not supported")
        if not os.path.exists(path):
            raise FileNotFoundError(path)
        base = os.path.basename(path)
        self._env.reads.append(base)
        return LazyFlat(base[:-4].lower(), dtype, os.path.getsize(path))


class Env:
    """patches typhon.topography from outside; restores everything in close()"""

    def __init__(self):
        import typhon.topography as topo
        self.topo = topo
        self.S = topo.SRTM30
        self.dir = tempfile.mkdtemp(prefix="verif_c20_")
        self.downloads = []
        self.reads = []
        self.saved = (topo._data_path, topo.np, topo.SRTM30.__dict__["download_tile"])
        topo._data_path = self.dir
        topo.np = NpProxy(self)
        env = self

        def fake_download(name):
            env.downloads.append(name)
            env.make_file(name)

        topo.SRTM30.download_tile = staticmethod(fake_download)

    def make_file(self, name):
        """a sparse file of the size of a real .DEM (its content is defined by LazyTile)"""
        # like the real download_tile, the writer asks the library where the cache directory is
        with open(os.path.join(self.topo._get_data_path(), (name + ".dem").upper()), "wb") as f:
            f.truncate(FILE_BYTES)

    def cached(self):
        return sorted(f[:-4].lower() for f in os.listdir(self.dir) if f.endswith(".DEM"))

    def clear_cache(self):
        for f in os.listdir(self.dir):
            os.remove(os.path.join(self.dir, f))

    def close(self):
        self.topo._data_path, self.topo.np, dl = self.saved
        self.topo.SRTM30.download_tile = dl
        shutil.rmtree(self.dir, ignore_errors=True)


# ---------------------------------------------------------------- exact helpers
def fs(q):
    return f"{q.numerator}/{q.denominator}"


def lat_index(x):
    """exact (90 - lat)*120"""
    return (90 - F(x)) * 120


def lon_index(x):
    return (F(x) + 180) * 120


def edge_tol(x, is_lat):
    """Interpretation of the property for doubles: the code computes `90 - lat` / `lon + 180`
    (one rounding, <= 1/2 ulp of that shifted value) and divides by `_dlat` (one more rounding of
    the index).  A block edge may therefore deviate from the exact one by at most TOL_ULPS ulps of
    the shifted value (<= 2 * 5.7e-14 deg = 1.4e-11 cell).  Returned in degrees (exact)."""
    shift = (90.0 - float(x)) if is_lat else (float(x) + 180.0)
    return TOL_ULPS * F(math.ulp(max(abs(shift), 1e-300)))


def edge_candidates(x, is_lat):
    """exact value of the double `x`; if it is within edge_tol of a grid line (and not exactly on
    it) also the values on the line and just on either side of it: the double computation may
    land on any of them"""
    e = lat_index(x) if is_lat else lon_index(x)
    n = round(e)
    q = F(x)
    d = edge_tol(x, is_lat)
    if e != n and abs(e - n) * CELL <= d:
        snapped = 90 - F(n, 120) if is_lat else F(n, 120) - 180
        lo, hi = (-60, 90) if is_lat else (-180, 180)
        return [q] + [c for c in (snapped, snapped - d, snapped + d) if lo <= c <= hi and c != q]
    return [q]


def rect_candidates(rect):
    la0, lo0, la1, lo1 = rect
    c = [edge_candidates(la0, True), edge_candidates(lo0, False), edge_candidates(la1, True), edge_candidates(lo1, False)]
    out = list(itertools.product(*c))
    # a snapped variant that degenerates (min >= max) is not a rectangle any more
    return [out[0]] + [q for q in out[1:] if q[0] < q[2] and q[1] < q[3]]


def case_of(op, rect, **kw):
    return dict(op=op, rect=[float(x).hex() for x in rect], rect_dec=[float(x) for x in rect], **kw)


def rect_of(case):
    return tuple(float.fromhex(h) for h in case["rect"])


def classify(case, what=""):
    if "aligned" in what:
        return "srtm-float-aligned-index"
    return "other"


def known_degenerate(rect, exc):
    """the KNOWN finding, and nothing else: the failure is numpy's ValueError for min() of an
    empty array, some extent of the rectangle is below 1e-9 cell, and in that dimension both
    edges evaluate to the SAME double index (so the code cannot tell them apart)"""
    if not (isinstance(exc, ValueError) and "zero-size array" in str(exc)):
        return False
    la0, lo0, la1, lo1 = (float(x) for x in rect)
    lim = CELL / 10 ** 9
    lat_deg = F(la1) - F(la0) < lim and (90 - la1) / DL == (90 - la0) / DL
    lon_deg = F(lo1) - F(lo0) < lim and (lo0 + 180.0) / DL == (lo1 + 180.0) / DL
    return lat_deg or lon_deg


def guarded(ck, fn, case, what, rect=None):
    """(True, fn()) -- or (False, None) after recording a violation when the exception was raised
    from inside typhon (valid inputs must not raise); harness errors propagate (exit 2)"""
    try:
        return True, fn()
    except (SystemExit, vlib.InfraError):
        raise
    except Exception as e:
        if rect is not None and known_degenerate(rect, e):
            ck.violation(SIG_DEGENERATE, f"{what} raised {type(e).__name__}: {e}", case)
            return False, None

        def again():
            raise e
        ck.guard(again, case, what)          # re-raises unless a frame of /repo/typhon is in the traceback
        return False, None


def oracle_tiles(q):
    """names of the tiles whose open interior meets the open rectangle (exact)"""
    la0, lo0, la1, lo1 = q
    return [n for (n, a0, o0, a1, o1) in OWN if max(la0, a0) < min(la1, a1) and max(lo0, o0) < min(lo1, o1)]


def lattice_rows(lats):
    """float latitude centres -> exact 0-based global rows (None if one is not a cell centre)"""
    out = []
    for v in lats:
        e = lat_index(float(v)) - F(1, 2)
        n = round(e)
        if abs(e - n) > CENTRE_TOL:
            return None
        out.append(n)
    return out


def lattice_cols(lons):
    out = []
    for v in lons:
        e = lon_index(float(v)) - F(1, 2)
        n = round(e)
        if abs(e - n) > CENTRE_TOL:
            return None
        out.append(n)
    return out


# ---------------------------------------------------------------- oracle on one elevation result
def oracle_elev(ck, rect, lats, lons, E, case):
    """independent of typhon and of the model; returns (R, C) or None"""
    la0, lo0, la1, lo1 = (F(x) for x in rect)
    bad = lambda what: ck.violation(classify(case, what), what, case)
    if len(lats) == 0 or len(lons) == 0:
        bad(f"empty block: {len(lats)} latitudes, {len(lons)} longitudes")
        return None
    R, C = lattice_rows(lats), lattice_cols(lons)
    if R is None or C is None:
        bad("returned coordinates are not SRTM30 cell centres")
        return None
    if any(b - a != 1 for a, b in zip(R, R[1:])):
        bad(f"latitudes are not consecutive descending cell centres: rows {R[:6]}...")
        return None
    if any(b - a != 1 for a, b in zip(C, C[1:])):
        bad(f"longitudes are not consecutive ascending cell centres: cols {C[:6]}...")
        return None
    if not (0 <= R[0] and R[-1] < NROWS and 0 <= C[0] and C[-1] < NCOLS):
        bad(f"block leaves the covered area: rows {R[0]}..{R[-1]} cols {C[0]}..{C[-1]}")
        return None
    top, bot = 90 - R[0] * CELL, 90 - (R[-1] + 1) * CELL
    left, right = -180 + C[0] * CELL, -180 + (C[-1] + 1) * CELL
    t_n, t_s = edge_tol(rect[2], True), edge_tol(rect[0], True)
    t_w, t_e = edge_tol(rect[1], False), edge_tol(rect[3], False)
    snap = False
    for nm, slack, tol in [
        # slack >= 0 means the exact statement holds; otherwise -slack is the deviation in degrees
        ("north edge below lat_max", top - la1, t_n),
        ("south edge above lat_min", la0 - bot, t_s),
        ("west edge right of lon_min", lo0 - left, t_w),
        ("east edge left of lon_max", right - lo1, t_e),
        ("extends a cell or more north", CELL - (top - la1), t_n),
        ("extends a cell or more south", CELL - (la0 - bot), t_s),
        ("extends a cell or more west", CELL - (lo0 - left), t_w),
        ("extends a cell or more east", CELL - (right - lo1), t_e),
    ]:
        strict = nm.startswith("extends")
        exact_ok = slack > 0 if strict else slack >= 0
        if exact_ok:
            continue
        if -slack > tol:
            bad(f"block rows {R[0]}..{R[-1]} cols {C[0]}..{C[-1]}: {nm} (by {float(-slack):.3g} deg)")
            return None
        snap = True
        dev = float(-slack / (tol / TOL_ULPS))
        ck.extra_cov["max_accepted_edge_deviation_ulps"] = max(ck.extra_cov.get("max_accepted_edge_deviation_ulps", 0.0), round(dev, 3))
    if snap:
        ck.count("oracle/edge-accepted-within-2ulp-of-shifted-value")
    E = np.asarray(E)
    if E.shape != (len(R), len(C)):
        bad(f"elevation shape {E.shape} != ({len(R)}, {len(C)})")
        return None
    want = pix(np.asarray(R, dtype=np.int64).reshape(-1, 1), np.asarray(C, dtype=np.int64).reshape(1, -1))
    if not np.array_equal(E, want):
        i, j = map(int, np.argwhere(E != want)[0])
        nb = int((E != want).sum())
        bad(f"elevation[{i},{j}] = {E[i, j]} but the tile pixel at global row {R[i]}, col {C[j]} "
            f"(lat {float(lats[i])!r}, lon {float(lons[j])!r}) holds {int(want[i, j])}; {nb} wrong cells of {E.size}")
        return None
    return R, C


# ---------------------------------------------------------------- one elevation case
def run_elev_real(ck, env, rect, case):
    env.downloads.clear()
    env.reads.clear()
    before = env.cached()
    ok, res = guarded(ck, lambda: env.S.elevation(*rect), case, "elevation", rect=rect)
    if not ok:
        return dict(error=True, before=before)
    lats, lons, E = res
    return dict(lats=lats, lons=lons, E=E, reads=list(env.reads), downloads=list(env.downloads), before=before)


def check_elev(ck, env, rect, kind, out_lines=None, use_model=True):
    """real code + oracle; returns the pending model comparison (or None)"""
    case = case_of("elev", rect, kind=kind)
    res = run_elev_real(ck, env, rect, case)
    if "error" in res:
        ck.case(kind=f"elev/{kind}/error")
        return None
    RC = oracle_elev(ck, rect, res["lats"], res["lons"], res["E"], case)
    reads = [r[:-4].lower() for r in res["reads"]]
    if RC is None:
        ck.case(kind=f"elev/{kind}/violation")
        return None
    R, C = RC
    # tiles really needed by the block (own table, lattice bands)
    need = [n for (n, a0, o0, a1, o1) in OWN
            if max(R[0], (90 - a1) * 120) <= min(R[-1], (90 - a0) * 120 - 1)
            and max(C[0], (o0 + 180) * 120) <= min(C[-1], (o1 + 180) * 120 - 1)]
    touching = [n for (n, a0, o0, a1, o1) in OWN
                if max(R[0], (90 - a1) * 120) <= min(R[-1] + 1, (90 - a0) * 120)
                and max(C[0], (o0 + 180) * 120) <= min(C[-1] + 1, (o1 + 180) * 120)]
    if len(reads) != len(set(reads)):
        ck.count("elev/tile-read-twice(diagnostic)")
    if not set(need) <= set(reads):          # as sets: the order of the reads is not part of the property
        ck.violation("other", f"tiles read {reads}, needed {need}", case)
    extra = [n for n in reads if n not in need]
    if any(n not in touching for n in extra):
        ck.violation("other", f"tiles read {reads} include tiles not even touching the block (needed {need})", case)
    elif extra:
        ck.count("elev/float-extra-tile-read(touching-border-only)")
    # download once: exactly the needed-or-read tiles that were not cached before, once each
    want_dl = sorted({n for n in reads if n not in res["before"]})
    if sorted(res["downloads"]) != want_dl:
        ck.violation("other", f"downloads {res['downloads']} but cache held {res['before']} and tiles read were {reads}", case)
    ntiles = len(need)
    key = (kind, ntiles, len(R), len(C), R[0] % 6000, C[0] % 4800)
    ck.case(key=key if (len(R) > 1 or len(C) > 1 or ntiles > 1) else None, kind=f"elev/{kind}/{ntiles}tiles",
            sample={"rect": case["rect_dec"], "rows": [R[0], R[-1]], "cols": [C[0], C[-1]], "tiles": need,
                    "E[0,0]": int(res["E"][0, 0])})
    if not use_model:
        return None
    cands = rect_candidates(rect)
    names = [t[0] for t in OWN]
    cache_ids = ",".join(str(names.index(n)) for n in res["before"])
    lines = ["elev " + " ".join(fs(x) for x in q) + (" " + cache_ids if cache_ids else "") for q in cands]
    return dict(case=case, lines=lines, R=R, C=C, need=need, reads=reads, E=res["E"], ncand=len(cands),
                downloads=list(res["downloads"]), before=list(res["before"]), touching=touching)


def compare_elev(ck, pend, outs):
    """model outputs (one per candidate rectangle) against the real result"""
    why = []
    for k, o in enumerate(outs):
        if not o.startswith("ok|"):
            why.append(f"model: {o[:40]}")
            continue
        _, slat, slon, stl, sE, sdl = o.split("|")
        mlat = [F(x) for x in slat.split()]
        mlon = [F(x) for x in slon.split()]
        mR = [(90 - q) * 120 - F(1, 2) for q in mlat]
        mC = [(q + 180) * 120 - F(1, 2) for q in mlon]
        if mR != pend["R"] or mC != pend["C"]:
            why.append(f"model rows {mR[0]}..{mR[-1]} cols {mC[0]}..{mC[-1]} vs code rows {pend['R'][0]}..{pend['R'][-1]} "
                       f"cols {pend['C'][0]}..{pend['C'][-1]}")
            continue
        mt = stl.split() if stl != "-" else []
        if not set(mt) <= set(pend["reads"]) or sorted(mt) != sorted(pend["need"]):
            why.append(f"model tiles {mt} vs code reads {pend['reads']}")
            continue
        if [n for n in pend["reads"] if n in mt] != mt:
            ck.count("elev/tile-order-differs-from-model(diagnostic)")
        # downloads of this call (model: elevationC on the same cache): as sets; the code may in
        # addition fetch tiles that only touch the block (float rounding of the block bounds)
        mdl = set(sdl.split()) if sdl != "-" else set()
        cdl = set(pend["downloads"])
        if not mdl <= cdl or not (cdl - mdl) <= (set(pend["touching"]) - set(pend["need"]) - set(pend["before"])):
            why.append(f"model downloads {sorted(mdl)} vs code {sorted(cdl)} on cache {pend['before']}")
            continue
        mE = np.array([int(x) for x in sE.split()], dtype=np.int64).reshape(len(mR), len(mC))
        if not np.array_equal(mE, np.asarray(pend["E"]).astype(np.int64)):
            why.append("model elevation array differs from the code's")
            continue
        if k > 0:
            ck.count("elev/snap")
        return True
    ck.disagree("elevation: " + "; ".join(why[:3]), pend["case"])
    return False


# ---------------------------------------------------------------- generators
BORDER_LATS = [40.0, -10.0]
BORDER_LONS = [float(x) for x in range(-140, 180, 40)]


def style_edge(rng, v, style, lo, hi):
    if style == "random":
        return min(max(v, lo), hi)
    if style == "aligned8":
        return min(max(round(v * 8) / 8, lo), hi)
    if style == "k120":
        return min(max(round(v * 120) / 120, lo), hi)
    if style == "ulp":
        a = min(max(round(v * 8) / 8, lo), hi)
        b = float(np.nextafter(a, rng.choice([-1e9, 1e9])))
        return min(max(b, lo), hi)
    raise ValueError(style)


def gen_rect(rng):
    """a rectangle (floats) with -60 <= lat_min < lat_max <= 90, -180 <= lon_min < lon_max <= 180,
    at most ~45 x 45 cells"""
    c = 1.0 / 120
    for _ in range(100):
        kind = rng.choice(["single", "single", "border_v", "border_h", "corner4", "corner4", "touch", "touch",
                           "dateline_w", "dateline_e", "north", "south", "thin", "thin", "aligned", "k120", "ulp",
                           "micro", "micro", "row3", "col3"])
        lat_c = rng.uniform(-59.5, 89.5)
        lon_c = rng.uniform(-179.5, 179.5)
        hs = rng.choice([0.3, 1.0, 2.5, 8.0, 20.0])
        a, b = rng.uniform(0.02, hs) * c, rng.uniform(0.02, hs) * c       # south / north extent
        w1, w2 = rng.uniform(0.02, hs) * c, rng.uniform(0.02, hs) * c     # west / east extent
        styles = ["random"] * 4
        if kind == "border_v":
            lon_c = rng.choice(BORDER_LONS)
        elif kind == "border_h":
            lat_c = rng.choice(BORDER_LATS)
        elif kind == "corner4":
            lat_c, lon_c = rng.choice(BORDER_LATS), rng.choice(BORDER_LONS)
        elif kind == "thin":
            if rng.random() < 0.5:
                a, b = rng.uniform(0.01, 0.45) * c, rng.uniform(0.01, 0.45) * c
            if rng.random() < 0.7:
                w1, w2 = rng.uniform(0.01, 0.45) * c, rng.uniform(0.01, 0.45) * c
            if rng.random() < 0.4:
                lat_c = round(lat_c * 120) / 120 + rng.choice([0.0, 0.5 * c])
                lon_c = round(lon_c * 120) / 120 + rng.choice([0.0, 0.5 * c])
        elif kind in ("aligned", "k120", "ulp"):
            st = {"aligned": "aligned8", "k120": "k120", "ulp": "ulp"}[kind]
            styles = [rng.choice([st, st, "random"]) for _ in range(4)]
            if kind != "k120":
                a, b, w1, w2 = (x + rng.choice([0, 0.0625, 0.125]) for x in (a, b, w1, w2))
        if kind == "micro":
            # extents of 1e-11 .. 1e-4 cell, away from / straddling a grid line (near-line double or exact line)
            mode = rng.choice(["away", "straddle", "aligned8"])
            if mode == "straddle":
                lat_c, lon_c = round(lat_c * 120) / 120, round(lon_c * 120) / 120
            elif mode == "aligned8":
                lat_c, lon_c = round(lat_c * 8) / 8, round(lon_c * 8) / 8
            else:
                lat_c = (math.floor(lat_c * 120) + rng.uniform(0.1, 0.9)) / 120
                lon_c = (math.floor(lon_c * 120) + rng.uniform(0.1, 0.9)) / 120
            which = rng.choice(["lat", "lon", "both"])
            if which in ("lat", "both"):
                a = b = 10 ** rng.uniform(-11, -4) * c / 2
            if which in ("lon", "both"):
                w1 = w2 = 10 ** rng.uniform(-11, -4) * c / 2
        la0, la1, lo0, lo1 = lat_c - a, lat_c + b, lon_c - w1, lon_c + w2
        if kind == "row3":      # three tiles in a row (six when the strip also crosses a horizontal border)
            B = rng.choice([-140.0, -100.0, -60.0, -20.0, 20.0, 60.0, 100.0])
            lo0, lo1 = B - rng.uniform(0.02, 3) * c, B + 40.0 + rng.uniform(0.02, 3) * c
            if rng.random() < 0.3:
                lat_c = rng.choice(BORDER_LATS)
            la0, la1 = lat_c - rng.uniform(0.02, 1.2) * c, lat_c + rng.uniform(0.02, 1.2) * c
        elif kind == "col3":    # three tiles in a column
            la0, la1 = -10.0 - rng.uniform(0.02, 3) * c, 40.0 + rng.uniform(0.02, 3) * c
            if rng.random() < 0.3:
                lon_c = rng.choice(BORDER_LONS)
            lo0, lo1 = lon_c - rng.uniform(0.02, 1.2) * c, lon_c + rng.uniform(0.02, 1.2) * c
        if kind == "touch":
            which = rng.choice(["n", "s", "w", "e", "nw", "se"])
            bl, bo = rng.choice(BORDER_LATS), rng.choice(BORDER_LONS)
            if "n" in which:
                la1, la0 = bl, bl - a - b
            if "s" in which:
                la0, la1 = bl, bl + a + b
            if "w" in which:
                lo0, lo1 = bo, bo + w1 + w2
            if "e" in which:
                lo1, lo0 = bo, bo - w1 - w2
        elif kind == "dateline_w":
            lo0, lo1 = -180.0, -180.0 + w1 + w2
        elif kind == "dateline_e":
            lo1, lo0 = 180.0, 180.0 - w1 - w2
        elif kind == "north":
            la1, la0 = 90.0, 90.0 - a - b
        elif kind == "south":
            la0, la1 = -60.0, -60.0 + a + b
        la0 = style_edge(rng, la0, styles[0], -60.0, 90.0)
        lo0 = style_edge(rng, lo0, styles[1], -180.0, 180.0)
        la1 = style_edge(rng, la1, styles[2], -60.0, 90.0)
        lo1 = style_edge(rng, lo1, styles[3], -180.0, 180.0)
        # extents below 1e-4 cell next to a grid line are below what the double index division
        # resolves (see corpus/C20 witness `below-double-resolution`): not generated
        if kind in ("row3", "col3"):
            if la0 < la1 and lo0 < lo1 and -60 <= la0 and la1 <= 90 and -180 <= lo0 and lo1 <= 180:
                return kind, (la0, lo0, la1, lo1)
            continue
        if kind == "micro":
            # down to 1e-11 cell; extents below 1e-9 cell on a grid line may hit the KNOWN finding
            if 0 < la1 - la0 < 46 * c and 0 < lo1 - lo0 < 46 * c and F(la1) - F(la0) >= CELL / 10 ** 11 \
                    and F(lo1) - F(lo0) >= CELL / 10 ** 11:
                return kind, (la0, lo0, la1, lo1)
            continue
        if 1e-4 * c <= la1 - la0 < 46 * c and 1e-4 * c <= lo1 - lo0 < 46 * c:
            return kind, (la0, lo0, la1, lo1)
    return "single", (10.0, 10.0, 10.1, 10.1)


# ---------------------------------------------------------------- index computation: exhaustive aligned edges
def aligned_edges(ck, env, use_model, sample=None):
    """every multiple of 0.125 deg as lat_max, lat_min, lon_min, lon_max (and +-1 ulp of it):
    the first / last row or column index computed by the REAL get_native_grids (doubles) against
    the exact model and the exact oracle"""
    S = env.S
    lat_vals = [k * 0.125 for k in range(-480, 721)]
    lon_vals = [k * 0.125 for k in range(-1440, 1441)]
    if sample is not None:
        rng = ck.rng
        lat_vals = sorted(set(rng.sample(lat_vals, sample) + [-60.0, -10.0, 40.0, 90.0]))
        lon_vals = sorted(set(rng.sample(lon_vals, sample) + [-180.0, -140.0, 20.0, 180.0]))
    jobs = []      # (role, value, variant, line, observed index)
    for v0 in lat_vals:
        for var in (0, -1, 1):
            v = v0 if var == 0 else float(np.nextafter(v0, var * 1e9))
            if -60.0 <= v <= 90.0:
                if v > -59.9:      # as lat_max, with lat_min a bit below (a rectangle of 1 ulp height is below double resolution)
                    lo = max(-60.0, v - 0.01)
                    lats, _ = S.get_native_grids(lo, 0.0, v, 0.01)
                    jobs.append(("lat_max", v, var, f"rows {fs(F(lo))} {fs(F(v))}", lats, 0, v0))
                if v < 89.9:
                    hi = min(90.0, v + 0.01)
                    lats, _ = S.get_native_grids(v, 0.0, hi, 0.01)
                    jobs.append(("lat_min", v, var, f"rows {fs(F(v))} {fs(F(hi))}", lats, 1, v0))
    for v0 in lon_vals:
        for var in (0, -1, 1):
            v = v0 if var == 0 else float(np.nextafter(v0, var * 1e9))
            if -180.0 <= v <= 180.0:
                if v < 179.9:
                    hi = min(180.0, v + 0.01)
                    _, lons = S.get_native_grids(0.0, v, 0.01, hi)
                    jobs.append(("lon_min", v, var, f"cols {fs(F(v))} {fs(F(hi))}", lons, 0, v0))
                if v > -179.9:
                    lo = max(-180.0, v - 0.01)
                    _, lons = S.get_native_grids(0.0, lo, 0.01, v)
                    jobs.append(("lon_max", v, var, f"cols {fs(F(lo))} {fs(F(v))}", lons, 1, v0))
    outs = ck.driver([j[3] for j in jobs]) if use_model else [None] * len(jobs)
    for (role, v, var, line, grid, which, v0), o in zip(jobs, outs):
        is_lat = role.startswith("lat")
        idx = (lattice_rows(grid) if is_lat else lattice_cols(grid)) if len(grid) else []
        case = dict(op="edge", role=role, value=float(v).hex(), value_dec=v, variant=var)
        if not idx:
            ck.case(kind=f"edge/{role}/violation")
            ck.violation(classify(case), f"get_native_grids gives an empty / off-lattice {role[:3]} grid for {role} = {v!r}", case)
            continue
        got = idx[0] if which == 0 else idx[-1]              # 0-based global row / col
        e = lat_index(v) if is_lat else lon_index(v)
        e0 = lat_index(v0) if is_lat else lon_index(v0)     # integral
        # exact expectation (0-based): first row floor(i), last row ceil(i')-1, first col floor(j'), last col ceil(j)-1
        exp = {"lat_max": math.floor(e), "lat_min": math.ceil(e) - 1, "lon_min": math.floor(e), "lon_max": math.ceil(e) - 1}[role]
        exp0 = {"lat_max": e0, "lat_min": e0 - 1, "lon_min": e0, "lon_max": e0 - 1}[role]
        ck.case(key=(role, v) if var == 0 else None, kind=f"edge/{role}/{'aligned' if var == 0 else 'ulp'}")
        if var != 0:
            ck.extra_cov.setdefault("one_ulp_edges", {"explored": 0, "accepted_via_snap_block_misses_rectangle_by_1ulp": 0})["explored"] += 1
        if var == 0:
            if got != exp:
                ck.violation("srtm-float-aligned-index",
                             f"aligned {role} = {v!r}: double index computation selects global {'row' if is_lat else 'col'} {got}, exact arithmetic {exp}", case)
        elif got != exp:
            if got == exp0:
                # the block edge is the grid line although the rectangle reaches 1 ulp beyond it
                ck.count("edge/snap(1ulp absorbed by the double division)")
                st = ck.extra_cov.setdefault("one_ulp_edges", {"explored": 0, "accepted_via_snap_block_misses_rectangle_by_1ulp": 0})
                st["accepted_via_snap_block_misses_rectangle_by_1ulp"] += 1
            else:
                ck.violation("other", f"{role} = {v!r}: selects {got}, exact {exp}, snapped {exp0}", case)
        if o is not None:
            m = [int(x) for x in o.split()]
            mi = (m[0] - 1 if which == 0 else m[1] - 1) if is_lat else (m[0] if which == 0 else m[1])
            if mi != exp:
                ck.disagree(f"model {line} -> {o} but exact oracle index {exp}", case)
            if mi != got and not (var != 0 and got == exp0):
                ck.disagree(f"{role} = {v!r}: model index {mi} vs code {got}", case)
    return len(jobs)


# ---------------------------------------------------------------- get_tiles direct
def gen_tiles_rect(rng):
    style = rng.choice(["small", "big", "border", "border", "world", "ulp"])
    if style == "world":
        return style, (rng.choice([-60.0, -59.0, -10.0]), rng.choice([-180.0, -179.5, -140.0]),
                       rng.choice([90.0, 40.0, 39.5]), rng.choice([180.0, 179.0, 140.0]))
    la0 = rng.uniform(-60, 89)
    lo0 = rng.uniform(-180, 179)
    h = rng.uniform(0.001, 2) if style == "small" else rng.uniform(0.5, 120)
    w = rng.uniform(0.001, 2) if style == "small" else rng.uniform(0.5, 200)
    la1, lo1 = min(90.0, la0 + h), min(180.0, lo0 + w)
    if style in ("border", "ulp"):
        e = [la0, lo0, la1, lo1]
        for k in rng.sample(range(4), rng.randint(1, 4)):
            e[k] = rng.choice(BORDER_LATS + [-60.0, 90.0]) if k % 2 == 0 else rng.choice(BORDER_LONS + [-180.0, 180.0])
            if style == "ulp":
                e[k] = float(np.nextafter(e[k], rng.choice([-1e9, 1e9])))
                e[k] = min(max(e[k], -60.0 if k % 2 == 0 else -180.0), 90.0 if k % 2 == 0 else 180.0)
        la0, lo0, la1, lo1 = e
    if not (la1 - la0 > 1e-6 and lo1 - lo0 > 1e-6):      # below double resolution: see corpus witness
        return gen_tiles_rect(rng)
    return style, (la0, lo0, la1, lo1)


def check_tiles(ck, env, n, use_model):
    rng = ck.rng
    jobs = []
    for _ in range(n):
        style, rect = gen_tiles_rect(rng)
        jobs.append((style, rect, rect_candidates(rect)))
    # a few rectangles given with longitudes in 180..360 (model vs code only: the % 360 normalisation)
    wraps = []
    for _ in range(max(5, n // 20)):
        lo0 = rng.choice([180.0, 200.0, 220.5, 260.0, 340.0, rng.uniform(180, 359)])
        lo1 = min(360.0, lo0 + rng.uniform(0.1, 60))
        la0 = rng.uniform(-60, 80)
        wraps.append((la0, lo0, la0 + rng.uniform(0.1, 10), lo1))
    lines = []
    for _, _, cands in jobs:
        lines += ["tiles " + " ".join(fs(x) for x in q) for q in cands]
    lines += ["tiles " + " ".join(fs(F(x)) for x in r) for r in wraps]
    outs = ck.driver(lines) if use_model else None
    pos = 0
    for style, rect, cands in jobs:
        case = case_of("tiles", rect, kind=style)
        ok, got = guarded(ck, lambda: list(env.S.get_tiles(*rect)), case, "get_tiles")
        if not ok:
            pos += len(cands)
            continue
        wants = [oracle_tiles(q) for q in cands]
        ck.case(key=("tiles", tuple(got), style) if len(got) > 1 else None, kind=f"tiles/{style}/{min(len(got), 5)}{'+' if len(got) > 5 else ''}",
                sample={"rect": case["rect_dec"], "tiles": got[:6]})
        # the property says "names exactly the tiles": compared as SETS; order is a diagnostic only
        sgot, swants = sorted(set(got)), [sorted(w) for w in wants]
        if len(got) != len(set(got)):
            ck.count("tiles/duplicate-names(diagnostic)")
        if sgot != swants[0]:
            if sgot in swants:
                ck.count("tiles/snap")
            else:
                ck.violation(classify(case), f"get_tiles{tuple(case['rect_dec'])} = {got}, tiles whose interior meets the rectangle: {wants[0]}", case)
        if outs is not None:
            ms = [([] if o == "-" else o.split()) for o in outs[pos:pos + len(cands)]]
            if ms != wants:
                ck.disagree(f"get_tiles: model {ms[0]} vs exact oracle {wants[0]}", case)
            if sgot not in [sorted(m) for m in ms]:
                ck.disagree(f"get_tiles: model {ms[0]} vs code {got}", case)
            elif got not in ms:
                ck.count("tiles/order-differs-from-model(diagnostic)")
        pos += len(cands)
    for r in wraps:
        case = case_of("tiles-wrap", r)
        got = list(env.S.get_tiles(*r))
        ck.case(kind="tiles/wrap360")
        if outs is not None:
            o = outs[pos]
            m = [] if o == "-" else o.split()
            if sorted(m) != sorted(set(got)):
                ck.disagree(f"get_tiles with longitudes in 180..360: model {m} vs code {got}", case)
        pos += 1


# ---------------------------------------------------------------- tile grids
def check_tile_grids(ck, env, use_model):
    S = env.S
    if (S._tile_height, S._tile_width, S._dlat, S._dlon) != (TH, TW, DL, 40.0 / 4800):
        ck.violation("other", f"SRTM30 constants changed: height {S._tile_height}, width {S._tile_width}, dlat {S._dlat!r}, dlon {S._dlon!r}",
                     dict(op="table"))
        return
    real = [(t[0], t[1], t[2], t[3], t[4]) for t in S._tiles]
    if real != OWN:
        ck.violation("other", "SRTM30._tiles differs from the 27-tile table implied by the tile names", dict(op="table"))
        return
    outs = ck.driver([f"tgrid {k}" for k in range(27)]) if use_model else [None] * 27
    for k, (name, a0, o0, a1, o1) in enumerate(OWN):
        case = dict(op="tgrid", tile=name)
        b = S.get_bounds(name)
        if tuple(b) != (a0, o0, a1, o1):
            ck.violation("other", f"get_bounds({name}) = {b}", case)
            continue
        glat, glon = S.get_grids(name)
        nlat, nlon = S.get_native_grids(*b)
        ck.case(key=("tgrid", name), kind="tgrid")
        if len(nlat) != TH or len(nlon) != TW or len(glat) != TH or len(glon) != TW:
            ck.violation("other", f"{name}: get_native_grids(bounds) has {len(nlat)} x {len(nlon)} points, get_grids {len(glat)} x {len(glon)}", case)
            continue
        if not (np.allclose(nlat, glat, rtol=0, atol=1e-9) and np.allclose(nlon, glon, rtol=0, atol=1e-9)):
            ck.violation("other", f"{name}: get_native_grids(bounds) != get_grids (max |d| {float(np.abs(nlat - glat).max()):.3g}, {float(np.abs(nlon - glon).max()):.3g})", case)
            continue
        # oracle: exact lattice
        R0, C0 = name_offsets(name)
        wl = np.array([float(90 - (R0 + r) * CELL - CELL / 2) for r in (0, 1, TH - 1)])
        wo = np.array([float(-180 + (C0 + c) * CELL + CELL / 2) for c in (0, 1, TW - 1)])
        if not (np.allclose(glat[[0, 1, -1]], wl, rtol=0, atol=1e-9) and np.allclose(glon[[0, 1, -1]], wo, rtol=0, atol=1e-9)):
            ck.violation("other", f"{name}: get_grids is not the tile's part of the global lattice", case)
        if outs[k] is not None:
            w = outs[k].split()
            exp = ["eq", name, str(TH), str(TW), fs(90 - R0 * CELL - CELL / 2), fs(90 - (R0 + TH) * CELL + CELL / 2),
                   fs(-180 + C0 * CELL + CELL / 2), fs(-180 + (C0 + TW) * CELL - CELL / 2)]
            if w != exp:
                ck.disagree(f"tile grid of {name}: model {outs[k]} vs expected {' '.join(exp)}", case)


# ---------------------------------------------------------------- download once (request sequences)
def check_cache(ck, env, n, use_model):
    rng = ck.rng
    S = env.S
    names = [t[0] for t in OWN]
    lines, jobs = [], []
    for _ in range(n):
        env.clear_cache()
        warm = rng.sample(names, rng.choice([0, 0, 1, 3, 8]))
        for w in warm:
            env.make_file(w)
        pool = rng.sample(names, rng.randint(1, 6)) + warm[:2]
        reqs = [rng.choice(pool) for _ in range(rng.randint(1, 12))]
        env.downloads.clear()
        env.reads.clear()
        case = dict(op="cache", warm=sorted(warm), requests=reqs)
        ok = True
        for k, r in enumerate(reqs):
            had = r in env.cached()
            nd = len(env.downloads)
            ok, t = guarded(ck, lambda: S.get_tile(r), case, f"get_tile({r})")
            if not ok:
                break
            fetched = len(env.downloads) > nd
            if fetched == had or (fetched and env.downloads[-1] != r) or len(env.downloads) - nd > 1:
                ck.violation("other", f"request #{k} get_tile({r}): cached before = {had}, downloads during the call = {env.downloads[nd:]}", case)
                ok = False
                break
            if getattr(t, "name", None) != r or getattr(t, "shape", None) != (TH, TW):
                ck.violation("other", f"get_tile({r}) returned the data of {getattr(t, 'name', None)} with shape {getattr(t, 'shape', None)}", case)
                ok = False
                break
        if not ok:
            ck.case(kind="cache/violation")
            continue
        seen, want = set(warm), []
        for r in reqs:
            if r not in seen:
                want.append(r)
                seen.add(r)
        ck.case(key=("cache", tuple(warm), tuple(reqs)) if len(reqs) > 2 else None, kind=f"cache/{'warm' if warm else 'cold'}",
                sample={"warm": sorted(warm), "requests": reqs, "downloads": list(env.downloads)})
        if list(env.downloads) != want:
            ck.violation("other", f"downloads {env.downloads}, expected each uncached tile once: {want}", case)
        if env.cached() != sorted(seen):
            ck.violation("other", f"cache afterwards {env.cached()}, expected {sorted(seen)}", case)
        lines.append("cache " + ",".join(str(names.index(w)) for w in warm) + "|" + ",".join(str(names.index(r)) for r in reqs))
        jobs.append((case, list(env.downloads), env.cached()))
    if use_model and lines:
        for (case, dl, fin), o in zip(jobs, ck.driver(lines)):
            a, b = o.split("|")
            md = [] if a.strip() == "-" else [names[int(x)] for x in a.split()]
            mf = [] if b.strip() == "-" else sorted(names[int(x)] for x in b.split())
            if md != dl or mf != fin:
                ck.disagree(f"cache: model downloads {md} final {mf} vs code {dl} / {fin}", case)
    env.clear_cache()


# ---------------------------------------------------------------- cold start: the REAL _get_data_path
def check_cold_start(ck, env, rounds=1):
    """The coldest cache is a directory that does not exist yet.  With `_data_path` reset to None the
    real `_get_data_path` resolves (and must create) the cache directory from the environment, for
    every combination: TYPHON_DATA_PATH -> existing / not yet existing directory, only
    XDG_CACHE_HOME (existing / not yet existing), both, neither (HOME and cwd in a scratch dir).
    First request: directory and tile file appear, one download; second request and a mosaic over
    the tile: no download, correct pixels.  Nothing outside the scratch directory is touched."""
    topo, S, rng = env.topo, env.S, ck.rng
    names = [t[0] for t in OWN]
    saved_env = {k: os.environ.get(k) for k in ("TYPHON_DATA_PATH", "XDG_CACHE_HOME", "HOME")}
    saved_cwd = os.getcwd()
    root = tempfile.mkdtemp(prefix="verif_c20_cold_")
    real_root = os.path.realpath(root)
    try:
        for rnd in range(rounds):
            scenarios = [
                ("tdp-existing", {"TYPHON_DATA_PATH": "tdp_a"}, ["tdp_a"], "tdp_a/topography"),
                ("tdp-not-yet-existing", {"TYPHON_DATA_PATH": "tdp_b/deeper"}, [], "tdp_b/deeper/topography"),
                ("xdg-only-existing", {"XDG_CACHE_HOME": "xdg_a"}, ["xdg_a"], "xdg_a"),
                ("xdg-only-not-yet-existing", {"XDG_CACHE_HOME": "xdg_b/cache"}, [], "xdg_b/cache"),
                ("both-set", {"TYPHON_DATA_PATH": "tdp_c", "XDG_CACHE_HOME": "xdg_c"}, ["xdg_c"], "tdp_c/topography"),
                ("neither-set", {}, [], None),
            ]
            for label, envvars, premade, expect in scenarios:
                base = os.path.join(root, f"r{rnd}_{label}")
                home = os.path.join(base, "home")
                os.makedirs(home)
                for d in premade:
                    os.makedirs(os.path.join(base, d))
                for k in ("TYPHON_DATA_PATH", "XDG_CACHE_HOME"):
                    os.environ.pop(k, None)
                for k, v in envvars.items():
                    os.environ[k] = os.path.join(base, v)
                os.environ["HOME"] = home
                os.chdir(home)
                topo._data_path = None                     # a fresh process: nothing resolved yet
                name = rng.choice(names)
                case = dict(op="coldstart", scenario=label, env={k: v for k, v in envvars.items()}, tile=name)
                env.downloads.clear()
                env.reads.clear()
                ok, t = guarded(ck, lambda: S.get_tile(name), case, f"first get_tile({name}) on a cold start [{label}]")
                ck.case(key=("coldstart", label, name), kind=f"coldstart/{label}")
                if not ok:
                    continue
                d = topo._data_path
                fn = (name + ".dem").upper()
                if d is None or not os.path.isdir(d) or not os.path.exists(os.path.join(d, fn)):
                    ck.violation("other", f"[{label}] after the first request the cache directory {d!r} does not hold {fn}", case)
                    continue
                if not os.path.realpath(d).startswith(real_root):
                    ck.violation("other", f"[{label}] cache directory {d!r} lies outside the directories named by the environment", case)
                    continue
                if expect is not None and os.path.realpath(d) != os.path.realpath(os.path.join(base, expect)):
                    ck.violation("other", f"[{label}] cache directory resolved to {d!r}, expected {os.path.join(base, expect)!r} "
                                          f"(TYPHON_DATA_PATH/topography, else XDG_CACHE_HOME)", case)
                    continue
                if list(env.downloads) != [name] or getattr(t, "name", None) != name or getattr(t, "shape", None) != (TH, TW):
                    ck.violation("other", f"[{label}] first request: downloads {env.downloads}, tile {getattr(t, 'name', None)} {getattr(t, 'shape', None)}", case)
                    continue
                ok, t2 = guarded(ck, lambda: S.get_tile(name), case, f"second get_tile({name}) [{label}]")
                if ok and list(env.downloads) != [name]:
                    ck.violation("other", f"[{label}] second request downloaded again: {env.downloads}", case)
                    continue
                # a small mosaic well inside that tile: served from the cache, correct pixels
                _, a0, o0, a1, o1 = OWN_BY_NAME[name]
                la, lo = a0 + rng.uniform(5, 45), o0 + rng.uniform(5, 35)
                rect = (la, lo, la + rng.uniform(0.01, 0.1), lo + rng.uniform(0.01, 0.1))
                c2 = dict(case_of("elev", rect, kind="coldstart"), scenario=label)
                ok, res = guarded(ck, lambda: S.elevation(*rect), c2, f"elevation after the cold start [{label}]", rect=rect)
                if ok:
                    oracle_elev(ck, rect, res[0], res[1], res[2], c2)
                    if list(env.downloads) != [name]:
                        ck.violation("other", f"[{label}] elevation inside the cached tile {name} downloaded {env.downloads[1:]}", c2)
    finally:
        os.chdir(saved_cwd)
        for k, v in saved_env.items():
            if v is None:
                os.environ.pop(k, None)
            else:
                os.environ[k] = v
        topo._data_path = env.dir
        shutil.rmtree(root, ignore_errors=True)


# ---------------------------------------------------------------- histories (hidden state in the grids)
MUTATIONS = ["shift", "scale", "nan", "reverse", "mod360", "radians", "zero"]


def mutate_inplace(arr, kind):
    """what a caller may do with an array a request handed out (it belongs to the caller)"""
    if arr.size == 0 or not arr.flags.writeable:
        return False                      # a read-only result would be a legitimate defence
    if kind == "shift":
        arr += 0.5 / 120
    elif kind == "scale":
        arr *= -2.0
    elif kind == "nan":
        arr.fill(np.nan)
    elif kind == "reverse":
        arr[...] = arr[::-1].copy()
    elif kind == "mod360":
        np.remainder(arr, 360.0, out=arr)
    elif kind == "radians":
        np.radians(arr, out=arr)
    elif kind == "zero":
        arr[...] = 0
    return True


def library_arrays(env):
    """every ndarray reachable as module / class state of typhon.topography"""
    out = []
    for owner, d in (("typhon.topography", vars(env.topo)), ("SRTM30", vars(env.S))):
        for k, v in list(d.items()):
            if isinstance(v, np.ndarray):
                out.append((f"{owner}.{k}", v))
    return out


def gen_history(rng):
    """>= 2 requests whose rows / columns overlap, with in-place modifications of the results of the
    earlier ones in between"""
    for _ in range(50):
        kind, rect = gen_rect(rng)
        if kind not in ("micro", "row3", "col3", "ulp"):
            break
    c = 1.0 / 120
    la0, lo0, la1, lo1 = rect
    tile = oracle_tiles(tuple(F(x) for x in rect))[0]
    reqs = []
    for k in range(rng.randint(2, 4)):
        t = rng.choice(["elev", "elev", "native", "grids"])
        if t == "grids":
            reqs.append(dict(type="grids", tile=tile))
            continue
        if k == 0 or rng.random() < 0.25:
            r = rect
        else:       # move every edge by up to 3 cells: still overlapping rows and columns
            r = (max(-60.0, la0 - rng.uniform(0, 3) * c), max(-180.0, lo0 - rng.uniform(0, 3) * c),
                 min(90.0, la1 + rng.uniform(0, 3) * c), min(180.0, lo1 + rng.uniform(0, 3) * c))
        reqs.append(dict(type=t, rect=[float(x).hex() for x in r], rect_dec=[float(x) for x in r]))
    if not any(q["type"] == "elev" for q in reqs[1:]):
        reqs.append(dict(type="elev", rect=[float(x).hex() for x in rect], rect_dec=[float(x) for x in rect]))
    muts = [[(i, rng.choice(MUTATIONS)) for i in range(3) if rng.random() < 0.8] for _ in reqs]
    return dict(op="history", kind=kind, requests=reqs, mutations=muts, zero_d_args=rng.random() < 0.5)


def run_history(ck, env, case):
    """replays one history on the real code.  Every request must return exactly what the same
    request returns without any history (reference taken up front and copied), its arrays must not
    share memory with earlier results nor with library state, arguments must stay untouched."""
    S = env.S
    reqs = case["requests"]

    def args_of(q):
        vals = [float.fromhex(h) for h in q["rect"]]
        return [np.array(v) for v in vals] if case.get("zero_d_args") else vals

    def call(q, a=None):
        if q["type"] == "grids":
            return tuple(S.get_grids(q["tile"]))
        a = a if a is not None else args_of(q)
        return tuple(S.get_native_grids(*a)) if q["type"] == "native" else tuple(S.elevation(*a))

    # reference: coordinate vectors of every request, before anything was modified (copied)
    ok, ref = guarded(ck, lambda: [tuple(np.array(x, copy=True) for x in call(dict(q, type="native") if q["type"] == "elev" else q))
                                   for q in reqs], case, "history/reference")
    if not ok:
        return
    alive = []           # (label, array) of everything handed out so far
    good = True
    shared = False
    for k, q in enumerate(reqs):
        a = args_of(q) if q["type"] != "grids" else None
        rect = tuple(float.fromhex(h) for h in q["rect"]) if q["type"] != "grids" else None
        env.clear_cache() if k == 0 else None
        ok, res = guarded(ck, lambda: call(q, a), case, f"request #{k} ({q['type']}) after in-place changes of earlier results", rect=rect)
        if not ok:
            good = False
            break
        if a is not None and case.get("zero_d_args") and [float(x) for x in a] != [float.fromhex(h) for h in q["rect"]]:
            ck.violation("other", f"request #{k} modified its arguments: {[float(x) for x in a]}", case)
            good = False
        for i in (0, 1):
            if not (res[i].shape == ref[k][i].shape and np.array_equal(res[i], ref[k][i])):
                ck.violation("other", f"request #{k} ({q['type']} {q.get('rect_dec') or q.get('tile')}): returned "
                                      f"{'latitudes' if i == 0 else 'longitudes'} differ from those of the same request without history "
                                      f"(first values {np.asarray(res[i]).ravel()[:3].tolist()} vs {ref[k][i].ravel()[:3].tolist()}) after the caller "
                                      f"modified earlier results in place {case['mutations'][:k]}", case)
                good = False
                break
        if not good:
            break
        if q["type"] == "elev" and oracle_elev(ck, rect, res[0], res[1], res[2], case) is None:
            good = False
            break
        for i, arr in enumerate(res):
            lab = f"#{k}.{('lats', 'lons', 'elevation')[i]}"
            for lab2, other in alive:
                if np.shares_memory(arr, other):
                    ck.violation("other", f"result {lab} shares memory with the earlier result {lab2}", case)
                    shared = True
            for lab2, other in library_arrays(env):
                if np.shares_memory(arr, other):
                    ck.violation("other", f"result {lab} shares memory with library state {lab2}", case)
                    shared = True
            alive.append((lab, arr))
        # (aliasing is reported but the history goes on: the functional damage shows in a later request)
        for i, kind in case["mutations"][k]:
            if i < len(res):
                mutate_inplace(res[i], kind)
    good = good and not shared
    ck.case(key=("history", json.dumps(case["requests"])) if good else None,
            kind=f"history/{len(reqs)}req/" + ("ok" if good else "violation"),
            sample={"requests": [q.get("rect_dec") or q.get("tile") for q in reqs], "mutations": case["mutations"]})


def check_histories(ck, env, n):
    for _ in range(n):
        run_history(ck, env, gen_history(ck.rng))
        if any(v["case"].get("op") == "history" for v in ck.violations):
            ck.notes.append("a history found hidden state shared between requests; exploration stopped")
            break


# ---------------------------------------------------------------- driving
def explore_elev(ck, env, n, use_model, rects=None):
    rng = ck.rng
    done = 0
    src = iter(rects) if rects is not None else None
    while done < n:
        pend = []
        for _ in range(min(40, n - done)):
            if src is not None:
                try:
                    kind, rect = next(src)
                except StopIteration:
                    n = done
                    break
            else:
                kind, rect = gen_rect(rng)
            if rng.random() < 0.15:
                env.clear_cache()
            p = check_elev(ck, env, rect, kind, use_model=use_model)
            done += 1
            if p:
                pend.append(p)
        if pend:
            lines = [l for p in pend for l in p["lines"]]
            outs = ck.driver(lines)
            pos = 0
            for p in pend:
                compare_elev(ck, p, outs[pos:pos + p["ncand"]])
                pos += p["ncand"]


def run_corpus_case(ck, env, c, use_model):
    op = c.get("op")
    if op == "elev":
        explore_elev(ck, env, 1, use_model, rects=[(c.get("kind", "corpus"), rect_of(c))])
    elif op == "tiles":
        rect = rect_of(c)
        case = case_of("tiles", rect, kind="corpus")
        got = list(env.S.get_tiles(*rect))
        wants = [oracle_tiles(q) for q in rect_candidates(rect)]
        ck.case(kind="tiles/corpus")
        if sorted(set(got)) not in [sorted(w) for w in wants]:
            ck.violation(classify(case), f"get_tiles{tuple(case['rect_dec'])} = {got}, tiles whose interior meets the rectangle: {wants[0]}", case)
        if use_model:
            o = ck.driver(["tiles " + " ".join(fs(x) for x in rect_candidates(rect)[0])])[0]
            if ([] if o == "-" else o.split()) != wants[0]:
                ck.disagree(f"get_tiles: model {o} vs oracle {wants[0]}", case)
    elif op == "history":
        run_history(ck, env, c)
    elif op == "edge":
        v = float.fromhex(c["value"])
        role = c["role"]
        S = env.S
        if role == "lat_max":
            g = S.get_native_grids(max(-60.0, v - 0.01), 0.0, v, 0.01)[0]
        elif role == "lat_min":
            g = S.get_native_grids(v, 0.0, min(90.0, v + 0.01), 0.01)[0]
        elif role == "lon_min":
            g = S.get_native_grids(0.0, v, 0.01, min(180.0, v + 0.01))[1]
        else:
            g = S.get_native_grids(0.0, max(-180.0, v - 0.01), 0.01, v)[1]
        is_lat = role.startswith("lat")
        idx = (lattice_rows(g) if is_lat else lattice_cols(g)) if len(g) else None
        e = lat_index(v) if is_lat else lon_index(v)
        exp = {"lat_max": math.floor(e), "lat_min": math.ceil(e) - 1, "lon_min": math.floor(e), "lon_max": math.ceil(e) - 1}[role]
        snapped = {"lat_max": round(e), "lat_min": round(e) - 1, "lon_min": round(e), "lon_max": round(e) - 1}[role]
        ck.case(kind="edge/corpus")
        got = None if not idx else (idx[0] if role in ("lat_max", "lon_min") else idx[-1])
        if got != exp and not (abs(e - round(e)) * CELL <= edge_tol(v, is_lat) and e != round(e) and got == snapped):
            ck.violation(classify(c, "aligned" if e == round(e) else ""), f"{role} = {v!r}: selects index {got}, exact {exp}", c)


def main():
    ck = vlib.Check(PROP, pkg="srtm", props="Proofs.Props.C20", driver="drv_c20",
                    lemma_files=["Proofs/Lemmas/Arith.lean", "Proofs/Lemmas/Lists.lean", "Proofs/Lemmas/Mosaic.lean", "Proofs/Lemmas/Elev.lean"],
                    model_files=["Model/Srtm.lean"],
                    trusted=["hand-written exact-rational model Model/Srtm.lean tied to typhon/topography.py by the correspondence run of this check "
                             "(driver drv_c20: same rectangles as exact binary fractions; rows/cols, tile lists, the whole mosaic array and the download sequence are compared)",
                             "IEEE-754 rounding of (90 - lat)/_dlat, (lon + 180)/_dlon and of `% 360` is modelled, not verified: validated exhaustively on every "
                             "edge value that is a multiple of 0.125 deg (the only grid-aligned doubles); within 1e-6 cell of a grid line the code may act as if the edge were on the line",
                             "numpy primitives (np.linspace, np.arange, boolean-mask indexing in C order, masked assignment/broadcast) are modelled, not verified",
                             "the file system behind os.path.exists / download_tile is modelled as a set of tile names"],
                    assumptions=["rectangles satisfy -60 <= lat_min < lat_max <= 90 and -180 <= lon_min < lon_max <= 180 (the covered area)",
                                 "tile content is arbitrary (theorems) / synthetic (R*7 + C*13) mod 30000 of the global row R and column C (runs)"])
    ck.rule = ("rectangles <= 45x45 cells between 60S and 90N: inside one tile, across a vertical / horizontal border, over a 4-tile corner, touching a "
               "border exactly, at +-180, at 90N / 60S, thinner than a cell, edges random / multiples of 0.125 / k/120 / +-1 ulp; plus every multiple of 0.125 deg "
               "as each of the four edges (index computation), random get_tiles rectangles, the 27 tile grids and get_tile request sequences on warm / cold "
               "caches; HISTORIES of 2-5 overlapping requests (elevation / get_native_grids / get_grids) where the caller modifies the arrays returned by "
               "earlier requests in place (shift, scale, NaN, reverse, %360, radians, zero) -- later requests must equal the history-free result and share no "
               "memory; non-trivial = distinct (kind, #tiles, block shape, position in tile) / distinct aligned edge / distinct request sequence / distinct history")
    ck.anchors([("typhon/topography.py", "_do_overlap"), ("typhon/topography.py", "SRTM30.get_tiles"),
                ("typhon/topography.py", "SRTM30.get_bounds"), ("typhon/topography.py", "SRTM30.get_grids"),
                ("typhon/topography.py", "SRTM30.get_native_grids"), ("typhon/topography.py", "SRTM30.get_tile"),
                ("typhon/topography.py", "SRTM30.elevation"), ("typhon/topography.py", "_get_data_path"),
                ("typhon/topography.py", "SRTM30.download_tile"),
                # the whole class: covers the class-level constants _tile_height/_tile_width/_dlat/_dlon and the _tiles table
                ("typhon/topography.py", "SRTM30")])
    ck.build()
    use_model = os.path.exists(os.path.join(ck.pkgdir, ".lake/build/bin/drv_c20"))
    if not use_model:
        ck.notes.append("driver not available: correspondence skipped")
    env = Env()
    try:
        for name, c in vlib.load_corpus(PROP):
            run_corpus_case(ck, env, c, use_model)
            if any(v["case"].get("op") == "history" for v in ck.violations):
                break
        if any(v["case"].get("op") == "history" for v in ck.violations):
            # a history exposed hidden state in the library: whatever this process computes from now on
            # may be a consequence of the damage, not an independent failure -> report the history itself
            ck.notes.append("a corpus history found hidden state shared between requests; exploration stopped (library state of this process is compromised)")
            raise StopIteration
        guarded(ck, lambda: check_tile_grids(ck, env, use_model), dict(op="tgrid"), "get_grids / get_native_grids of a tile")
        full = ck.tier == "thorough" or ck.budget_factor > 1
        guarded(ck, lambda: aligned_edges(ck, env, use_model, sample=None if full else 300), dict(op="edges"),
                "get_native_grids on an aligned edge")
        if full:
            ck.exhaustive = True
            ck.notes.append("exhaustive: every multiple of 0.125 deg in [-60,90] / [-180,180] as lat_max, lat_min, lon_min, lon_max, each also at +-1 ulp "
                            "(index computation of get_native_grids in doubles vs exact)")
        check_tiles(ck, env, ck.budget(1500, 30000), use_model)
        check_cache(ck, env, ck.budget(60, 1500), use_model)
        check_cold_start(ck, env, rounds=1 if ck.tier == "quick" else 10)
        explore_elev(ck, env, ck.budget(85, 1500), use_model)
        check_histories(ck, env, ck.budget(24, 600))
        if ck.broken() and not ck.violations:
            # failing-input search on the real code (oracle only) with the larger budget
            aligned_edges(ck, env, False)
            check_tiles(ck, env, 20000, False)
            check_cache(ck, env, 500, False)
            check_cold_start(ck, env, rounds=5)
            explore_elev(ck, env, 1500, False)
            check_histories(ck, env, 300)
    except StopIteration:
        pass
    finally:
        env.close()
    if os.environ.get("VERIF_DEBUG"):
        import sys
        for d in ck.disagreements[:10]:
            print("DISAGREE", d["what"], json.dumps(d["case"])[:400], file=sys.stderr)
        for v in ck.violations[:10]:
            print("VIOL", v["signature"], v["what"], json.dumps(v["case"])[:400], file=sys.stderr)
    ck.finish()


def replay(path):
    obj = json.load(open(path))
    ck = vlib.Check(PROP, pkg="srtm", props="Proofs.Props.C20", driver="drv_c20")
    c = obj.get("case")
    if not c:
        print(json.dumps(obj, indent=1)[:2000])
        raise SystemExit(1)
    env = Env()
    try:
        if c.get("op") == "coldstart" or c.get("scenario"):
            check_cold_start(ck, env, rounds=1)
        elif c.get("op") in ("elev", "tiles", "edge", "history"):
            run_corpus_case(ck, env, c, use_model=False)
        elif c.get("op") == "cache":
            names = [t[0] for t in OWN]
            env.clear_cache()
            for w in c["warm"]:
                env.make_file(w)
            env.downloads.clear()
            for r in c["requests"]:
                env.S.get_tile(r)
            seen, want = set(c["warm"]), []
            for r in c["requests"]:
                if r not in seen:
                    want.append(r)
                    seen.add(r)
            if list(env.downloads) != want:
                ck.violation("other", f"downloads {env.downloads}, expected {want}", c)
        elif c.get("op") in ("tgrid", "table"):
            check_tile_grids(ck, env, False)
    finally:
        env.close()
    for v in ck.violations:
        print("REPRODUCED:", v["what"])
    raise SystemExit(1 if ck.violations else 0)
