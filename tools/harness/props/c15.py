"""C15 — the file-info cache survives restarts and interrupted saves.

Decided by: theorems in lean/fsops/Proofs/Props/C15.lean about the hand-written model
lean/fsops/Model/Cache.lean + correspondence of the model's executable definitions (driver drv_c15) with the real
`FileSet(..., info_cache=)`, `save_cache`, `load_cache`, `get_info`, `reset_cache`, `FileInfo.to_json_dict /
from_json_dict` on the same documents, crash points and corrupted files + an independent oracle on the real code.

Crash injection never edits /repo: the names `open`, `json`, `shutil` are replaced in the namespace of
`typhon.files.fileset` for the duration of one call.
"""
import atexit
import builtins
import datetime as dt
import json
import os
import re
import shutil
import tempfile
import warnings

import vlib

PROP = "C15"
CACHE = "cache.json"
MIN7 = [1, 1, 1, 0, 0, 0, 0]
MAX7 = [9999, 12, 31, 23, 59, 59, 999999]


class Crash(BaseException):
    """injected fault; BaseException so that no `except Exception` of the code under test can swallow it"""


# ---------------------------------------------------------------- small helpers
def t7(t):
    return [t.year, t.month, t.day, t.hour, t.minute, t.second, t.microsecond]


def from7(v):
    return dt.datetime(*v)


def iso7(v):
    """independent formatter of the time text"""
    return "%04d-%02d-%02dT%02d:%02d:%02d.%06d" % tuple(v)


def hexs(b):
    if isinstance(b, str):
        b = b.encode("utf-8")
    return b.hex() if b else "-"


def doc_text(doc):
    """the text a complete save must produce for the entries [[path, t0, t1, attr], ...] (oracle)"""
    return json.dumps([{"path": p, "times": [iso7(a), iso7(b)], "attr": at} for p, a, b, at in doc])


def canon_cache(info_cache):
    """real FileSet.info_cache -> [[key, t0, t1, attr], ...] in dictionary order"""
    out = []
    for k, info in info_cache.items():
        ts = []
        for t in info.times:
            if isinstance(t, dt.datetime):
                ts.append(t7(t))
            else:
                ts.append(repr(t))
        out.append([k, ts[0], ts[1], info.attr])
    return out


def same_cache(a, b):
    """compare two canonical caches; python == on the attributes (1 == 1.0, dict order irrelevant)"""
    if len(a) != len(b):
        return False
    for x, y in zip(a, b):
        if type(x[0]) is not type(y[0]) or x != y:
            return False
    return True


class Batch:
    """collects driver lines of many cases and runs the driver once"""

    def __init__(self, ck, use_model):
        self.ck, self.use_model = ck, use_model
        self.lines, self.jobs = [], []

    def add(self, lines, callback):
        if not self.use_model:
            return
        self.jobs.append((len(self.lines), len(lines), callback))
        self.lines += lines
        if len(self.lines) > 4000:
            self.flush()

    def flush(self):
        if not self.lines:
            return
        out = self.ck.driver(self.lines)
        for start, n, cb in self.jobs:
            cb(out[start:start + n])
        self.lines, self.jobs = [], []


# ---------------------------------------------------------------- driving the real code
class Ctl:
    def __init__(self, crash=None, hard=False):
        self.crash = crash          # None | ("open",) | ("write", k) | ("before-rename",) | ("after-rename",)
        self.hard = hard            # os._exit instead of raising (forked child only)
        self.chunks = []
        self.doc = None
        self.nwrites = 0

    def hit(self):
        if self.hard:
            os._exit(9)
        raise Crash()


class FileProxy:
    def __init__(self, f, ctl):
        self._f, self._ctl = f, ctl

    def write(self, s):
        c = self._ctl
        if c.crash == ("write", c.nwrites):
            c.hit()
        c.nwrites += 1
        c.chunks.append(s)
        return self._f.write(s)

    def __enter__(self):
        self._f.__enter__()
        return self

    def __exit__(self, *a):
        return self._f.__exit__(*a)

    def __getattr__(self, name):
        return getattr(self._f, name)


class ModProxy:
    def __init__(self, mod, **over):
        self._mod = mod
        self.__dict__.update(over)

    def __getattr__(self, name):
        return getattr(self._mod, name)


class patched:
    """context manager: typhon.files.fileset sees wrapped open / json / shutil"""

    def __init__(self, ctl):
        self.ctl = ctl

    def __enter__(self):
        import typhon.files.fileset as m
        self.m = m
        ctl = self.ctl

        def open_(path, mode="r", *a, **k):
            if "w" in mode and str(path).endswith(".backup"):
                if ctl.crash == ("open",):
                    ctl.hit()
                return FileProxy(builtins.open(path, mode, *a, **k), ctl)
            return builtins.open(path, mode, *a, **k)

        def dump(obj, fp, *a, **k):
            ctl.doc = obj
            return json.dump(obj, fp, *a, **k)

        def move(src, dst, *a, **k):
            if ctl.crash == ("before-rename",):
                ctl.hit()
            r = shutil.move(src, dst, *a, **k)
            if ctl.crash == ("after-rename",):
                ctl.hit()
            return r

        self.saved = {n: m.__dict__.get(n, None) for n in ("open", "json", "shutil")}
        m.open = open_
        m.json = ModProxy(json, dump=dump)
        m.shutil = ModProxy(shutil, move=move)
        return ctl

    def __exit__(self, *a):
        m = self.m
        for n, v in self.saved.items():
            if v is None:
                if n in m.__dict__:
                    del m.__dict__[n]
            else:
                m.__dict__[n] = v
        return False


def new_fileset(d, cache_file=None, **kw):
    """constructs a FileSet; returns (fs, warnings, exception)"""
    from typhon.files import FileSet
    path = os.path.join(d, "data", "{year}{month}{day}_{hour}{minute}{second}.dat")
    with warnings.catch_warnings(record=True) as w:
        warnings.simplefilter("always")
        try:
            fs = FileSet(path, info_cache=cache_file, name="c15", **kw)
            exc = None
        except Exception as e:     # noqa
            fs, exc = None, e
    atexit.unregister(FileSet.save_cache)
    return fs, [str(x.message) for x in w if "cache" in str(x.message)], exc


def fill(fs, doc):
    from typhon.files.handlers.common import FileInfo
    fs.info_cache = {}
    for p, a, b, at in doc:
        fs.info_cache[p] = FileInfo(p, [from7(a), from7(b)], json.loads(json.dumps(at)))


def read_bytes(p):
    if os.path.isdir(p):
        return "dir"
    if not os.path.exists(p):
        return None
    with builtins.open(p, "rb") as f:
        return f.read()


def show_state(b):
    return "absent" if b is None else "dir" if b == "dir" else hexs(b)


def put_file(p, content):
    """content: None (absent) | "dir" | bytes"""
    if os.path.isdir(p):
        shutil.rmtree(p)
    elif os.path.exists(p):
        os.remove(p)
    if content == "dir":
        os.makedirs(p)
    elif content is not None:
        with builtins.open(p, "wb") as f:
            f.write(content)


def real_decode(content):
    """what json.load makes of a file with these bytes (the model's `decode` parameter): ("ok", value) | ("fail",)"""
    try:
        return ("ok", json.loads(content.decode("utf-8")))
    except Exception:      # noqa
        return ("fail",)


def dec_line(content):
    r = real_decode(content)
    if r[0] == "fail":
        return f"dec {hexs(content)} fail"
    try:
        txt = json.dumps(r[1], allow_nan=False)
    except ValueError:
        return None         # NaN / Infinity: not representable in the protocol
    return f"dec {hexs(content)} {txt}"


# ---------------------------------------------------------------- oracle for documents
TIME_RE = re.compile(r"^(\d{4})-(\d{2})-(\d{2})T(\d{2}):(\d{2}):(\d{2})\.(\d{6})$")
LOOSE_RE = re.compile(r"^(\d{4})-(\d{1,2})-( ?\d{1,2})[Tt](\d{1,2}):(\d{1,2}):(\d{1,2})\.(\d{1,6})$")


def strict_time(s):
    """canonical time text -> 7-list or None (independent of strptime)"""
    if not isinstance(s, str):
        return None
    m = TIME_RE.fullmatch(s)
    if not m or not s.isascii():
        return None
    v = [int(x) for x in m.groups()]
    return v if valid7(v) else None


def loose_time(s):
    """liberal reading (1-2 digit fields, fraction right-padded) -> 7-list or None"""
    if not isinstance(s, str) or not s.isascii():
        return None
    m = LOOSE_RE.fullmatch(s)
    if not m:
        return None
    g = list(m.groups())
    v = [int(x) for x in g[:6]] + [int(g[6].ljust(6, "0"))]
    return v if valid7(v) else None


ISO_RE = re.compile(r"^(\d{4})-?(\d{1,2})-?( ?\d{1,2})(?:[Tt ](\d{1,2})(?::?(\d{1,2})(?::?(\d{1,2})(?:[.,](\d+))?)?)?)?"
                    r"(?:Z|z|[+-]\d{2}(?::?\d{2}(?::?\d{2}(?:\.\d+)?)?)?)?$")


def iso_time(s):
    """generous ISO-8601 reading (date, optional time parts, optional fraction of any length, optional UTC offset which
    is ignored: the wall-clock fields) -> 7-list or None.  Used only to judge values of texts the code ACCEPTS."""
    if not isinstance(s, str) or not s.isascii():
        return None
    m = ISO_RE.fullmatch(s)
    if not m:
        return None
    g = m.groups()
    v = [int(g[0]), int(g[1]), int(g[2])] + [int(x) if x is not None else 0 for x in g[3:6]]
    v.append(int((g[6] or "0")[:6].ljust(6, "0")))
    return v if valid7(v) else None


POS_TIME_RE = re.compile(r"^(\d{2})(?::?(\d{2})(?::?(\d{2})(?:[.,](\d+))?)?)?(?:Z|z|[+-]\d{2}(?::?\d{2}(?::?\d{2}(?:\.\d+)?)?)?)?$")


def iso_positional(s):
    """ISO reading with ANY single character between the 10-character date and the time (datetime.fromisoformat)"""
    if not isinstance(s, str) or not s.isascii() or len(s) < 12 or not re.fullmatch(r"\d{4}-\d{2}-\d{2}", s[:10]):
        return None
    m = POS_TIME_RE.fullmatch(s[11:])
    if not m:
        return None
    g = m.groups()
    v = [int(s[:4]), int(s[5:7]), int(s[8:10])] + [int(x) if x is not None else 0 for x in g[:3]]
    v.append(int((g[3] or "0")[:6].ljust(6, "0")))
    return v if valid7(v) else None


def iso_readings(s):
    return [r for r in (loose_time(s), iso_time(s), iso_positional(s)) if r is not None]


TZ_TAIL = re.compile(r"\s*(?:Z|z|[+-]\d{2}(?::?\d{2}(?::?\d{2}(?:\.\d+)?)?)?)?\s*$")


def consistent(text, v):
    """Is the 7-list `v` a possible reading of the time text?  Parser-independent rule: after dropping a trailing UTC
    designator / offset, the digits of the text must be the digits of v's canonical text "YYYYMMDDhhmmssffffff" in order,
    where only zeros of the canonical text may be missing (no leading zeros, omitted time parts, short fraction)."""
    if not isinstance(text, str) or not isinstance(v, list) or not valid7(v):
        return False
    if v in iso_readings(text):           # includes "any single character between date and time"
        return True
    body = text.rstrip()
    if body[-1:] in ("Z", "z"):
        body = body[:-1].rstrip()
    else:
        m = re.search(r"[+-]\d{2}(?::?\d{2})?(?::?\d{2})?(?:[.,]\d+)?$", body)
        if m and (":" in body[:m.start()] or len(body[:m.start()].strip()) >= 13):      # an offset needs a time before it
            body = body[:m.start()].rstrip()
    m = re.search(r"[.,](\d+)$", body)
    if m and len(m.group(1)) > 6:
        body = body[:m.start(1) + 6]              # excess fraction digits are cut
    digits = re.sub(r"\D", "", body)
    canon = "%04d%02d%02d%02d%02d%02d%06d" % tuple(v)
    if not digits or not digits.isascii():
        return False
    memo = {}

    def go(i, j):
        if j == len(digits):
            return all(c == "0" for c in canon[i:])
        if i == len(canon):
            return False
        if (i, j) not in memo:
            r = canon[i] == digits[j] and go(i + 1, j + 1)
            memo[(i, j)] = r or (canon[i] == "0" and go(i + 1, j))
        return memo[(i, j)]
    return go(0, 0)


def time_matches(want, got):
    return want == got if isinstance(want, list) else (isinstance(got, list) and consistent(want["text"], got))


def cache_matches(got, want):
    """like same_cache, but a wanted time may be {"text": t}: any reading consistent with that text"""
    if len(got) != len(want):
        return False
    for g, w in zip(got, want):
        if type(g[0]) is not type(w[0]) or g[0] != w[0] or g[3] != w[3]:
            return False
        if not time_matches(w[1], g[1]) or not time_matches(w[2], g[2]):
            return False
    return True


def valid7(v):
    y, mo, d, h, mi, s, us = v
    if not (1 <= y <= 9999 and 1 <= mo <= 12 and h < 24 and mi < 60 and s < 60 and us < 10 ** 6):
        return False
    leap = y % 4 == 0 and (y % 100 != 0 or y % 400 == 0)
    dim = [31, 29 if leap else 28, 31, 30, 31, 30, 31, 31, 30, 31, 30, 31][mo - 1]
    return 1 <= d <= dim


def judge_document(value):
    """strict schema of a cache document.  Returns (status, reason, entries):
    good      = exactly what save_cache writes;
    loose     = only the time texts deviate from the canonical form but are readable without guessing;
    tolerated = wrong JSON type / shape in a place where the document still says unambiguously what to cache
                (scalar non-string path, non-dict attributes, more than two times, empty dict/str instead of the
                list): the code may warn or take it literally, but must not invent anything;
    bad       = anything else: the property demands warning + unchanged cache."""
    if not isinstance(value, list):
        if value in ({}, ""):
            return ("tolerated", "toplevel-empty", [])
        return ("bad", "toplevel-" + type(value).__name__, None)
    entries, status, why = [], "good", ""
    for e in value:
        if not isinstance(e, dict):
            return ("bad", "entry-type", None)
        for k in ("path", "times", "attr"):
            if k not in e:
                return ("bad", "missing-" + k, None)
        if isinstance(e["path"], (list, dict)):
            return ("bad", "path-unhashable", None)
        if not isinstance(e["path"], str):
            status, why = "tolerated", "path-type"
        ts = e["times"]
        if not isinstance(ts, list):
            return ("bad", "times-type", None)
        if len(ts) < 2:
            return ("bad", "times-short", None)
        if len(ts) > 2:
            status, why = "tolerated", "times-long"
        v = []
        for t in ts[:2]:
            if t is None:
                return ("bad", "null-time", None)
            if not isinstance(t, str):
                return ("bad", "time-type", None)
            s = strict_time(t)
            if s is None:
                s = {"text": t}       # non-canonical text: may be rejected, or accepted with a consistent value
                if status == "good":
                    status, why = "loose", "time-text"
            v.append(s)
        attr = e["attr"]
        if not isinstance(attr, dict):
            status, why = "tolerated", "attr-type"
            if attr is None:
                attr = {}
        entries.append([e["path"], v[0], v[1], attr])
    return (status, why, entries)


def dict_update(base, entries):
    """oracle for the cache after a successful load: insertion-ordered update"""
    keys = [e[0] for e in base]
    out = [list(e) for e in base]
    for e in entries:
        if e[0] in keys:
            out[keys.index(e[0])] = list(e)
        else:
            keys.append(e[0])
            out.append(list(e))
    return out


# accepted-although-malformed classes: stable signatures (null-time-accepted was fixed by ace221c; a silent acceptance of a
# null time is reported as a violation again)
def accepted_signature(reason):
    if reason == "null-time":
        return "null-time-accepted"
    return "malformed-accepted"


# ---------------------------------------------------------------- generators
def gen_time(rng):
    r = rng.random()
    if r < 0.12:
        return list(MIN7)
    if r < 0.24:
        return list(MAX7)
    y = rng.choice([1, 2, 9, 10, 99, 100, 999, 1000, 1582, 1900, 1970, 2000, 2016, 2024, 2100, 9998, 9999,
                    rng.randint(1, 9999)])
    mo = rng.choice([1, 2, 2, 12, rng.randint(1, 12)])
    leap = y % 4 == 0 and (y % 100 != 0 or y % 400 == 0)
    dim = [31, 29 if leap else 28, 31, 30, 31, 30, 31, 31, 30, 31, 30, 31][mo - 1]
    d = rng.choice([1, dim, dim, rng.randint(1, dim)])
    h = rng.choice([0, 23, rng.randint(0, 23)])
    mi = rng.choice([0, 59, rng.randint(0, 59)])
    s = rng.choice([0, 59, rng.randint(0, 59)])
    us = rng.choice([0, 0, 1, 999999, 500000, 100000, 10, rng.randint(0, 999999)])
    return [y, mo, d, h, mi, s, us]


def gen_attr_value(rng, depth=0):
    r = rng.random()
    if r < 0.35 or depth > 1:
        return rng.choice(["A", "", "metop-b", "x y", "ü€", "\"q\"\\", "0001", "null"])
    if r < 0.55:
        return rng.choice([0, 1, -7, 2 ** 40, 12345])
    if r < 0.65:
        return rng.choice([0.5, -2.25, 1e-3, 1234.5])
    if r < 0.75:
        return rng.choice([True, False, None])
    if r < 0.88:
        return [gen_attr_value(rng, depth + 1) for _ in range(rng.randint(0, 3))]
    return {rng.choice(["a", "b", "cc", "d e"]): gen_attr_value(rng, depth + 1) for _ in range(rng.randint(0, 2))}


def gen_doc(rng, n=None, base="/data"):
    n = rng.choice([0, 1, 1, 2, 3, 5, 8]) if n is None else n
    doc, seen = [], set()
    for i in range(n):
        p = f"{base}/{rng.choice(['a', 'b b', 'ü', '2018', 'x\"y', 'q\\\\z'])}/f{i}_{rng.randint(0, 99)}.{rng.choice(['nc', 'dat', 'h5.gz'])}"
        if p in seen:
            continue
        seen.add(p)
        a, b = gen_time(rng), gen_time(rng)
        if rng.random() < 0.7 and from7(a) > from7(b):
            a, b = b, a
        attr = {}
        for _ in range(rng.choice([0, 0, 1, 2, 3])):
            attr[rng.choice(["satellite", "orbit", "id", "k k", "é"])] = gen_attr_value(rng)
        doc.append([p, a, b, attr])
    return doc


# ---------------------------------------------------------------- part A: time text
def time_cases(ck, batch, n):
    from typhon.files.handlers.common import FileInfo
    rng = ck.rng
    times = [list(MIN7), list(MAX7), [1, 1, 1, 0, 0, 0, 1], [999, 12, 31, 23, 59, 59, 999999], [1000, 1, 1, 0, 0, 0, 0],
             [2024, 2, 29, 12, 0, 0, 5], [2000, 2, 29, 0, 0, 0, 0], [1900, 2, 28, 23, 59, 59, 999999]]
    times += [gen_time(rng) for _ in range(n)]
    for v in times:
        time_case(ck, batch, v)
    texts = []
    for _ in range(n):
        texts.append(mutate_text(rng, iso7(gen_time(rng))))
    texts += ["1-01-01T00:00:00.000000", "2020-1-1T1:1:1.5", "2020-01- 5T00:00:00.0", "2020-01-05t00:00:00.0",
              "2020-01-05T00:00:60.0", "2020-02-30T00:00:00.0", "0000-01-05T00:00:00.0", "2020-01-05T24:00:00.0",
              "2020-01-05T00:00:00.1234567", "2020-01-05T00:00:00.", "", "2020-01-05T00:00:00.0 ", "2020-01-05",
              "2020-01-05T00:00:00", "2020-01-05T00:00:00.000000+00:00", "2020-01- 05T00:00:00.0", "2023-02-29T00:00:00.0"]
    for s in texts:
        parse_case(ck, batch, s)


def time_case(ck, batch, v):
    from typhon.files.handlers.common import FileInfo
    case = {"op": "time", "t": v}
    t = from7(v)
    try:
        jd = FileInfo("/p", [t, t], {}).to_json_dict()
        back = FileInfo.from_json_dict(json.loads(json.dumps(jd)))
        text = jd["times"][0]
        ok = isinstance(back.times[0], dt.datetime) and t7(back.times[0]) == v and t7(back.times[1]) == v
        if not ok:
            ck.violation("time-roundtrip", f"to_json_dict/from_json_dict changed the time {v} -> {back.times}", case)
        if text != iso7(v):
            ck.violation("time-text", f"time {v} written as {text!r}, expected {iso7(v)!r}", case)
    except Exception as e:      # noqa
        ck.violation("time-roundtrip", f"time {v}: {type(e).__name__}: {e}", case)
        text = None
    ck.case(key=("time", tuple(v)), kind="time/fmt", sample={"time": v, "text": text})

    def cb(out):
        if out[0] != text:
            ck.disagree(f"fmt {v}: model {out[0]!r} vs code {text!r}", case)
    batch.add(["fmt " + " ".join(map(str, v))], cb)


def mutate_text(rng, s):
    for _ in range(rng.choice([1, 1, 2, 3])):
        k = rng.randint(0, 9)
        if k == 0 and s:
            i = rng.randrange(len(s)); s = s[:i] + s[i + 1:]
        elif k == 1:
            i = rng.randint(0, len(s)); s = s[:i] + rng.choice("0123456789 -:.Tt+Z") + s[i:]
        elif k == 2 and s:
            i = rng.randrange(len(s)); s = s[:i] + rng.choice("0123456789") + s[i + 1:]
        elif k == 3:
            s = re.sub(r"(?<=[-T:])0(?=\d)", "", s, count=rng.randint(1, 5))      # drop leading zeros
        elif k == 4:
            s = s[:rng.randint(0, len(s))]
        elif k == 5:
            s = s.rstrip("0") or s
        elif k == 6:
            s = s.replace("T", rng.choice(["t", " ", "T "]))
        elif k == 7:
            parts = re.split(r"([-T:.])", s)
            i = rng.randrange(0, len(parts), 2)
            parts[i] = str(rng.choice([0, 12, 13, 24, 29, 30, 31, 32, 59, 60, 61, 62, 99, 100, 10000, 1234567]))
            s = "".join(parts)
        elif k == 8:
            s = s + rng.choice(["0", " ", "Z", "\n"])
    return s


def parse_case(ck, batch, s):
    from typhon.files.handlers.common import FileInfo
    case = {"op": "parse", "text": s}
    try:
        info = FileInfo.from_json_dict({"path": "/p", "times": [s, s], "attr": {}})
        got = t7(info.times[0])
    except Exception:      # noqa  (any exception ends in load_cache's warning branch)
        got = None
    want_strict = strict_time(s)
    # oracle: a canonical text must be read as itself; any other text may be rejected or accepted, but an accepted text
    # must get a value consistent with its digits (which parser typhon uses is not part of the property)
    if want_strict is not None and got != want_strict:
        ck.violation("time-parse", f"canonical text {s!r} read as {got}", case)
    elif isinstance(got, list) and not consistent(s, got):
        ck.violation("time-parse", f"text {s!r} read as {got}: not a reading of these digits", case)
    ck.case(key=("parse", s) if got is not None else None, kind="time/parse-" + ("ok" if isinstance(got, list) else "err"),
            sample={"text": s, "parsed": got})

    def cb(out):
        m = None if out[0] == "err" else [int(x) for x in out[0].split()]
        if want_strict is not None or (m is not None and got is not None):
            if m != got:
                ck.disagree(f"parse {s!r}: model {m} vs code {got}", case)
        elif (m is None) != (got is None):
            ck.count("time/acceptance-differs-from-model")      # non-canonical text: acceptance is not pinned
    if "\n" not in s and "\r" not in s:
        batch.add(["parse " + hexs(s)], cb)


# ---------------------------------------------------------------- part B/C: save, crash, restart
def model_doc_json(doc):
    return json.dumps([[p, a, b, at] for p, a, b, at in doc], allow_nan=False)


def crash_points(nchunks):
    pts = [("open",)] + [("write", k) for k in range(nchunks)] + [("before-rename",), ("after-rename",), None]
    return pts


def crash_index(pt, nchunks):
    """number of completed events of (open, write_1..write_k) for the model; -1 = complete"""
    if pt is None or pt == ("after-rename",):
        return -1
    if pt == ("open",):
        return 0
    if pt == ("before-rename",):
        return nchunks + 1
    return 1 + pt[1]


def save_case(ck, batch, d, old, new, pt, stale_backup=None, old_bytes=None, chunks_ref=None):
    """one save of `new` over a cache file holding `old` (None = no file), interrupted at `pt`; then a restart"""
    cfile = os.path.join(d, CACHE)
    case = {"op": "crash", "old": old, "new": new, "at": list(pt) if pt else None, "stale": stale_backup}
    old_b = None if old is None else (old_bytes if old_bytes is not None else doc_text(old).encode())
    new_b = doc_text(new).encode()
    put_file(cfile, old_b)
    put_file(cfile + ".backup", None if stale_backup is None else stale_backup.encode())
    fs, w, exc = new_fileset(d, None)
    fill(fs, new)
    ctl = Ctl(crash=pt)
    crashed = False
    try:
        with patched(ctl):
            fs.save_cache(cfile)
    except Crash:
        crashed = True
    except Exception as e:      # noqa
        ck.violation("save-exception", f"save_cache raised {type(e).__name__}: {e}", case)
        return None
    if pt is not None and not crashed:
        return "nocrash"
    got_c, got_b = read_bytes(cfile), read_bytes(cfile + ".backup")
    complete = pt is None or pt == ("after-rename",)
    # ---- oracle
    if complete:
        if got_c != new_b:
            ck.violation("save-text", f"complete save wrote {got_c!r}, expected {new_b!r}", case)
        if got_b is not None:
            ck.violation("backup-left", "backup file remains after a complete save", case)
    else:
        if got_c != old_b:
            ck.violation("crash-cache-changed", f"save interrupted at {pt}: cache file is {show_state(got_c)[:80]}, was {show_state(old_b)[:80]}", case)
        if got_b not in (None, "dir") and not new_b.startswith(got_b) and got_b != (stale_backup or "").encode():
            ck.violation("backup-not-prefix", f"backup after crash at {pt} is not a prefix of the new document", case)
    # restart
    fs2, w2, exc2 = new_fileset(d, cfile)
    if exc2 is not None:
        ck.violation("restart-exception", f"FileSet(info_cache=) raised {type(exc2).__name__}: {exc2} after crash at {pt}", case)
        return ctl
    got_cache = canon_cache(fs2.info_cache)
    want = new if complete else (old or [])
    if not same_cache(got_cache, dict_update([], want)):
        ck.violation("restart-cache", f"after crash at {pt} the restarted cache has {len(got_cache)} entries "
                                      f"{got_cache[:2]}, expected {'new' if complete else 'old'} document {want[:2]}", case)
    if w2:
        ck.violation("restart-warning", f"restart after crash at {pt} warned: {w2[0][:100]}", case)
    key = ("crash", json.dumps(new), json.dumps(old), str(pt)) if new else None
    ck.case(key=key, kind="crash/" + (pt[0] if pt else "none"),
            sample={"old_entries": len(old or []), "new_entries": len(new), "crash_at": list(pt) if pt else None,
                    "cache_file_is": "new" if complete else "old"})
    # ---- model
    chunks = chunks_ref if chunks_ref is not None else ctl.chunks
    lines = ["new", f"file {CACHE} {show_state(old_b)}"]
    if stale_backup is not None:
        lines.append(f"file {CACHE}.backup {hexs(stale_backup)}")
    lines.append("cacheset " + model_doc_json(new))
    lines.append(f"save {CACHE} {crash_index(pt, len(chunks))} " + " ".join(hexs(c) for c in chunks))
    dl = dec_line(got_c) if isinstance(got_c, bytes) else None
    if dl:
        lines.append(dl)
    lines.append(f"init {CACHE}")
    real_doc = ctl.doc

    def cb(out):
        o = out[len(lines) - (3 if dl else 2)]
        m = re.match(r"doc=(.*) cache=(\S+) backup=(\S+)$", o)
        if not m:
            ck.disagree(f"model save output unparsable: {o[:100]}", case)
            return
        if m.group(2) != show_state(got_c) or m.group(3) != show_state(got_b):
            ck.disagree(f"crash at {pt}: model cache={m.group(2)[:40]} backup={m.group(3)[:40]} vs "
                        f"disk cache={show_state(got_c)[:40]} backup={show_state(got_b)[:40]}", case)
        if real_doc is not None and m.group(1) != "raise" and json.loads(m.group(1)) != real_doc:
            ck.disagree(f"document handed to json.dump differs: model {m.group(1)[:80]} vs code {str(real_doc)[:80]}", case)
        fin = out[-1]
        flag, _, cj = fin.partition(" ")
        if (flag == "warn") != bool(w2) or not same_cache(json.loads(cj), got_cache):
            ck.disagree(f"restart after crash at {pt}: model {fin[:100]} vs code warn={bool(w2)} {got_cache[:2]}", case)
    batch.add(lines, cb)
    return ctl


def crash_document(ck, batch, d, old, new, exhaustive=True, stale=None):
    """complete save first (records the chunks), then every crash point"""
    ctl = save_case(ck, batch, d, old, new, None, stale_backup=stale)
    if ctl in (None, "nocrash"):
        return
    chunks = list(ctl.chunks)
    if "".join(chunks) != doc_text(new):
        ck.violation("save-text", "json.dump chunks do not spell the expected document", {"op": "crash", "old": old, "new": new, "at": None})
    # the JSON contract used by the theorems: no strict prefix of the text decodes (checked on the real json)
    text = "".join(chunks)
    step = 1 if len(text) < 400 else max(1, len(text) // 200)
    for n in range(0, len(text), step):
        if real_decode(text[:n].encode())[0] != "fail":
            ck.violation("json-contract", f"strict prefix of length {n} of a saved document decodes", {"op": "crash", "old": old, "new": new, "at": None})
            break
    pts = crash_points(len(chunks))[:-1]
    if not exhaustive and len(pts) > 12:
        pts = pts[:3] + ck.rng.sample(pts[3:-2], 6) + pts[-2:]
    for pt in pts:
        r = save_case(ck, batch, d, old, new, pt, stale_backup=stale, chunks_ref=chunks)
        if r == "nocrash":
            ck.disagree(f"crash point {pt} was never reached (I/O sequence of save_cache changed)", {"op": "crash", "old": old, "new": new, "at": list(pt)})


def hard_crash_case(ck, d, old, new, k):
    """fork; the child dies with os._exit at the k-th write call (buffers are lost)"""
    cfile = os.path.join(d, CACHE)
    case = {"op": "hardcrash", "old": old, "new": new, "k": k}
    old_b = None if old is None else doc_text(old).encode()
    new_b = doc_text(new).encode()
    put_file(cfile, old_b)
    put_file(cfile + ".backup", None)
    fs, w, exc = new_fileset(d, None)
    fill(fs, new)
    pid = os.fork()
    if pid == 0:
        try:
            with patched(Ctl(crash=("write", k), hard=True)):
                fs.save_cache(cfile)
        finally:
            os._exit(0)
    _, status = os.waitpid(pid, 0)
    code = os.waitstatus_to_exitcode(status)
    got_c, got_b = read_bytes(cfile), read_bytes(cfile + ".backup")
    if code == 9:
        if got_c != old_b:
            ck.violation("crash-cache-changed", f"process killed at write {k}: cache file changed", case)
        if got_b is not None and not new_b.startswith(got_b):
            ck.violation("backup-not-prefix", f"backup after kill at write {k} is not a prefix of the new document", case)
    elif code == 0:
        if got_c != new_b:
            ck.violation("save-text", "complete save in child wrote a different document", case)
    else:
        raise vlib.InfraError(f"forked child exited {code}")
    ck.case(key=("hard", json.dumps(new), k), kind="crash/hard-kill", sample={"new_entries": len(new), "killed_at_write": k,
                                                                              "backup_bytes": None if got_b is None else len(got_b)})


# ---------------------------------------------------------------- part D: corrupted cache files
def mutations(rng, doc):
    """(label, python value to dump) — wrong types, missing keys, odd top levels"""
    base = [{"path": p, "times": [iso7(a), iso7(b)], "attr": at} for p, a, b, at in doc] or \
           [{"path": "/x", "times": [iso7(MIN7), iso7(MAX7)], "attr": {}}]
    out = []

    def mut(label, f, idx=None):
        v = json.loads(json.dumps(base))
        i = rng.randrange(len(v)) if idx is None else idx
        f(v[i])
        out.append((label, v))
    for k in ("path", "times", "attr"):
        mut("missing-" + k, lambda e, k=k: e.pop(k))
    for lab, val in (("int", 5), ("list", ["a"]), ("null", None), ("bool", True), ("dict", {"a": 1}), ("float", 2.5)):
        mut("path-" + lab, lambda e, val=val: e.__setitem__("path", val))
    for lab, val in (("null", None), ("str", "ab"), ("emptystr", ""), ("int", 7), ("dict", {"0": "x"}), ("empty", []),
                     ("short", [iso7(MIN7)]), ("long", [iso7(MIN7), iso7(MAX7), "zzz"]), ("nulls", [None, None]),
                     ("null0", [None, iso7(MAX7)]), ("null1", [iso7(MIN7), None]), ("ints", [1, 2]),
                     ("bad0", ["1-01-01T00:00:00.000000", iso7(MAX7)]), ("bad1", [iso7(MIN7), "yesterday"]),
                     ("loose", ["2020-1-1T1:1:1.5", "2020-01-05t00:00:00.0"]), ("lists", [[iso7(MIN7)], [iso7(MAX7)]]),
                     ("feb30", ["2020-02-30T00:00:00.000000", iso7(MAX7)]), ("tz", [iso7(MIN7) + "+00:00", iso7(MAX7)])):
        mut("times-" + lab, lambda e, val=val: e.__setitem__("times", val))
    for lab, val in (("null", None), ("list", [1, 2]), ("int", 3), ("str", "s")):
        mut("attr-" + lab, lambda e, val=val: e.__setitem__("attr", val))
    for lab, val in (("list", ["path"]), ("str", "path"), ("null", None), ("int", 1), ("emptydict", {})):
        v = json.loads(json.dumps(base))
        v[rng.randrange(len(v))] = val
        out.append(("entry-" + lab, v))
    for lab, val in (("dict", base[0]), ("emptydict", {}), ("str", "abc"), ("emptystr", ""), ("int", 3), ("null", None),
                     ("true", True), ("nested", [base]), ("dictofdocs", {"a": base})):
        out.append(("top-" + lab, val))
    dup = json.loads(json.dumps(base)) + [dict(json.loads(json.dumps(base[0])), attr={"dup": 1})]
    out.append(("dup-path", dup))
    extra = json.loads(json.dumps(base))
    extra[0]["extra"] = 1
    out.append(("extra-key", extra))
    return out


def corrupt_case(ck, batch, d, content, label, preload, use_init):
    """the cache file holds `content` (bytes | "dir" | None); load it into a FileSet that already caches `preload`"""
    cfile = os.path.join(d, CACHE)
    case = {"op": "corrupt", "label": label, "content_hex": content.hex() if isinstance(content, bytes) else content,
            "preload": preload, "init": use_init}
    put_file(cfile, content)
    put_file(cfile + ".backup", None)
    exc = None
    if use_init:
        fs, w, exc = new_fileset(d, cfile)
        preload = []
    else:
        fs, _, _ = new_fileset(d, None)
        fill(fs, preload)
        with warnings.catch_warnings(record=True) as ww:
            warnings.simplefilter("always")
            try:
                fs.load_cache(cfile)
            except Exception as e:      # noqa
                exc = e
        w = [str(x.message) for x in ww]
    put_file(cfile, None)
    if exc is not None:
        ck.violation("load-exception", f"{label}: loading the cache raised {type(exc).__name__}: {exc}", case)
        ck.case(kind="corrupt/" + label.split("@")[0])
        return
    got = canon_cache(fs.info_cache)
    before = dict_update([], preload)
    # ---- oracle
    if content is None:
        verdict = ("missing",)
    elif content == "dir":
        verdict = ("bad", "unreadable", None)
    else:
        r = real_decode(content)
        try:
            own = json.loads(content.decode("utf-8"))
            verdict = judge_document(own)
        except Exception:      # noqa
            verdict = ("bad", "not-json", None)
    if verdict[0] == "missing":
        if not same_cache(got, before):
            ck.violation("invented-info", f"{label}: missing cache file changed the cache to {got[:2]}", case)
    elif verdict[0] == "bad":
        if w and not same_cache(got, before):
            ck.violation("warned-but-changed", f"{label}: warning issued but the cache changed: {got[:2]}", case)
        if not w:
            ck.violation(accepted_signature(verdict[1]), f"{label}: malformed document ({verdict[1]}) accepted without warning; "
                                                         f"cache now {got[-1:]}", case)
    else:
        want = dict_update(before, verdict[2])
        if w:
            if verdict[0] == "good":
                ck.violation("good-document-rejected", f"{label}: well-formed document rejected: {w[0][:120]}", case)
            elif not same_cache(got, before):
                ck.violation("warned-but-changed", f"{label}: warning issued but the cache changed", case)
        else:
            if verdict[0] == "tolerated":
                ck.count("tolerated-accept/" + verdict[1])
            if not cache_matches(got, want):
                ck.violation("load-wrong", f"{label}: loaded cache {got[:2]} differs from the document {want[:2]}", case)
    nontriv = isinstance(content, bytes) and len(content) > 2
    ck.case(key=("corrupt", label, case["content_hex"]) if nontriv else None, kind="corrupt/" + label.split("@")[0],
            sample={"label": label, "bytes": content[:60].decode("latin1") if isinstance(content, bytes) else content,
                    "warned": bool(w), "entries_after": len(got)})
    # ---- model
    lines = ["new", f"file {CACHE} {show_state(content)}"]
    if isinstance(content, bytes):
        dl = dec_line(content)
        if dl is None:
            return
        lines.append(dl)
    lines.append("cacheset " + model_doc_json(preload))
    lines.append(("init " if use_init else "load ") + CACHE)

    loose_doc = verdict[0] == "loose"

    def cb(out):
        flag, _, cj = out[-1].partition(" ")
        if loose_doc and (flag == "warn") != bool(w):
            ck.count("corrupt/loose-time-acceptance-differs-from-model")      # which liberal texts are accepted is not pinned
            return
        if (flag == "warn") != bool(w) or not same_cache(json.loads(cj), got):
            ck.disagree(f"{label}: model {out[-1][:120]} vs code warn={bool(w)} cache={got[:3]}", case)
    batch.add(lines, cb)


def corruption_stream(ck, batch, d, doc, thorough):
    rng = ck.rng
    text = doc_text(doc).encode()
    preload = gen_doc(rng, rng.choice([0, 1, 2]), base="/pre") if rng.random() < 0.6 else []
    if doc and rng.random() < 0.5:
        preload = preload + [[doc[0][0], gen_time(rng), gen_time(rng), {"old": True}]]     # overlapping key
    # truncation at every byte (small documents), sampled otherwise
    cuts = range(len(text)) if len(text) <= (700 if thorough else 260) else sorted(rng.sample(range(len(text)), 40))
    for n in cuts:
        corrupt_case(ck, batch, d, text[:n], f"truncate@{n}", preload, rng.random() < 0.5)
    corrupt_case(ck, batch, d, text, "intact", preload, False)
    corrupt_case(ck, batch, d, text, "intact", [], True)
    for label, v in mutations(rng, doc):
        corrupt_case(ck, batch, d, json.dumps(v).encode(), label, preload, rng.random() < 0.5)
    for label, content in (("missing", None), ("directory", "dir"), ("empty-file", b""), ("not-utf8", b"[\xff\xfe]"),
                           ("garbage", b"\x00\x01\x02"), ("trailing", text + b"]"), ("two-docs", text + text),
                           ("whitespace", b"  " + text + b"\n"), ("single-quotes", text.replace(b'"', b"'"))):
        corrupt_case(ck, batch, d, content, label, preload, rng.random() < 0.5)
    # byte flips inside the document
    for _ in range(12 if thorough else 4):
        if not text:
            break
        i = rng.randrange(len(text))
        flipped = text[:i] + bytes([rng.choice(b'{}[]",: 0a\\')]) + text[i + 1:]
        corrupt_case(ck, batch, d, flipped, "byteflip", preload, rng.random() < 0.5)


# ---------------------------------------------------------------- part E: find with and without the cache
def find_case(ck, batch, d):
    """real files on disk; information via file name / handler / both; find() fresh, with a warm cache, after
    save + restart must agree; every get_info answer is compared with the model"""
    from typhon.files import FileSet, FileHandler
    from typhon.files.handlers.common import FileInfo
    rng = ck.rng
    sub = tempfile.mkdtemp(dir=d)
    try:
        origin = dt.datetime(rng.choice([1999, 2016, 2020]), rng.randint(1, 12), rng.randint(1, 28), rng.randint(0, 23))
        n = rng.randint(1, 8)
        via = rng.choice(["filename", "handler", "both"])
        # compressed files: with info_via handler / both get_info hands a DECOMPRESSED temporary copy to the handler; the
        # FileInfo that is returned and cached must still carry the real path
        suffix = rng.choice(["", "", ".gz", ".zip", ".bz2"])
        pattern = os.path.join(sub, "{year}", "{sat}_{year}{month}{day}_{hour}{minute}{second}.dat" + suffix)
        truth = {}
        t = origin
        probe = FileSet(pattern, name="probe")
        for i in range(n):
            t = t + dt.timedelta(minutes=rng.randint(1, 600))
            sat = rng.choice(["A", "B", "noaa"])
            dur = rng.choice([0, 1, 59, 3600])
            fn = probe.get_filename(t, fill={"sat": sat})
            os.makedirs(os.path.dirname(fn), exist_ok=True)
            content = f"{t.isoformat()}\n{dur}\n".encode()
            if suffix == ".gz":
                import gzip
                content = gzip.compress(content)
            elif suffix == ".bz2":
                import bz2
                content = bz2.compress(content)
            elif suffix == ".zip":
                import io
                import zipfile
                buf = io.BytesIO()
                with zipfile.ZipFile(buf, "w") as z:
                    z.writestr(os.path.basename(fn)[:-4], content)
                content = buf.getvalue()
            with builtins.open(fn, "wb") as f:
                f.write(content)
            truth[fn] = (t, dur, sat)
        calls = []

        def info_fn(file_info, **kw):
            calls.append(file_info.path)
            with builtins.open(file_info.path) as f:          # the (decompressed) content carries start and duration
                a, b = f.read().split()
            tt, dur = dt.datetime.fromisoformat(a), int(b)
            return FileInfo(file_info.path, [tt, tt + dt.timedelta(seconds=dur)], {"dur": dur})

        def mk(cache, coverage=None):
            with warnings.catch_warnings(record=True) as w:
                warnings.simplefilter("always")
                fs = FileSet(pattern, handler=FileHandler(info=info_fn), info_via=via, info_cache=cache, name="f",
                             time_coverage=coverage)
            atexit.unregister(FileSet.save_cache)
            return fs, [str(x.message) for x in w if "cache" in str(x.message)]
        cfile = os.path.join(sub, CACHE)
        lo = origin - dt.timedelta(days=1)
        hi = t + dt.timedelta(days=1)
        if rng.random() < 0.5:
            hi = origin + (t - origin) / 2 + dt.timedelta(seconds=1)
        canon = lambda r: [[i.path, t7(i.times[0]), t7(i.times[1]), i.attr] for i in r]
        fs0, _ = mk(None)
        r0 = canon(fs0.find(lo, hi, no_files_error=False))
        fs1, w1 = mk(cfile)
        r1 = canon(fs1.find(lo, hi, no_files_error=False))
        r1b = canon(fs1.find(lo, hi, no_files_error=False))          # warm in-memory cache
        fs1.save_cache(cfile)
        saved = canon_cache(fs1.info_cache)
        ncalls = len(calls)
        fs2, w2 = mk(cfile)                                        # "restart"
        restored = canon_cache(fs2.info_cache)
        r2 = canon(fs2.find(lo, hi, no_files_error=False))
        case = {"op": "find", "via": via, "files": sorted((os.path.relpath(k, sub), t7(v[0]), v[1], v[2]) for k, v in truth.items()),
                "lo": t7(lo), "hi": t7(hi)}
        if w1 or w2:
            ck.violation("restart-warning", f"cache warnings during find scenario: {(w1 + w2)[0][:100]}", case)
        if not same_cache(restored, saved):
            ck.violation("restart-cache", f"restart restored {restored[:2]} but {saved[:2]} was saved", case)
        case["suffix"] = suffix
        # every FileInfo that is returned or cached carries the path of the real file (never a temporary copy)
        bad_paths = [x[0] for x in r0 + r1 + r1b + r2 + saved + restored if x[0] not in truth]
        if bad_paths:
            ck.violation("cached-path-not-real", f"find()/the cache hold a path that is not one of the fileset's files: {bad_paths[0]} "
                                                 f"(info_via={via}, suffix '{suffix}')", case)
        if not (r0 == r1 == r1b == r2):
            ck.violation("find-differs-with-cache", f"find() differs: no cache {r0[:3]} / cold {r1[:3]} / warm {r1b[:3]} / restarted {r2[:3]}", case)
        if via != "filename" and len(calls) != ncalls and r2:
            ck.count("find/handler-called-despite-cache")
        ck.case(key=("find", json.dumps(case["files"]), via) if len(r0) > 0 else None, kind="find/" + via,
                sample={"files": n, "found": len(r0), "via": via, "cached_entries": len(saved)})
        # model: the look-ups of fs2.find (cache restored from the document) and of a fresh FileSet
        lines = ["new", "cacheset " + model_doc_json(saved)]
        fresh, _ = mk(None)
        answers = []
        for p in sorted(truth):
            comp = canon([fresh.get_info(FileInfo(p))])[0]
            got = canon([fs2.get_info(FileInfo(p))])[0]
            answers.append((p, comp, got))
            lines.append(f"getinfo {json.dumps(p)} {json.dumps(comp)}")
        lines.append("dump")
        final = canon_cache(fs2.info_cache)

        def cb(out):
            for (p, comp, got), o in zip(answers, out[2:]):
                if o == "raise" or json.loads(o) != got:
                    ck.disagree(f"get_info({p}): model {o[:100]} vs code {got}", case)
            if not same_cache(json.loads(out[-1]), final):
                ck.disagree(f"cache after look-ups: model {out[-1][:100]} vs code {final[:2]}", case)
        if all(" " not in json.dumps(p) for p in truth):
            batch.add(lines, cb)
        # every kind of value assigned to time_coverage must reset the cache: find() through the warm, cached object must
        # equal find() of a fresh uncached FileSet with that coverage - directly, and after save + restart
        values = [rng.choice(["1 hour", "90 minutes"]), dt.timedelta(minutes=rng.choice([5, 61])), None, "2 hours", "2 hours", None, None]
        rng.shuffle(values)
        for v in values[:rng.randint(3, 7)]:
            fs2.time_coverage = v
            plain, _ = mk(None, v)
            want_f = canon(plain.find(lo, hi, no_files_error=False))
            got_f = canon(fs2.find(lo, hi, no_files_error=False))
            ccase = dict(case, op="coverage", assigned=str(v))
            if got_f != want_f:
                ck.violation("stale-cache-after-coverage-change", f"after time_coverage = {v!r} find() through the cached fileset gives "
                                                                  f"{got_f[:2]}, an uncached fileset {want_f[:2]}", ccase)
                break
            fs2.save_cache(cfile)
            fs3, w3 = mk(cfile, v)
            got_r = canon(fs3.find(lo, hi, no_files_error=False))
            if got_r != want_f or w3:
                ck.violation("stale-cache-after-coverage-change", f"after time_coverage = {v!r}, save and restart find() gives {got_r[:2]}, "
                                                                  f"an uncached fileset {want_f[:2]}", ccase)
                break
            ck.case(key=("coverage", json.dumps(case["files"]), str(v), via) if want_f else None, kind="coverage/" + type(v).__name__)
    finally:
        shutil.rmtree(sub, ignore_errors=True)


# ---------------------------------------------------------------- part F: histories
def history_case(ck, batch, d, nops):
    """random sequence of fill / save / interrupted save / restart / corrupt / load / reset / get_info on one cache file;
    after every step the in-memory cache and the two files are compared with the model and the oracle state"""
    from typhon.files.handlers.common import FileInfo
    rng = ck.rng
    cfile = os.path.join(d, CACHE)
    put_file(cfile, None)
    put_file(cfile + ".backup", None)
    fs, w, exc = new_fileset(d, cfile)
    cov = None                          # current time_coverage of the fileset (a restart builds a fileset without one)
    lines, checks, ops = ["new", f"init {CACHE}"], [], []
    o_cache, o_file = [], None          # oracle: in-memory entries, document on disk (None | entries | "bad")

    def snap(tag):
        got = canon_cache(fs.info_cache)
        lines.append("dump")
        idx = len(lines) - 1
        c, b = read_bytes(cfile), read_bytes(cfile + ".backup")
        checks.append((idx, "after-" + tag, got, c, b))
        if not same_cache(got, o_cache):
            ck.violation("history-cache", f"after {tag}: cache {got[:3]} expected {o_cache[:3]}", {"op": "history", "ops": list(ops)})
    for step in range(nops):
        op = rng.choice(["fill", "fill", "save", "save", "crash", "crash", "restart", "restart", "corrupt", "load", "reset", "getinfo",
                         "getinfo", "coverage"])
        if op == "fill":
            add = gen_doc(rng, rng.choice([1, 2, 3]), base=f"/h{rng.randint(0, 3)}")
            for e in add:
                fs.info_cache[e[0]] = FileInfo(e[0], [from7(e[1]), from7(e[2])], e[3])
            o_cache = dict_update(o_cache, add)
            ops.append(["fill", add])
            lines.append("cacheset " + model_doc_json(o_cache))
        elif op in ("save", "crash"):
            probe = Ctl()
            with patched(probe):      # dry run into a scratch name to learn the chunk count
                fs.save_cache(os.path.join(d, "probe.json"))
            if not os.path.isfile(os.path.join(d, "probe.json")):
                ck.violation("save-skipped", "save_cache(<file>) returned without writing the cache file",
                             {"op": "history", "ops": list(ops) + [["save-to-scratch-name"]]})
                return
            os.remove(os.path.join(d, "probe.json"))
            pt = None if op == "save" else rng.choice(crash_points(len(probe.chunks))[:-1])
            ctl = Ctl(crash=pt)
            try:
                with patched(ctl):
                    fs.save_cache(cfile)
            except Crash:
                pass
            ops.append([op, list(pt) if pt else None])
            lines.append(f"save {CACHE} {crash_index(pt, len(probe.chunks))} " + " ".join(hexs(c) for c in probe.chunks))
            if pt is None or pt == ("after-rename",):
                o_file = [list(e) for e in o_cache]
            idx = len(lines) - 1
            c, b = read_bytes(cfile), read_bytes(cfile + ".backup")
            checks.append((idx, "save", None, c, b))
            want_b = None if o_file is None else (o_file if isinstance(o_file, bytes) else doc_text(o_file).encode())
            if c != want_b:
                ck.violation("crash-cache-changed", f"history: after {op} at {pt} the cache file is not the last completely saved document",
                             {"op": "history", "ops": list(ops)})
        elif op == "restart":
            c = read_bytes(cfile)
            if isinstance(c, bytes):
                dl = dec_line(c)
                if dl:
                    lines.append(dl)
            fs, w, exc = new_fileset(d, cfile)
            cov = None
            ops.append(["restart"])
            lines.append(f"init {CACHE}")
            if exc is not None:
                ck.violation("restart-exception", f"history: restart raised {type(exc).__name__}: {exc}", {"op": "history", "ops": list(ops)})
                return
            if isinstance(o_file, bytes):
                o_cache = []
                if not w:
                    ck.violation("malformed-accepted", "history: truncated cache file loaded without warning", {"op": "history", "ops": list(ops)})
            else:
                o_cache = dict_update([], o_file or [])
                if w:
                    ck.violation("restart-warning", f"history: restart warned on an intact file: {w[0][:100]}", {"op": "history", "ops": list(ops)})
        elif op == "corrupt":
            c = read_bytes(cfile)
            if not isinstance(c, bytes) or len(c) < 2:
                continue
            n = rng.randrange(len(c))
            put_file(cfile, c[:n])
            o_file = c[:n]
            ops.append(["corrupt", n])
            lines.append(f"file {CACHE} {hexs(c[:n])}")
        elif op == "load":
            c = read_bytes(cfile)
            if isinstance(c, bytes):
                dl = dec_line(c)
                if dl:
                    lines.append(dl)
            with warnings.catch_warnings(record=True) as ww:
                warnings.simplefilter("always")
                try:
                    fs.load_cache(cfile)
                except Exception as e:      # noqa
                    ck.violation("load-exception", f"history: load_cache raised {type(e).__name__}: {e}", {"op": "history", "ops": list(ops)})
                    return
            ops.append(["load"])
            lines.append(f"load {CACHE}")
            if not isinstance(o_file, bytes):
                o_cache = dict_update(o_cache, o_file or [])
        elif op == "reset":
            fs.reset_cache()
            o_cache = []
            ops.append(["reset"])
            lines.append("reset")
        elif op == "coverage":
            # any assignment to time_coverage (None, text, timedelta, the same value again) empties the cache
            v = rng.choice([None, None, "1 hour", dt.timedelta(minutes=5), "same"])
            if v == "same":
                v = fs.time_coverage
            fs.time_coverage = v
            cov = fs.time_coverage if isinstance(fs.time_coverage, dt.timedelta) else None
            o_cache = []
            ops.append(["coverage", str(v)])
            lines.append("reset")
        elif op == "getinfo":
            # a file whose name carries the times: 20200102_030405.dat
            t = from7(gen_time(rng)).replace(microsecond=0)
            p = os.path.join(d, "data", t.strftime("%Y").zfill(4) + t.strftime("%m%d_%H%M%S.dat"))
            try:
                comp = [p, t7(t), t7(t + cov) if cov else t7(t), {}]
            except OverflowError:
                continue
            poisoned = rng.random() < 0.4
            if poisoned:
                # pin "cache look-up before any parsing": pre-fill the cache with deliberately different information
                fake = [p, gen_time(rng), gen_time(rng), {"fake": rng.randint(0, 99)}]
                fs.info_cache[p] = FileInfo(p, [from7(fake[1]), from7(fake[2])], dict(fake[3]))
                o_cache = dict_update(o_cache, [fake])
                lines.append("cacheset " + model_doc_json(o_cache))
            try:
                info = fs.get_info(FileInfo(p))
            except Exception as e:      # noqa
                ops.append(["getinfo-raise", p])
                continue
            cached = next((e for e in o_cache if e[0] == p), None)
            want_info = cached if cached is not None else comp
            got_info = [info.path, t7(info.times[0]), t7(info.times[1]), info.attr]
            if got_info != want_info:
                ck.violation("cache-bypassed" if cached is not None else "getinfo-wrong",
                             f"get_info({os.path.basename(p)}) = {got_info[1:]} expected {'the cached' if cached is not None else 'the parsed'} {want_info[1:]}",
                             {"op": "history", "ops": list(ops) + [["getinfo-poisoned" if poisoned else "getinfo", p]]})
            if cached is None:
                o_cache = dict_update(o_cache, [comp])
            ops.append(["getinfo-poisoned" if poisoned else "getinfo", p])
            lines.append(f"getinfo {json.dumps(p)} {json.dumps(comp)}")
            checks.append((len(lines) - 1, "getinfo", got_info, None, None))
        snap(op)
    atexit.unregister(type(fs).save_cache)
    case = {"op": "history", "ops": ops}
    ck.case(key=("history", json.dumps(ops)) if len(ops) > 3 else None, kind="history", sample={"ops": [o[0] for o in ops][:12]})

    def cb(out):
        for idx, tag, got, c, b in checks:
            o = out[idx]
            if tag == "save":
                m = re.match(r"doc=(.*) cache=(\S+) backup=(\S+)$", o)
                if not m or m.group(2) != show_state(c) or m.group(3) != show_state(b):
                    ck.disagree(f"history save: model {o[-80:]} vs disk cache={show_state(c)[:30]} backup={show_state(b)[:30]}", case)
                    return
            elif tag == "getinfo":
                if o == "raise" or json.loads(o) != got:
                    ck.disagree(f"history get_info: model {o[:100]} vs code {got}", case)
                    return
            else:
                if not same_cache(json.loads(o), got):
                    ck.disagree(f"history after {tag}: model cache {o[:100]} vs code {got[:3]}", case)
                    return
    batch.add(lines, cb)


def single_file_case(ck, d):
    """single-file fileset: time_coverage is a (start, end) pair; every assignment (pair, another pair, the same pair again,
    None) must be visible in get_info / find at once, also with a cache file in play"""
    from typhon.files import FileSet
    from typhon.files.handlers.common import FileInfo
    rng = ck.rng
    sub = tempfile.mkdtemp(dir=d)
    try:
        path = os.path.join(sub, "single.dat")
        builtins.open(path, "w").close()
        cfile = os.path.join(sub, CACHE)
        fs = FileSet(path, info_cache=cfile, name="single")
        atexit.unregister(FileSet.save_cache)
        pairs = []
        while len(pairs) < 3:
            a, b = sorted([from7(gen_time(rng)), from7(gen_time(rng))])
            if a < b and a > dt.datetime.min and b < dt.datetime.max:      # boundary semantics of find() itself is C01
                pairs.append((a, b))
        seq = [pairs[0], pairs[1], pairs[1], None, pairs[2], None, None]
        rng.shuffle(seq)
        for v in seq[:rng.randint(3, 7)]:
            fs.get_info(FileInfo(path))                      # warm the cache with the previous coverage
            fs.time_coverage = v
            want = [t7(v[0]), t7(v[1])] if v else [list(MIN7), list(MAX7)]
            case = {"op": "single-file-coverage", "assigned": [t7(v[0]), t7(v[1])] if v else None}
            info = fs.get_info(FileInfo(path))
            got = [t7(info.times[0]), t7(info.times[1])]
            found = [[t7(i.times[0]), t7(i.times[1])] for i in fs.find(no_files_error=False)]
            if got != want or found != [want]:
                ck.violation("stale-cache-after-coverage-change", f"single-file fileset: after time_coverage = {case['assigned']} get_info gives "
                                                                  f"{got}, find {found}, expected {want}", case)
                return
            fs.save_cache(cfile)
            fs2 = FileSet(path, info_cache=cfile, time_coverage=v, name="single")
            atexit.unregister(FileSet.save_cache)
            got2 = [[t7(i.times[0]), t7(i.times[1])] for i in fs2.find(no_files_error=False)]
            if got2 != [want]:
                ck.violation("stale-cache-after-coverage-change", f"single-file fileset: after time_coverage = {case['assigned']}, save and restart "
                                                                  f"find gives {got2}, expected {want}", case)
                return
            ck.case(key=("single", json.dumps(case["assigned"])), kind="coverage/single-file")
    finally:
        shutil.rmtree(sub, ignore_errors=True)


# ---------------------------------------------------------------- part F2: every save writes the CURRENT cache
def resave_case(ck, batch, d, doc, how, second):
    """save -> (something empties / changes the cache or the file without a look-up in between) -> save -> restart.
    The second save must write what the cache holds at that moment (no 'nothing changed' short cut may skip it)."""
    cfile = os.path.join(d, CACHE)
    case = {"op": "resave", "doc": doc, "how": how, "second": second}
    put_file(cfile, None)
    put_file(cfile + ".backup", None)
    start_loaded = how.startswith("loaded-")
    if start_loaded:
        put_file(cfile, doc_text(doc).encode())
        fs, w, exc = new_fileset(d, cfile)                 # the cache comes from its own file
    else:
        fs, w, exc = new_fileset(d, None)
        fill(fs, doc)
        fs.save_cache(cfile)
    lines = ["new", "cacheset " + model_doc_json(doc), f"save {CACHE} -1 " + hexs(doc_text(doc))]
    kind = how.replace("loaded-", "")
    if kind == "reset":
        fs.reset_cache()
        lines.append("reset")
    elif kind == "coverage":
        fs.time_coverage = "1 hour"                        # the setter empties the cache
        lines.append("reset")
    elif kind == "file-deleted":
        put_file(cfile, None)
        lines.append(f"file {CACHE} absent")
    elif kind == "file-corrupted":
        put_file(cfile, doc_text(doc).encode()[:-3])
        lines.append(f"file {CACHE} {hexs(doc_text(doc).encode()[:-3])}")
    current = [] if kind in ("reset", "coverage") else list(doc)
    if second:
        from typhon.files.handlers.common import FileInfo
        for p, a, b, at in second:
            fs.info_cache[p] = FileInfo(p, [from7(a), from7(b)], json.loads(json.dumps(at)))
        current = dict_update(current, second)
    lines.append("cacheset " + model_doc_json(current))
    ctl = Ctl()
    try:
        with patched(ctl):
            fs.save_cache(cfile)
    except Exception as e:      # noqa
        ck.violation("save-exception", f"second save raised {type(e).__name__}: {e}", case)
        return
    got_c = read_bytes(cfile)
    want_b = doc_text(current).encode()
    if got_c != want_b:
        ck.violation("save-skipped", f"save after '{how}': the cache file holds {show_state(got_c)[:60]}, the cache at the time of the save was "
                                     f"{len(current)} entries ({show_state(want_b)[:60]})", case)
    fs2, w2, exc2 = new_fileset(d, cfile)
    if exc2 is not None or not same_cache(canon_cache(fs2.info_cache), dict_update([], current)) or w2:
        ck.violation("restart-cache", f"restart after save / {how} / save: cache has {len(fs2.info_cache) if fs2 is not None else '?'} entries, expected {len(current)}"
                                      f"{' (warning: ' + w2[0][:60] + ')' if w2 else ''}", case)
    ck.case(key=("resave", json.dumps(doc), how, json.dumps(second)), kind="resave/" + how, sample={"entries": len(doc), "how": how, "then_added": len(second)})
    lines.append(f"save {CACHE} -1 " + " ".join(hexs(c) for c in ctl.chunks))
    state = show_state(got_c)

    def cb(out):
        m = re.match(r"doc=(.*) cache=(\S+) backup=(\S+)$", out[-1])
        if not m or m.group(2) != state:
            ck.disagree(f"resave {how}: model '{out[-1][-90:]}' vs disk cache={state[:60]}", case)
    batch.add(lines, cb)


# ---------------------------------------------------------------- part G: the atexit hook (real interpreter exit)
ATEXIT_CHILD = r"""
import datetime as dt, json, os, sys, warnings
warnings.simplefilter("ignore")
from typhon.files import FileSet
root = sys.argv[1]
pattern = os.path.join(root, "data", "{year}{month}{day}_{hour}{minute}{second}.dat")
a = FileSet(pattern, info_cache=os.path.join(root, "good.json"), name="a")
b = FileSet(pattern, info_cache=os.path.join(root, "bad.json"), name="b")
found_a = [i.path for i in a.find(dt.datetime(1999, 1, 1), dt.datetime(2030, 1, 1), no_files_error=False)]
found_b = [i.path for i in b.find(dt.datetime(1999, 1, 1), dt.datetime(2030, 1, 1), no_files_error=False)]
json.dump({"a": found_a, "b": found_b, "a_cache": len(a.info_cache), "b_cache": len(b.info_cache)}, open(os.path.join(root, "child.json"), "w"))
# normal interpreter exit: the atexit hooks registered by FileSet.__init__ must save both caches
"""


def atexit_case(ck, d):
    """a child interpreter builds FileSet(info_cache=f), runs find() and exits normally; the parent reads the cache file.
    (a) an intact cache file must afterwards hold the old entries and the files found; (b) a malformed cache file: what
    happens is recorded (notes/C15.md), no verdict."""
    import subprocess
    import sys
    rng = ck.rng
    root = tempfile.mkdtemp(dir=d)
    try:
        os.makedirs(os.path.join(root, "data"))
        times = []
        for _ in range(rng.randint(1, 5)):
            t = dt.datetime(rng.choice([2001, 2016, 2024]), rng.randint(1, 12), rng.randint(1, 28), rng.randint(0, 23), rng.randint(0, 59), rng.randint(0, 59))
            if t not in times:
                times.append(t)
                builtins.open(os.path.join(root, "data", t.strftime("%Y%m%d_%H%M%S.dat")), "w").close()
        old = [["/old/kept.nc", gen_time(rng), gen_time(rng), {"old": True}]]
        with builtins.open(os.path.join(root, "good.json"), "w") as f:
            f.write(doc_text(old))
        bad_text = doc_text(old)[:-7]
        with builtins.open(os.path.join(root, "bad.json"), "w") as f:
            f.write(bad_text)
        case = {"op": "atexit", "files": [t7(t) for t in sorted(times)], "old": old}
        env = dict(os.environ, PYTHONWARNINGS="ignore")
        p = subprocess.run([sys.executable, "-c", ATEXIT_CHILD, root], capture_output=True, text=True, timeout=300, env=env)
        if p.returncode != 0 or not os.path.exists(os.path.join(root, "child.json")):
            ck.violation("atexit-child-failed", f"child interpreter exited {p.returncode}: {p.stderr[-300:]}", case)
            return
        child = json.load(builtins.open(os.path.join(root, "child.json")))
        want_paths = ["/old/kept.nc"] + sorted(child["a"])
        try:
            saved = json.load(builtins.open(os.path.join(root, "good.json")))
            got_paths = [e["path"] for e in saved]
        except Exception as e:      # noqa
            ck.violation("atexit-not-saved", f"cache file after interpreter exit is not a document: {type(e).__name__}", case)
            return
        if sorted(got_paths) != sorted(want_paths):
            ck.violation("atexit-not-saved", f"after a normal interpreter exit the cache file holds {len(got_paths)} entries "
                                             f"{[os.path.basename(x) for x in got_paths][:4]}, expected the old entry and the {len(child['a'])} files found", case)
        else:
            by_path = {e["path"]: e for e in saved}
            for t in times:
                pth = os.path.join(root, "data", t.strftime("%Y%m%d_%H%M%S.dat"))
                if by_path[pth]["times"] != [iso7(t7(t)), iso7(t7(t))]:
                    ck.violation("atexit-not-saved", f"entry saved at exit has times {by_path[pth]['times']}, expected {iso7(t7(t))}", case)
            if by_path["/old/kept.nc"]["times"] != [iso7(old[0][1]), iso7(old[0][2])] or by_path["/old/kept.nc"]["attr"] != {"old": True}:
                ck.violation("atexit-not-saved", "the entry restored from the old cache file was not written back unchanged", case)
        if os.path.exists(os.path.join(root, "good.json.backup")):
            ck.violation("backup-left", "backup file remains after the save at interpreter exit", case)
        # (b) malformed file: observation only
        after = builtins.open(os.path.join(root, "bad.json")).read()
        if after == bad_text:
            ck.count("atexit/malformed-file-left-as-is")
        else:
            try:
                n = len(json.loads(after))
                ck.count("atexit/malformed-file-overwritten-with-new-cache")
                if n != len(child["b"]):
                    ck.count("atexit/malformed-file-overwritten-unexpected-size")
            except Exception:      # noqa
                ck.count("atexit/malformed-file-replaced-by-other-garbage")
        ck.case(key=("atexit", json.dumps(case["files"])), kind="atexit", sample={"files": len(times), "saved_entries": len(got_paths)})
    finally:
        shutil.rmtree(root, ignore_errors=True)


# ---------------------------------------------------------------- corpus / main
def run_case(ck, batch, d, c):
    op = c.get("op")
    if op == "time":
        time_case(ck, batch, c["t"])
    elif op == "parse":
        parse_case(ck, batch, c["text"])
    elif op == "crash":
        save_case(ck, batch, d, c.get("old"), c["new"], tuple(c["at"]) if c.get("at") else None, stale_backup=c.get("stale"))
    elif op == "corrupt":
        content = c["content_hex"]
        content = None if content is None else "dir" if content == "dir" else bytes.fromhex(content)
        corrupt_case(ck, batch, d, content, c.get("label", "corpus"), c.get("preload", []), c.get("init", True))
    elif op == "hardcrash":
        hard_crash_case(ck, d, c.get("old"), c["new"], c["k"])
    elif op == "resave":
        resave_case(ck, batch, d, c["doc"], c["how"], c.get("second", []))


def explore(ck, batch, d, n_docs, n_time, n_find, n_hist, n_hard, thorough, n_atexit=0):
    rng = ck.rng
    for _ in range(n_atexit):
        atexit_case(ck, d)
    time_cases(ck, batch, n_time)
    # boundary documents first
    docs = [[], [["/x", list(MIN7), list(MAX7), {}]],
            [["/a/b.nc", [2020, 2, 29, 23, 59, 59, 999999], [2020, 3, 1, 0, 0, 0, 0], {"sat": "A", "n": [1, 2.5, None, {"k": "v"}]}],
             ["/a/ü \"q\".nc", [999, 12, 31, 0, 0, 0, 1], [1000, 1, 1, 0, 0, 0, 0], {}]]]
    docs += [gen_doc(rng) for _ in range(n_docs)]
    for i, new in enumerate(docs):
        old = rng.choice([None, [], gen_doc(rng, rng.choice([1, 2, 4])), new])
        stale = rng.choice([None, None, "stale backup [", doc_text(new)[:5]])
        crash_document(ck, batch, d, old, new, exhaustive=(i < 3 or len(new) <= 3 or thorough), stale=stale)
    for i, doc in enumerate(docs[1:1 + max(3, n_docs // 4)]):
        corruption_stream(ck, batch, d, doc[:3], thorough)
    for i, doc in enumerate(docs[1:1 + max(4, n_docs // 3)]):
        for how in ("reset", "coverage", "file-deleted", "file-corrupted", "loaded-reset", "loaded-coverage", "loaded-file-deleted"):
            resave_case(ck, batch, d, doc[:4], how, gen_doc(rng, rng.choice([0, 0, 1, 2]), base="/second"))
    for _ in range(n_find):
        find_case(ck, batch, d)
        single_file_case(ck, d)
    for _ in range(n_hist):
        history_case(ck, batch, d, rng.randint(4, 25))
    for _ in range(n_hard):
        new = gen_doc(rng, rng.choice([1, 3, 8, 40, 400]))
        nchunks = sum(1 for _ in json.JSONEncoder().iterencode(json.loads(doc_text(new))))
        hard_crash_case(ck, d, rng.choice([None, gen_doc(rng, 2)]), new, rng.choice([0, 1, nchunks - 1, nchunks, rng.randint(0, nchunks)]))
    batch.flush()


ANCHORS = [("typhon/files/fileset.py", "FileSet.save_cache"), ("typhon/files/fileset.py", "FileSet.load_cache"),
           ("typhon/files/fileset.py", "FileSet.__init__"), ("typhon/files/fileset.py", "FileSet.get_info"),
           ("typhon/files/fileset.py", "FileSet.reset_cache"),
           ("typhon/files/handlers/common.py", "FileInfo.to_json_dict"), ("typhon/files/handlers/common.py", "FileInfo.from_json_dict")]


def make_check():
    return vlib.Check(
        PROP, pkg="fsops", props="Proofs.Props.C15", driver="drv_c15",
        lemma_files=["Proofs/Lemmas/TimeText.lean", "Proofs/Lemmas/Disk.lean", "Proofs/Lemmas/CacheMap.lean"],
        model_files=["Model/FS.lean", "Model/Cache.lean"],
        trusted=["hand-written model Model/Cache.lean tied to save_cache / load_cache / __init__ / get_info / reset_cache / "
                 "FileInfo.to_json_dict / from_json_dict by the correspondence run of this check (driver drv_c15: same documents, "
                 "chunk lists, crash points and corrupted files; compared: bytes of cache and backup file, document handed to "
                 "json.dump, warning flag, in-memory cache)",
                 "json.dump / json.load are a parameter of the model (contract: load(dump(doc)) = doc, no strict prefix of a dumped "
                 "list decodes); the contract is exercised on every generated document but not proved",
                 "POSIX rename atomicity (shutil.move on one file system), durability order of the OS, atexit: modelled, not verified",
                 "strptime is modelled on ASCII text (its \\d also accepts other Unicode digits)"],
        assumptions=["times are naive datetimes; attributes are JSON values with string keys (what file-name placeholders produce)",
                     "one writer per cache file (no concurrent save_cache on the same file)",
                     "a crash is a Python exception inside save_cache or the death of the process; the disk itself keeps what was written"])


def main():
    ck = make_check()
    ck.rule = ("documents = lists of (path, t0, t1, attributes) with boundary-biased times (datetime.min/max, leap days, year<1000, "
               "µs 0/1/999999), unicode/quoted paths, nested JSON attributes; per document: complete save + EVERY crash point "
               "(open, each write call of json.dump, before/after rename) followed by a restart; truncation at every byte and ~50 "
               "type/key mutations of small documents; time texts (valid + mutated); find() with/without cache on real files; "
               "random histories of fill/save/crash/restart/corrupt/load/reset/get_info (also on paths pre-filled with different "
               "information); forked hard kills; a child interpreter whose normal exit must save the cache (atexit). "
               "non-trivial = distinct (document, crash point) with a non-empty document, distinct corrupted byte string, "
               "distinct time / accepted time text, history with > 3 ops")
    ck.anchors(ANCHORS)
    ck.build()
    use_model = os.path.exists(os.path.join(ck.pkgdir, ".lake/build/bin/drv_c15"))
    d = tempfile.mkdtemp(prefix="verif_c15_")
    try:
        batch = Batch(ck, use_model)
        for name, c in vlib.load_corpus(PROP):
            run_case(ck, batch, d, c)
        thorough = ck.tier == "thorough"
        explore(ck, batch, d, n_docs=ck.budget(40, 400), n_time=ck.budget(600, 8000), n_find=ck.budget(25, 250),
                n_hist=ck.budget(60, 800), n_hard=ck.budget(10, 80), thorough=thorough,
                n_atexit=1 if ck.tier == "quick" else 6)
        ck.exhaustive = False
        ck.notes.append("every write-call index of json.dump was used as a crash point for each document with <= 3 entries "
                        "(all documents in the thorough tier); larger documents: open, first writes, 6 random writes, before/after rename")
        if ck.broken() and not ck.violations:
            # failing-input search: oracle only, thorough budget
            b2 = Batch(ck, False)
            explore(ck, b2, d, n_docs=250, n_time=6000, n_find=100, n_hist=300, n_hard=20, thorough=True)
    finally:
        try:
            from typhon.files import FileSet
            atexit.unregister(FileSet.save_cache)
        except Exception:      # noqa
            pass
        shutil.rmtree(d, ignore_errors=True)
    ck.finish()


def replay(path):
    obj = json.load(open(path))
    c = obj.get("case")
    if not c:
        print(json.dumps(obj, indent=1)[:3000])
        raise SystemExit(1)
    ck = make_check()
    d = tempfile.mkdtemp(prefix="verif_c15_")
    try:
        if c.get("op") in ("history", "find"):
            print("case kind", c.get("op"), "is replayed by re-running the check with the recorded seed:", obj.get("seed"))
            print(json.dumps(c, indent=1)[:3000])
            raise SystemExit(1)
        run_case(ck, Batch(ck, False), d, c)
    finally:
        shutil.rmtree(d, ignore_errors=True)
    for v in ck.violations:
        print("REPRODUCED:", v["what"])
    raise SystemExit(1 if ck.violations else 0)
