"""C12 — compress/decompress round-trip any content and never leave debris.

Decided by: theorems in lean/fsops/Proofs/Props/C12.lean about the control-flow model lean/fsops/Model/Compress.lean
+ correspondence of the model (driver drv_c12) with the real `typhon.files.compress / decompress` on the same names,
formats, contents, fault positions and archives + an independent oracle (stdlib gzip/bz2/lzma/zipfile, directory
listings of a private tmpdir).

Faults are injected from outside: `open`, `shutil`, the entries of `_known_compressions` are replaced in the
namespace of `typhon.files.utils` for one call; /repo is never edited.
"""
import builtins
import bz2
import gzip
import io
import json
import lzma
import os
import shutil
import tempfile
import zipfile

import vlib

PROP = "C12"
FORMATS = ["gz", "bz2", "zip", "xz"]


class Boom(Exception):
    """fault injected by the harness (an ordinary Exception, like an I/O error)"""


class BodyError(Exception):
    """raised by the caller's block"""


def hx(b):
    if isinstance(b, str):
        b = b.encode("utf-8")
    return b.hex() if b else "-"


# ---------------------------------------------------------------- stdlib side (oracle)
def make_archive(fmt, member, content):
    """an archive as the standard library writes it"""
    buf = io.BytesIO()
    if fmt == "gz":
        with gzip.GzipFile(fileobj=buf, mode="wb") as f:
            f.write(content)
    elif fmt == "bz2":
        return bz2.compress(content)
    elif fmt == "xz":
        return lzma.compress(content, format=lzma.FORMAT_XZ)
    elif fmt == "zip":
        with zipfile.ZipFile(buf, "w", zipfile.ZIP_DEFLATED) as z:
            z.writestr(member, content)
    return buf.getvalue()


MAGIC = {"gz": b"\x1f\x8b", "bz2": b"BZh", "zip": b"PK", "xz": b"\xfd7zXZ\x00"}


def read_archive(data):
    """which genuine archive is this?  -> (fmt, member, content) or None; the standard library must open it"""
    for fmt, magic in MAGIC.items():
        if data.startswith(magic):
            try:
                if fmt == "gz":
                    return ("gz", "", gzip.GzipFile(fileobj=io.BytesIO(data)).read())
                if fmt == "bz2":
                    return ("bz2", "", bz2.BZ2File(io.BytesIO(data)).read())
                if fmt == "xz":
                    return ("xz", "", lzma.LZMAFile(io.BytesIO(data)).read())
                z = zipfile.ZipFile(io.BytesIO(data))
                names = z.namelist()
                if len(names) != 1:
                    return None
                return ("zip", names[0], z.read(names[0]))
            except Exception:      # noqa
                return None
    return None


def stdlib_read(fmt, data, member):
    """what the standard library reads from these bytes as format `fmt`; None = it raises"""
    try:
        if fmt == "gz":
            return gzip.GzipFile(fileobj=io.BytesIO(data)).read()
        if fmt == "bz2":
            return bz2.BZ2File(io.BytesIO(data)).read()
        if fmt == "xz":
            return lzma.LZMAFile(io.BytesIO(data)).read()
        return zipfile.ZipFile(io.BytesIO(data)).read(member)
    except Exception:      # noqa
        return None


def ext_fmt(name):
    """independent reading of 'the suffix of the file name': text after the last dot of the last component, if that
    component has a non-dot character before that dot"""
    base = name.rsplit("/", 1)[-1]
    i = base.rfind(".")
    if i <= 0 or set(base[:i]) <= {"."}:
        return ""
    return base[i + 1:]


def listing(d):
    out = []
    for root, dirs, files in os.walk(d):
        for n in dirs + files:
            out.append(os.path.relpath(os.path.join(root, n), d))
    return sorted(out)


# ---------------------------------------------------------------- fault injection
class ModProxy:
    def __init__(self, mod, **over):
        self._mod = mod
        self.__dict__.update(over)

    def __getattr__(self, name):
        return getattr(self._mod, name)


class inject:
    """replace names in typhon.files.utils for the duration of a with-block"""

    def __init__(self, fault, fmt, small_chunks=False, src_marker=os.sep + "temp", target=None):
        self.fault, self.fmt, self.small, self.src_marker, self.target = fault, fmt, small_chunks, src_marker, target
        self.fired = False          # did the injected fault actually raise?
        self.src_path = None        # the yielded temporary path (set by the caller's block): the source of compress_as

    def __enter__(self):
        import typhon.files.utils as U
        self.U = U
        self.saved_open = U.__dict__.get("open")
        self.saved_shutil = U.shutil
        self.saved_entry = U._known_compressions.get(self.fmt) if self.fmt else None
        fault, target = self.fault, self.target

        def open_(path, mode="r", *a, **k):
            p = str(path)
            is_src = os.path.abspath(p) == self.src_path if self.src_path else p.endswith(self.src_marker)
            if fault == "openSrc" and "r" in mode and is_src:
                self.fired = True
                raise Boom("open source")
            if fault == "openTarget" and "w" in mode and target and os.path.abspath(p) == os.path.abspath(target):
                self.fired = True
                raise Boom("open target")
            return builtins.open(path, mode, *a, **k)

        def copyfileobj(fsrc, fdst, length=0):
            if fault == "copy":
                self.fired = True           # the hook point is reached (reading a corrupt source may raise by itself)
                data = fsrc.read(64)
                fdst.write(data[:max(1, len(data) // 2)] if data else b"")
                raise Boom("copy")
            if self.small:
                return shutil.copyfileobj(fsrc, fdst, 13)
            return shutil.copyfileobj(fsrc, fdst, length) if length else shutil.copyfileobj(fsrc, fdst)

        U.open = open_
        U.shutil = ModProxy(shutil, copyfileobj=copyfileobj)
        if self.fmt in U._known_compressions:
            real = self.saved_entry
            if fault == "ctor":
                def entry(*a, **k):
                    self.fired = True
                    raise Boom("constructor")
                U._known_compressions[self.fmt] = entry
            elif fault in ("copy", "openSrc") and self.fmt == "zip":
                inj = self

                class Z(zipfile.ZipFile):
                    def write(self, *a, **k):
                        inj.fired = True
                        raise Boom("zip write")
                U._known_compressions["zip"] = Z
        return self

    def __exit__(self, *a):
        U = self.U
        if self.saved_open is None:
            U.__dict__.pop("open", None)
        else:
            U.open = self.saved_open
        U.shutil = self.saved_shutil
        if self.saved_entry is not None:
            U._known_compressions[self.fmt] = self.saved_entry
        return False


# ---------------------------------------------------------------- compress scenario
def compress_case(ck, batch, scratch, name, fmt, fault, body, content, old, small=False):
    from typhon.files import compress
    case = {"op": "compress", "name": name, "fmt": fmt, "fault": fault, "body": body, "content_hex": content.hex(),
            "old": old if old in (None, "dir") else old.hex(), "small_chunks": small}
    root = tempfile.mkdtemp(dir=scratch)
    try:
        tmpdir, out = os.path.join(root, "tmp"), os.path.join(root, "out")
        os.makedirs(tmpdir)
        target = os.path.join(out, name)
        os.makedirs(os.path.dirname(target), exist_ok=True)
        if old == "dir":
            os.makedirs(target)
        elif old is not None:
            with builtins.open(target, "wb") as f:
                f.write(old)
        eff = fmt if fmt is not None else ext_fmt(name)
        known = eff in FORMATS
        if not known and old == "dir":
            return          # the block itself could not write to a directory: nothing to learn
        out_before = listing(out)
        yielded, exc = None, None
        use_tmp = os.path.join(root, "missing") if fault == "mkTmpDir" else tmpdir
        inj = inject(fault, eff if known else None, small, target=target)
        try:
            with inj:
                with compress(target, fmt=fmt, tmpdir=use_tmp) as p:
                    yielded = p
                    inj.src_path = os.path.abspath(p)
                    if body in ("write", "writeraise"):
                        with builtins.open(p, "wb") as f:
                            f.write(content)
                    if body in ("writeraise", "idleraise"):
                        raise BodyError("body")
        except BaseException as e:      # noqa
            exc = e
        # ---- observe
        tmp_after = listing(tmpdir)
        if os.path.isdir(target):
            tstate = "dir"
        elif not os.path.exists(target):
            tstate = None
        else:
            with builtins.open(target, "rb") as f:
                tstate = f.read()
        body_raised = body in ("writeraise", "idleraise")
        # ---- oracle
        if tmp_after:
            ck.violation("tmp-debris", f"compress({name!r}, fmt={fmt}) fault={fault} body={body}: temporary entries left: {tmp_after[:4]}", case)
        if os.path.exists(os.path.join(root, "missing")):
            ck.violation("tmp-debris", "compress created the missing tmpdir", case)
        extra = [x for x in listing(out) if x not in out_before and os.path.join(out, x) != target]
        if extra:
            ck.violation("target-dir-debris", f"compress left extra files next to the target: {extra[:4]}", case)
        if yielded is not None and known and os.path.exists(yielded):
            ck.violation("tmp-debris", f"the temporary file {yielded} still exists", case)
        if body_raised and yielded is not None:
            if not isinstance(exc, BodyError):
                ck.violation("exception-lost", f"exception of the block did not propagate (got {type(exc).__name__})", case)
            if known and tstate != old:
                ck.violation("target-touched-on-exception", f"block raised but the target changed: "
                             f"{'absent' if tstate is None else (tstate if tstate == 'dir' else tstate[:20])}", case)
        # did the injected fault fire?  (mkTmpDir is a natural fault: a missing tmpdir)  A fault point that is never
        # reached means the I/O sequence differs from the model's — a correspondence matter, not a defect of the code
        reachable = fault is not None and known and fault != "mkTmpDir" and not body_raised and old != "dir" and \
            not (fault == "openTarget" and eff != "gz") and not (body == "idle" and not (eff == "zip" or fault == "openSrc"))
        not_fired = reachable and not inj.fired
        if not_fired:
            ck.disagree(f"compress {name!r} fmt={fmt}: the injected fault '{fault}' was never reached (hook point moved?)", case)
        if fault is not None and known and inj.fired and exc is None:
            ck.violation("fault-swallowed", f"injected fault {fault} was raised inside compress but did not surface", case)
        # a failure BEFORE compress_as has opened the target (temporary directory, missing / unreadable source, opening the
        # target itself, a constructor that raises before it opens anything) must leave an existing target as it was
        before_open = known and exc is not None and not body_raised and (
            fault == "mkTmpDir" or (fault == "openSrc" and eff != "zip") or (fault == "openTarget" and eff == "gz") or
            (fault == "ctor" and eff != "gz") or (body == "idle" and eff != "zip" and fault in (None, "copy", "openSrc", "openTarget")))
        if before_open and isinstance(old, bytes) and tstate != old:
            ck.violation("target-destroyed-before-open", f"compress({name!r}) failed before the target was opened (fault={fault}, body={body}) "
                                                         f"but the existing target is {'gone' if tstate is None else 'changed'}", case)
        success = exc is None
        if success and known and body == "write":
            got = read_archive(tstate) if isinstance(tstate, bytes) else None
            if got is None or got[0] != eff:
                ck.violation("not-an-archive" if eff != "xz" else "not-an-archive", f"stored file for fmt {eff} is not a genuine {eff} archive "
                             f"(starts with {tstate[:8] if isinstance(tstate, bytes) else tstate})", case)
            elif got[2] != content:
                ck.violation("content-changed", f"archive holds {len(got[2])} bytes, expected {len(content)}", case)
        if not known:
            if yielded is not None and yielded != target:
                ck.violation("passthrough", f"name without compression format was not passed through: {yielded}", case)
            if body == "write" and tstate != content:
                ck.violation("passthrough", "pass-through file does not hold what was written", case)
        # ---- classify for the model
        if tstate is None:
            tclass = "absent"
        elif tstate == "dir":
            tclass = "dir"
        elif old not in (None, "dir") and tstate == old:
            tclass = "old"
        elif not known:
            tclass = "raw:" + hx(tstate)
        else:
            got = read_archive(tstate)
            tclass = f"enc:{got[0]}:{hx(got[1])}:{hx(got[2])}" if got and got[2] == content and body == "write" and exc is None else "partial"
        outcome = "ok" if exc is None else "raised"
        key = ("c", name, fmt, fault, body, len(content), old if old in (None, "dir") else "bytes", small)
        ck.case(key=key if known else None, kind=f"compress/{eff if known else 'pass'}/{fault or 'nofault'}/{body}",
                sample={"name": name, "fmt": fmt, "fault": fault, "body": body, "bytes": len(content), "outcome": outcome,
                        "target": tclass[:40]})
        line = f"compress {hx(name_for_model(name))} {hx(fmt) if fmt is not None else '-'} {fault or '-'} {body} {hx(content)} " \
               f"{'absent' if old is None else 'dir' if old == 'dir' else hx(old)}"
        if fmt == "":
            return        # empty fmt cannot be written in the protocol

        def cb(o):
            want = f"{outcome} target={tclass} tmpclean={str(not tmp_after).lower()} yielded={'temp' if known else 'name'}"
            if yielded is None and exc is not None and not known:
                return
            if not_fired:
                return          # already reported once as "fault never reached"
            if o[0] != want:
                ck.disagree(f"compress {name!r} fmt={fmt} fault={fault} body={body}: model '{o[0][:120]}' vs code '{want[:120]}'", case)
        batch.add([line], cb)
    finally:
        shutil.rmtree(root, ignore_errors=True)


def name_for_model(name):
    return "out/" + name


# ---------------------------------------------------------------- decompress scenario
def decompress_case(ck, batch, scratch, name, fault, body, arch, use_target=False, small=False):
    """arch: None | "dir" | ("good", fmt, member, content) | ("corrupt", how, fmt, content)"""
    from typhon.files import decompress
    if use_target and fault == "mkTmpFile":
        fault = None            # with target= no temporary file is made; opening the target is not fault-injected
    case = {"op": "decompress", "name": name, "fault": fault, "body": body, "use_target": use_target, "small_chunks": small,
            "arch": arch if arch in (None, "dir") else [arch[0], arch[1], arch[2], arch[3].hex()]}
    root = tempfile.mkdtemp(dir=scratch)
    try:
        tmpdir, out = os.path.join(root, "tmp"), os.path.join(root, "out")
        os.makedirs(tmpdir)
        path = os.path.join(out, name)
        os.makedirs(os.path.dirname(path), exist_ok=True)
        data = None
        if arch == "dir":
            os.makedirs(path)
        elif arch is not None:
            kind = arch[0]
            if kind == "good":
                data = make_archive(arch[1], arch[2], arch[3]) if arch[1] in FORMATS else arch[3]
            else:
                full = make_archive(arch[2], "m", arch[3])
                data = {"truncated": full[:len(full) // 2], "garbage": b"this is not an archive" + arch[3][:20],
                        "empty": b"", "cut1": full[:-1]}[arch[1]]
            with builtins.open(path, "wb") as f:
                f.write(data)
        eff = ext_fmt(name)
        known = eff in FORMATS
        if known and arch not in (None, "dir") and arch[0] == "corrupt":
            lib = stdlib_read(eff, data, os.path.basename(os.path.splitext(name)[0]))
            if lib is not None:       # e.g. an empty file is an empty gzip/bz2/xz stream for the standard library
                arch = ("good", eff, os.path.basename(os.path.splitext(name)[0]), lib)
                case["arch"] = [arch[0], arch[1], arch[2], lib.hex()]
        explicit = os.path.join(out, "explicit.tmp") if use_target else None
        out_before = listing(out)
        yielded, exc, seen = None, None, None
        use_tmp = os.path.join(root, "missing") if fault == "mkTmpFile" and not use_target else tmpdir
        kw = {"target": explicit} if use_target else {}
        inj = inject(fault, eff if known else None, small)
        try:
            with inj:
                with decompress(path, tmpdir=use_tmp, **kw) as p:
                    yielded = p
                    with builtins.open(p, "rb") as f:
                        seen = f.read()
                    if body == "raise":
                        raise BodyError("body")
        except BaseException as e:      # noqa
            exc = e
        tmp_after = listing(tmpdir)
        # ---- oracle
        if tmp_after:
            ck.violation("tmp-debris", f"decompress({name!r}) fault={fault} body={body} arch={case['arch'] and case['arch'][:2]}: "
                                       f"temporary entries left: {tmp_after[:4]}", case)
        if known and yielded is not None and os.path.exists(yielded):
            ck.violation("copy-not-removed", f"decompressed copy {os.path.basename(yielded)} still exists", case)
        if use_target and known and os.path.exists(explicit) and not (fault == "mkTmpFile"):
            ck.violation("copy-not-removed", "explicit target of decompress still exists", case)
        extra = [x for x in listing(out) if x not in out_before]
        if extra:
            ck.violation("target-dir-debris", f"decompress left files next to the archive: {extra[:4]}", case)
        if data is not None:
            with builtins.open(path, "rb") as f:
                if f.read() != data:
                    ck.violation("archive-modified", "decompress changed the archive", case)
        if body == "raise" and yielded is not None and not isinstance(exc, BodyError):
            ck.violation("exception-lost", f"exception of the block did not propagate (got {type(exc).__name__})", case)
        lib_ok = data is not None and known and stdlib_read(eff, data, os.path.basename(os.path.splitext(name)[0])) is not None
        reachable = known and (fault == "ctor" or (fault == "copy" and data is not None and (eff != "zip" or lib_ok)))
        not_fired = reachable and not inj.fired
        if not_fired:
            ck.disagree(f"decompress {name!r}: the injected fault '{fault}' was never reached (hook point moved?)", case)
        if fault in ("ctor", "copy") and inj.fired and exc is None:
            ck.violation("fault-swallowed", f"injected fault {fault} was raised inside decompress but did not surface", case)
        good_match = arch not in (None, "dir") and arch[0] == "good" and arch[1] == eff and \
            (eff != "zip" or arch[2] == os.path.basename(os.path.splitext(name)[0]))
        if known and good_match and fault is None:
            if seen != arch[3]:
                ck.violation("roundtrip", f"decompress yielded {None if seen is None else len(seen)} bytes, expected {len(arch[3])}", case)
            if exc is not None and body != "raise":
                ck.violation("roundtrip", f"decompress of a genuine {eff} archive raised {type(exc).__name__}: {exc}", case)
        if known and arch not in (None, "dir") and arch[0] == "corrupt" and arch[1] in ("truncated", "garbage", "empty", "cut1") and exc is None:
            ck.violation("corrupt-accepted", f"{arch[1]} {eff} archive was decompressed without an error", case)
        if not known:
            if yielded is not None and yielded != path:
                ck.violation("passthrough", f"name without compression suffix not passed through: {yielded}", case)
            if data is not None and seen is not None and seen != data:
                ck.violation("passthrough", "pass-through yielded different bytes", case)
        outcome = "ok" if exc is None else "raised"
        ck.case(key=("d", name, fault, body, json.dumps(case["arch"]), use_target, small) if known else None,
                kind=f"decompress/{eff if known else 'pass'}/{fault or 'nofault'}/{body}/{'none' if arch is None else arch if arch == 'dir' else arch[0] + ('-' + arch[1] if arch[0] == 'corrupt' else '')}",
                sample={"name": name, "fault": fault, "body": body, "archive": case["arch"] and case["arch"][:3], "outcome": outcome,
                        "seen_bytes": None if seen is None else len(seen)})
        # ---- model
        if arch is None:
            a = "absent"
        elif arch == "dir":
            a = "dir"
        elif arch[0] == "corrupt":
            a = "corrupt"
        elif arch[1] in FORMATS:
            a = f"enc:{arch[1]}:{hx(arch[2]) if arch[1] == 'zip' else '-'}:{hx(arch[3])}"
        else:
            a = "raw:" + hx(arch[3])
        if not known and arch in (None, "dir"):
            return          # pass-through of a missing file: the harness body itself fails to open it
        if not known and a.startswith("enc:"):
            a = "raw:" + hx(data)
        line = f"{'decompressto' if use_target else 'decompress'} {hx(name_for_model(name))} {fault or '-'} " \
               f"{'raise' if body == 'raise' else 'read'} {a}"
        tgt_state = "present" if (use_target and os.path.exists(explicit)) else "absent"

        def cb(o):
            want = f"{outcome} seen={'none' if seen is None else hx(seen)} tmpclean={str(not tmp_after).lower()} yielded={'temp' if known else 'name'}"
            if use_target:
                want = f"{outcome} seen={'none' if seen is None else hx(seen)} tmpclean={str(not tmp_after).lower()} " \
                       f"yielded={'target' if known else 'name'} target={tgt_state}"
            if not_fired:
                return
            if o[0] != want:
                ck.disagree(f"decompress {name!r} fault={fault} body={body} arch={a[:40]}: model '{o[0][:100]}' vs code '{want[:100]}'", case)
        batch.add([line], cb)
    finally:
        shutil.rmtree(root, ignore_errors=True)


# ---------------------------------------------------------------- names
def names_case(ck, batch, name, fmt):
    """file-name handling of the model vs os.path and vs the independent reading"""
    base, ext = os.path.splitext(name)
    eff = fmt if fmt is not None else ext.lstrip(".")
    case = {"op": "names", "name": name, "fmt": fmt}
    if fmt is None and eff != ext_fmt(name) and ext_fmt(name) in FORMATS + [""] and (eff in FORMATS or ext_fmt(name) in FORMATS):
        ck.violation("suffix-rule", f"{name!r}: typhon derives format {eff!r}, the suffix is {ext_fmt(name)!r}", case)
    ck.case(kind="names")

    def cb(o):
        want_prefix = f"fmt={hx(eff)} known={str(eff in FORMATS).lower()} "
        want_suffix = f" base={hx(base)} ext={hx(ext)}"
        if not o[0].startswith(want_prefix) or not o[0].endswith(want_suffix):
            ck.disagree(f"names {name!r} fmt={fmt}: model '{o[0]}' vs os.path '{want_prefix}…{want_suffix}'", case)
    if fmt != "":
        batch.add([f"names {hx(name)} {hx(fmt) if fmt is not None else '-'}"], cb)


class Batch:
    def __init__(self, ck, use_model):
        self.ck, self.use_model, self.lines, self.jobs = ck, use_model, [], []

    def add(self, lines, cb):
        if not self.use_model:
            return
        self.jobs.append((len(self.lines), len(lines), cb))
        self.lines += lines
        if len(self.lines) > 3000:
            self.flush()

    def flush(self):
        if self.lines:
            out = self.ck.driver(self.lines)
            for s, n, cb in self.jobs:
                cb(out[s:s + n])
        self.lines, self.jobs = [], []


# ---------------------------------------------------------------- exploration
NAMES = ["x.{f}", "a.b.c.{f}", "archive.tar.{f}", "d.x/a.b.{f}", "sp ace.{f}", "ünï€.{f}", "..hidden.{f}", "a..{f}", "UPPER.NC.{f}",
         "x.{f}.{f}"]
PASS_NAMES = ["plain.dat", "noext", ".gz", "a.gz.", "a.GZ", "x.gzip", "x.zip.txt", "d.gz/file", "...xz", "x.lzma", "x.tar",
              "DATA.GZ", "scan.Bz2", "ARCHIVE.ZIP", "x.Xz", "x.gZ", "a.tar.BZ2"]          # suffixes are case sensitive


def contents(rng, thorough):
    out = [b"", b"\x00", b"typhon test string, 37 bytes long....", bytes(rng.getrandbits(8) for _ in range(300)),
           gzip.compress(b"already compressed " * 20)]
    big = bytes(rng.getrandbits(8) for _ in range(7000)) * 10          # 70 000 bytes
    return out, big


def explore(ck, batch, scratch, n_random, thorough):
    rng = ck.rng
    small, big = contents(rng, thorough)
    # --- exhaustive grid: contents x formats x fault positions x bodies (suffix form), plus fmt= form
    c_faults = {"gz": [None, "mkTmpDir", "openSrc", "openTarget", "ctor", "copy"], "bz2": [None, "mkTmpDir", "openSrc", "ctor", "copy"],
                "xz": [None, "mkTmpDir", "openSrc", "ctor", "copy"], "zip": [None, "mkTmpDir", "ctor", "copy"]}
    grid_contents = [small[0], small[1], small[2], big]
    for f in FORMATS:
        for ci, content in enumerate(grid_contents):
            for fault in c_faults[f]:
                for body in ("write", "idle", "writeraise", "idleraise"):
                    if content is big and (body != "write" or fault not in (None, "copy")):
                        continue
                    old = [None, b"old target content", "dir"][(ci + len(body)) % 3] if fault is None or body != "write" else \
                        rng.choice([None, b"old target content"])
                    compress_case(ck, batch, scratch, f"x.{f}", None, fault, body, content, old)
            # fmt= form with another suffix
            compress_case(ck, batch, scratch, "data.bin", f, None, "write", content, None)
            compress_case(ck, batch, scratch, "data.bin", f, "copy", "write", content, b"old target content")
            compress_case(ck, batch, scratch, "data.bin", f, None, "writeraise", content, b"old target content")
    d_faults = [None, "mkTmpFile", "ctor", "copy"]
    for f in FORMATS:
        for content in grid_contents:
            for fault in d_faults:
                for body in ("read", "raise"):
                    if content is big and fault not in (None, "copy"):
                        continue
                    decompress_case(ck, batch, scratch, f"x.{f}", fault, body, ("good", f, "x", content))
            for how in ("truncated", "garbage", "empty", "cut1"):
                decompress_case(ck, batch, scratch, f"x.{f}", None, "read", ("corrupt", how, f, content or b"abc"))
            other = FORMATS[(FORMATS.index(f) + 1) % 4]
            decompress_case(ck, batch, scratch, f"x.{f}", None, "read", ("good", other, "x", content))      # wrong format inside
            decompress_case(ck, batch, scratch, f"x.{f}", None, "read", ("good", f, "x", content), use_target=True)
            decompress_case(ck, batch, scratch, f"x.{f}", "copy", "read", ("good", f, "x", content), use_target=True)
            decompress_case(ck, batch, scratch, f"x.{f}", None, "raise", ("good", f, "x", content), use_target=True)
        decompress_case(ck, batch, scratch, f"x.{f}", None, "read", None)
        decompress_case(ck, batch, scratch, f"x.{f}", None, "read", "dir")
        decompress_case(ck, batch, scratch, "x.zip", None, "read", ("good", "zip", "other-member", b"abc"))
    # --- names with several dots, pass-through names, explicit fmt
    for tmpl in NAMES:
        for f in FORMATS:
            name = tmpl.format(f=f)
            content = rng.choice(small)
            names_case(ck, batch, name, None)
            compress_case(ck, batch, scratch, name, None, None, "write", content, None)
            member = os.path.basename(os.path.splitext(name)[0])
            decompress_case(ck, batch, scratch, name, None, "read", ("good", f, member, content))
            roundtrip_case(ck, scratch, name, None, content)
    for name in PASS_NAMES:
        names_case(ck, batch, name, None)
        compress_case(ck, batch, scratch, name, None, None, "write", small[2], None)
        compress_case(ck, batch, scratch, name, None, None, "writeraise", small[2], b"old")
        decompress_case(ck, batch, scratch, name, None, "read", ("good", "raw", "", small[2]))
        decompress_case(ck, batch, scratch, name, None, "raise", ("good", "raw", "", small[2]))
        for f in ("gz", "zip"):
            names_case(ck, batch, name, f)
            compress_case(ck, batch, scratch, name, f, None, "write", small[2], None)
    for f in ("rar", "tgz", "GZ", ".gz", "Zip", "XZ", "bZ2"):
        names_case(ck, batch, "x.gz", f)
        compress_case(ck, batch, scratch, "x.gz", f, None, "write", small[2], None)       # unknown fmt= wins over the suffix
    # --- random scenarios
    for _ in range(n_random):
        f = rng.choice(FORMATS)
        name = rng.choice(NAMES).format(f=f) if rng.random() < 0.85 else rng.choice(PASS_NAMES)
        content = bytes(rng.getrandbits(8) for _ in range(rng.choice([0, 1, 2, 37, 100, 1000, 5000])))
        eff = ext_fmt(name)
        small_chunks = rng.random() < 0.4
        if rng.random() < 0.5:
            fmt = rng.choice([None, None, None, f, rng.choice(FORMATS)])
            e2 = fmt if fmt is not None else eff
            fault = rng.choice(c_faults.get(e2, [None]))
            compress_case(ck, batch, scratch, name, fmt, fault, rng.choice(["write", "write", "idle", "writeraise", "idleraise"]), content,
                          rng.choice([None, b"old target content", "dir"]), small=small_chunks)
        else:
            r = rng.random()
            member = os.path.basename(os.path.splitext(name)[0])
            if r < 0.6:
                arch = ("good", eff if eff in FORMATS else "raw", member, content)
            elif r < 0.85:
                arch = ("corrupt", rng.choice(["truncated", "garbage", "empty", "cut1"]), eff if eff in FORMATS else "gz", content or b"x")
            else:
                arch = rng.choice([None, "dir", ("good", rng.choice(FORMATS), member, content)])
            if eff not in FORMATS and (arch in (None, "dir") or arch[0] == "corrupt"):
                continue
            decompress_case(ck, batch, scratch, name, rng.choice(d_faults), rng.choice(["read", "read", "raise"]), arch,
                            use_target=rng.random() < 0.15, small=small_chunks)
        if rng.random() < 0.3 and eff in FORMATS:
            roundtrip_case(ck, scratch, name, rng.choice([None, eff]), content, small=small_chunks)
    batch.flush()


def roundtrip_case(ck, scratch, name, fmt, content, small=False):
    """oracle only: write inside compress, read inside decompress with the real code end to end"""
    from typhon.files import compress, decompress
    case = {"op": "roundtrip", "name": name, "fmt": fmt, "content_hex": content.hex(), "small_chunks": small}
    root = tempfile.mkdtemp(dir=scratch)
    try:
        tmpdir, out = os.path.join(root, "tmp"), os.path.join(root, "out")
        os.makedirs(tmpdir)
        target = os.path.join(out, name)
        os.makedirs(os.path.dirname(target), exist_ok=True)
        eff = fmt if fmt is not None else ext_fmt(name)
        try:
            with inject(None, eff, small):
                with compress(target, fmt=fmt, tmpdir=tmpdir) as p:
                    with builtins.open(p, "wb") as f:
                        f.write(content)
                with builtins.open(target, "rb") as f:
                    stored = f.read()
                with decompress(target, tmpdir=tmpdir) as q:
                    with builtins.open(q, "rb") as f:
                        back = f.read()
        except Exception as e:      # noqa
            ck.violation("roundtrip", f"round trip of {name!r} raised {type(e).__name__}: {e}", case)
            return
        if back != content:
            ck.violation("roundtrip", f"round trip of {name!r}: {len(content)} bytes in, {len(back)} out", case)
        got = read_archive(stored)
        if got is None or got[0] != eff or got[2] != content:
            ck.violation("not-an-archive", f"{name!r}: the standard library does not read the stored file as {eff}", case)
        if listing(tmpdir) or os.path.exists(q):
            ck.violation("tmp-debris", f"round trip of {name!r} left {listing(tmpdir)[:3]}", case)
        ck.case(key=("rt", name, fmt, len(content), small), kind=f"roundtrip/{eff}", sample={"name": name, "fmt": fmt, "bytes": len(content)})
    finally:
        shutil.rmtree(root, ignore_errors=True)


ANCHORS = [("typhon/files/utils.py", "compress"), ("typhon/files/utils.py", "compress_as"), ("typhon/files/utils.py", "decompress"),
           ("typhon/files/utils.py", "get_compressor"), ("typhon/files/utils.py", "is_compression_format")]


def make_check():
    return vlib.Check(
        PROP, pkg="fsops", props="Proofs.Props.C12", driver="drv_c12", lemma_files=["Proofs/Lemmas/Names.lean"],
        model_files=["Model/FS.lean", "Model/Compress.lean"],
        trusted=["hand-written control-flow model Model/Compress.lean tied to typhon/files/utils.py by the correspondence run of this "
                 "check (driver drv_c12: same names, fmt=, fault step, block behaviour, archive; compared: outcome, class of the "
                 "target, temp namespace clean, bytes seen by the block, splitext/format/member names)",
                 "the codecs gzip, bz2, zipfile, lzma are a parameter of the model (contract dec(enc b) = b); the harness checks "
                 "every stored file with the standard library",
                 "tempfile (fresh names), os.unlink / shutil.rmtree succeed: modelled, not verified",
                 "member-name agreement memberC = memberD is proved for all names [dir/]base.ext (C12_member_names, "
                 "C12_roundtrip_names) and compared with ZipFile.namelist() on every zip case"],
        assumptions=["the caller's block writes temporary data only below the yielded path and does not delete it",
                     "cleanup steps (rmtree of the temporary directory, unlink of the copy) do not fail themselves",
                     "a partially written *target* after a fault inside compress_as is not debris in the property's sense"])


def main():
    ck = make_check()
    ck.rule = ("exhaustive grid: contents {0, 1, 37, 70000 bytes} x 4 formats x every fault step (mkTmpDir, openSrc, openTarget, "
               "ctor, copy / mkTmpFile, ctor, copy / none) x block behaviour (write, idle, write+raise, raise); corrupt, truncated, "
               "empty, wrong-format, missing and directory archives; names with several dots, spaces, unicode, leading dots; "
               "pass-through names; fmt= equal / different / unknown; explicit target=; small copy chunks; random scenarios. "
               "non-trivial = distinct scenario with a known compression format")
    ck.anchors(ANCHORS)
    ck.build()
    use_model = os.path.exists(os.path.join(ck.pkgdir, ".lake/build/bin/drv_c12"))
    scratch = tempfile.mkdtemp(prefix="verif_c12_")
    try:
        batch = Batch(ck, use_model)
        for name, c in vlib.load_corpus(PROP):
            run_case(ck, batch, scratch, c)
        explore(ck, batch, scratch, ck.budget(300, 6000), ck.tier == "thorough")
        ck.exhaustive = True
        ck.notes.append("the grid contents x formats x fault steps x block behaviours is enumerated completely on every run")
        if ck.broken() and not ck.violations:
            explore(ck, Batch(ck, False), scratch, 6000, True)
    finally:
        shutil.rmtree(scratch, ignore_errors=True)
    ck.finish()


def run_case(ck, batch, scratch, c):
    op = c.get("op")
    if op == "compress":
        old = c.get("old")
        old = old if old in (None, "dir") else bytes.fromhex(old)
        compress_case(ck, batch, scratch, c["name"], c.get("fmt"), c.get("fault"), c["body"], bytes.fromhex(c["content_hex"]), old,
                      small=c.get("small_chunks", False))
    elif op == "decompress":
        a = c.get("arch")
        if a not in (None, "dir"):
            a = (a[0], a[1], a[2], bytes.fromhex(a[3]))
        decompress_case(ck, batch, scratch, c["name"], c.get("fault"), c["body"], a, use_target=c.get("use_target", False),
                        small=c.get("small_chunks", False))
    elif op == "roundtrip":
        roundtrip_case(ck, scratch, c["name"], c.get("fmt"), bytes.fromhex(c["content_hex"]), small=c.get("small_chunks", False))
    elif op == "names":
        names_case(ck, batch, c["name"], c.get("fmt"))


def replay(path):
    obj = json.load(open(path))
    c = obj.get("case")
    if not c:
        print(json.dumps(obj, indent=1)[:3000])
        raise SystemExit(1)
    ck = make_check()
    scratch = tempfile.mkdtemp(prefix="verif_c12_")
    try:
        run_case(ck, Batch(ck, False), scratch, c)
    finally:
        shutil.rmtree(scratch, ignore_errors=True)
    for v in ck.violations:
        print("REPRODUCED:", v["what"])
    raise SystemExit(1 if ck.violations else 0)
