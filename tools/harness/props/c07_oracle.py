"""Independent oracle for C07 (no typhon code): textbook geodesy in high precision.

Run as a subprocess with `python3-vt` (mpmath, 40 digits): reads one JSON list of tasks on stdin,
writes one JSON list of answers (lists of decimal strings with 25 significant digits).
Imported in-process it can also run with numpy.longdouble (fallback when mpmath is missing).

Tasks (angles in degrees, lengths in metres):
  ["geodetic2cart", h, lat, lon, a, e]      -> x, y, z      (prime-vertical radius N = a/sqrt(1-e^2 sin^2))
  ["geocentric2cart", r, lat, lon]          -> x, y, z
  ["cart2geocentric", x, y, z]              -> r, lat, lon  (lon in (-180, 180])
  ["cart2geodetic", x, y, z, a, e]          -> h, lat, lon  (Heiskanen-Moritz iteration phi <- atan2(z + e^2 N sin phi, rho)
                                                             run to 1e-30, a different formulation from typhon's)
  ["r_geodetic", a, e, lat]                 -> |geodetic2cart(0, lat, 0)|
  ["r_geocentric", a, e, psi]               -> b / sqrt(1 - e^2 cos^2 psi)
  ["angle", lat1, lon1, lat2, lon2]         -> central angle in radians via atan2(|p1 x p2|, p1 . p2)
  ["chord", lat1, lon1, lat2, lon2, R]      -> |p1 - p2| R
  ["poslos2cart", r, lat, lon, za, aa]      -> x, y, z, dx, dy, dz  (local up/north/east basis)
"""
import json
import sys


class MP:
    def __init__(self):
        import mpmath
        mpmath.mp.dps = 40
        self.m = mpmath
        self.pi = mpmath.pi
        for n in ("sin", "cos", "sqrt", "asin", "atan2"):
            setattr(self, n, getattr(mpmath, n))

    def num(self, x):
        return self.m.mpf(x)            # a Python float converts exactly

    def out(self, x):
        return self.m.nstr(x, 25)


class LD:
    def __init__(self):
        import numpy as np
        self.np = np
        self.pi = np.longdouble("3.14159265358979323846264338327950288")
        self.sin, self.cos, self.sqrt, self.asin, self.atan2 = np.sin, np.cos, np.sqrt, np.arcsin, np.arctan2

    def num(self, x):
        return self.np.longdouble(x)

    def out(self, x):
        return self.np.format_float_scientific(x, precision=22, unique=False)


def solve(M, task):
    k = task[0]
    a_ = [M.num(v) for v in task[1:]]
    d = M.pi / 180
    if k == "geodetic2cart":
        h, lat, lon, a, e = a_
        s, c = M.sin(lat * d), M.cos(lat * d)
        N = a / M.sqrt(1 - e * e * s * s)
        return [(N + h) * c * M.cos(lon * d), (N + h) * c * M.sin(lon * d), (N * (1 - e * e) + h) * s]
    if k == "geocentric2cart":
        r, lat, lon = a_
        return [r * M.cos(lat * d) * M.cos(lon * d), r * M.cos(lat * d) * M.sin(lon * d), r * M.sin(lat * d)]
    if k == "cart2geocentric":
        x, y, z = a_
        r = M.sqrt(x * x + y * y + z * z)
        return [r, M.asin(z / r) / d, M.atan2(y, x) / d]
    if k == "cart2geodetic":
        x, y, z, a, e = a_
        rho = M.sqrt(x * x + y * y)
        phi = M.atan2(z, rho * (1 - e * e))
        for _ in range(400):
            N = a / M.sqrt(1 - e * e * M.sin(phi) ** 2)
            new = M.atan2(z + e * e * N * M.sin(phi), rho)
            done = abs(new - phi) < M.num(10) ** -30
            phi = new
            if done:
                break
        N = a / M.sqrt(1 - e * e * M.sin(phi) ** 2)
        # numerically stable height: projection on the normal direction
        h = rho * M.cos(phi) + z * M.sin(phi) - a * M.sqrt(1 - e * e * M.sin(phi) ** 2)
        return [h, phi / d, M.atan2(y, x) / d]
    if k == "r_geodetic":
        a, e, lat = a_
        s, c = M.sin(lat * d), M.cos(lat * d)
        N = a / M.sqrt(1 - e * e * s * s)
        return [M.sqrt((N * c) ** 2 + (N * (1 - e * e) * s) ** 2)]
    if k == "r_geocentric":
        a, e, psi = a_
        b = a * M.sqrt(1 - e * e)
        return [b / M.sqrt(1 - e * e * M.cos(psi * d) ** 2)]
    if k in ("angle", "chord"):
        lat1, lon1, lat2, lon2 = a_[:4]
        p = [M.cos(lat1 * d) * M.cos(lon1 * d), M.cos(lat1 * d) * M.sin(lon1 * d), M.sin(lat1 * d)]
        q = [M.cos(lat2 * d) * M.cos(lon2 * d), M.cos(lat2 * d) * M.sin(lon2 * d), M.sin(lat2 * d)]
        if k == "chord":
            return [a_[4] * M.sqrt(sum((u - v) ** 2 for u, v in zip(p, q)))]
        cr = [p[1] * q[2] - p[2] * q[1], p[2] * q[0] - p[0] * q[2], p[0] * q[1] - p[1] * q[0]]
        return [M.atan2(M.sqrt(sum(u * u for u in cr)), sum(u * v for u, v in zip(p, q)))]
    if k == "poslos2cart":
        r, lat, lon, za, aa = a_
        sl, cl, so, co = M.sin(lat * d), M.cos(lat * d), M.sin(lon * d), M.cos(lon * d)
        up = [cl * co, cl * so, sl]
        north = [-sl * co, -sl * so, cl]
        east = [-so, co, 0]
        cz, sz, ca, sa = M.cos(za * d), M.sin(za * d), M.cos(aa * d), M.sin(aa * d)
        dvec = [cz * u + sz * ca * n + sz * sa * e_ for u, n, e_ in zip(up, north, east)]
        return [r * u for u in up] + dvec
    raise ValueError(k)


def run(tasks, M=None):
    M = M or LD()
    return [[M.out(v) for v in solve(M, t)] for t in tasks]


if __name__ == "__main__":
    json.dump(run(json.load(sys.stdin), MP()), sys.stdout)
