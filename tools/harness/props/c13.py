"""C13 — compact collocation data stay consistent under expand, collapse and concat.

Decided by: theorems in lean/compact/Proofs/Props/C13.lean about the hand-written model
lean/compact/Model/Compact.lean + correspondence of the model's executable definitions
(driver drv_c13) with typhon.collocations.collapse / expand / concat_collocations and the
compaction inside Collocator.collocate on the same inputs + an independent oracle (explicit
Python loops over the pair list, Fraction / longdouble arithmetic) on the real code.

A *case* is JSON:  {"op": "ds",  "list": [DS, …], "alias": [ids] | None, "collapser": bool}
                   {"op": "inject", "nP":…, "nS":…, "pairs": [[p…],[s…]]}
                   {"op": "collocate", "P": points, "S": points, "dist_km":…, "interval_s":…}
with DS = {"groups": [g0, g1], "pairs": [[…],[…]], "vars": {g: {name: {"dims": […], "data": nested}}}}
(data with None for NaN; dims are the full xarray dimension names).
"""
import json
import math
import os
import warnings
from fractions import Fraction

import vlib

PROP = "C13"
PKG = dict(pkg="compact", props="Proofs.Props.C13", driver="drv_c13")
LEMMAS = ["Proofs/Lemmas/Compact.lean", "Proofs/Lemmas/Collapse.lean", "Proofs/Lemmas/Concat.lean"]
SKIP_LOCAL = ("time", "lat", "lon")


# ------------------------------------------------------------------ small helpers
def _np():
    import numpy as np
    return np


def exc_kind(e):
    if isinstance(e, IndexError):
        return "index-error"
    if isinstance(e, ValueError):
        return "value-error"
    return "error:" + type(e).__name__


def to_nested(a):
    """numpy float array -> nested lists with None for NaN and ints for whole numbers"""
    np = _np()
    a = np.asarray(a, dtype=float)
    if a.ndim == 0:
        v = float(a)
        return None if math.isnan(v) else (int(v) if v == int(v) else v)
    return [to_nested(x) for x in a]


def from_nested(d):
    np = _np()

    def conv(x):
        if isinstance(x, list):
            return [conv(y) for y in x]
        return np.nan if x is None else float(x)
    return np.array(conv(d), dtype=float)


def tok(v):
    return "n" if v is None else str(int(v))


# ------------------------------------------------------------------ dataset construction
def build_ds(d):
    """the xarray dataset in exactly the format Collocator._create_return produces"""
    import numpy as np
    import xarray as xr
    g0, g1 = d["groups"]
    pairs = np.array(d["pairs"], dtype=int).reshape(2, -1)
    n = pairs.shape[1]
    dv = {}
    for g in (g0, g1):
        vs = d["vars"][g]
        npts = d["n"][g]
        dv[f"{g}/time"] = ((f"{g}/collocation",), np.datetime64("2020-01-01T00:00:00") +
                           (np.arange(npts) * 7 + d.get("t0", 0)).astype("timedelta64[s]"))
        dv[f"{g}/lat"] = ((f"{g}/collocation",), (np.arange(npts) % 90).astype(float))
        dv[f"{g}/lon"] = ((f"{g}/collocation",), (np.arange(npts) % 170).astype(float) - 3.0)
        for name, v in vs.items():
            arr = from_nested(v["data"]) if v["data"] != [] else np.zeros([0] * len(v["dims"]))
            dv[f"{g}/{name}"] = (tuple(v["dims"]), arr)
    dv["Collocations/pairs"] = (("Collocations/group", "Collocations/collocation"), pairs)
    dv["Collocations/interval"] = (("Collocations/collocation",), np.arange(n).astype("timedelta64[s]"))
    dv["Collocations/distance"] = (("Collocations/collocation",), np.arange(n) * 0.5)
    ds = xr.Dataset(dv, coords={"Collocations/group": [g0, g1]},
                    attrs={"start_time": "2020-01-01 00:00:00", "end_time": "2020-01-01 00:00:00"})
    return ds


def data_vars(ds, g):
    """names (local) of the variables of group g that live on the collocation dimension and
    take part in collapse (not time/lat/lon/__*), in dataset order"""
    out = []
    for name in ds.variables:
        if not name.startswith(g + "/"):
            continue
        local = name.split("/", 1)[1]
        if f"{g}/collocation" not in ds[name].dims or local in SKIP_LOCAL or local.startswith("__"):
            continue
        out.append(local)
    return out


def flat_rows(ds, g, dim=None):
    """(rows, layout): per stored point the values of all data variables, collocation
    dimension first, the rest flattened in C order; layout = [(local name, width)]"""
    import numpy as np
    dim = dim or f"{g}/collocation"
    cols, layout = [], []
    npts = ds.sizes[dim]
    for local in data_vars_dim(ds, g, dim):
        v = ds[f"{g}/{local}"]
        a = np.asarray(v.transpose(dim, ...).values, dtype=float)
        a = a.reshape(npts, int(np.prod(a.shape[1:], dtype=int)))
        cols.append(a)
        layout.append((local, a.shape[1]))
    rows = np.concatenate(cols, axis=1) if cols else np.zeros((npts, 0))
    return rows, layout


def data_vars_dim(ds, g, dim):
    out = []
    for name in ds.variables:
        if not name.startswith(g + "/"):
            continue
        local = name.split("/", 1)[1]
        if dim not in ds[name].dims or local in SKIP_LOCAL or local.startswith("__"):
            continue
        out.append(local)
    return out


def ds_tokens(pairs, P, S):
    """protocol tokens of a dataset (pairs 2 x n int array, P/S float row matrices)"""
    np = _np()
    n = pairs.shape[1]
    t = [str(P.shape[0]), str(S.shape[0]), str(P.shape[1]), str(S.shape[1]), str(n)]
    t += [str(int(x)) for x in pairs.T.reshape(-1)]
    for M in (P, S):
        t += ["n" if np.isnan(x) else str(int(x)) for x in M.reshape(-1)]
    return " ".join(t)


def parse_row(s):
    if s == ".":
        return []
    return [None if x == "n" else int(x) for x in s.split(",")]


def rows_equal(model_row, real_row):
    """model row (ints / None) vs real float row"""
    if len(model_row) != len(real_row):
        return False
    for a, b in zip(model_row, real_row):
        if a is None:
            if not math.isnan(b):
                return False
        elif math.isnan(b) or float(a) != float(b):
            return False
    return True


def nan_equal(a, b):
    np = _np()
    a = np.asarray(a)
    b = np.asarray(b)
    if a.shape != b.shape:
        return False
    if a.dtype.kind in "fc" or b.dtype.kind in "fc":
        return bool(np.array_equal(a.astype(float), b.astype(float), equal_nan=True))
    return bool(np.array_equal(a, b))


def is_valid(pairs, nP, nS):
    """oracle for C13's first sentence, explicit loops"""
    usedP, usedS = [False] * nP, [False] * nS
    for k in range(pairs.shape[1]):
        p, s = int(pairs[0, k]), int(pairs[1, k])
        if not (0 <= p < nP and 0 <= s < nS):
            return False
        usedP[p] = usedS[s] = True
    return all(usedP) and all(usedS)


# ------------------------------------------------------------------ the checks on one dataset
class RowsSpy:
    """observe the return value of the private row-assignment helper(s) of
    typhon.collocations.common (every module-level function whose name starts with `_rows_for`).
    Purely diagnostic: when no helper can be wrapped (renamed, inlined, signature changed) the
    observation is skipped; a failure of the hook never reaches the code under test."""

    def __init__(self):
        self.seen = []
        self.patched = []
        try:
            import typhon.collocations.common as cc
            self.cc = cc
        except Exception:  # noqa
            self.cc = None

    def __enter__(self):
        if self.cc is None:
            return self
        import types
        for name, fn in list(vars(self.cc).items()):
            if name.startswith("_rows_for") and isinstance(fn, types.FunctionType):
                def wrapped(*a, _fn=fn, **k):
                    r = _fn(*a, **k)
                    try:
                        self.seen.append([int(x) for x in r])
                    except Exception:  # noqa
                        pass
                    return r
                try:
                    setattr(self.cc, name, wrapped)
                    self.patched.append((name, fn))
                except Exception:  # noqa
                    pass
        return self

    def __exit__(self, *a):
        for name, fn in self.patched:
            setattr(self.cc, name, fn)


def check_collapse_vars(ck, ds, out, gref, goth, fns, what_case):
    """which variables a collapsed dataset must (not) contain, and on which dimensions:
    reference group: every variable kept (time/lat/lon at the root), collocation dimension first and
    renamed `collocation`; other group: `<var>_<collapser>` for every data variable with dims
    (`collocation`, remaining dims in source order), its time/lat/lon and `__*` variables dropped;
    variables of either group that do not live on the collocation dimension copied unchanged."""
    bad = []
    expected = set()
    for name in ds.variables:
        if "/" not in name:
            continue
        g, local = name.split("/", 1)
        if g not in (gref, goth):
            continue
        v = ds[name]
        cdim = f"{g}/collocation"
        if cdim not in v.dims:
            expected.add(name)
            if name not in out.variables or tuple(out[name].dims) != tuple(v.dims) or not nan_equal(out[name].values, v.values):
                bad.append(f"{name} (not on the collocation dimension) is not copied unchanged")
            continue
        rest = tuple(d for d in v.dims if d != cdim)
        if g == gref:
            oname = local if local in SKIP_LOCAL else name
            expected.add(oname)
            if oname not in out.variables:
                bad.append(f"reference variable {name} is missing (expected as {oname})")
            elif tuple(out[oname].dims) != ("collocation",) + rest:
                bad.append(f"{oname} has dims {tuple(out[oname].dims)}, expected {('collocation',) + rest}")
            elif not nan_equal(out[oname].values, v.transpose(cdim, ...).values):
                bad.append(f"reference variable {oname} changed")
        elif local in SKIP_LOCAL or local.startswith("__"):
            present = [o for o in out.variables if o == name or o.startswith(name + "_")]
            if present:
                bad.append(f"{present} must not appear (time/lat/lon/__* of the collapsed group are dropped)")
        else:
            for fn in fns:
                oname = f"{name}_{fn}"
                expected.add(oname)
                if oname not in out.variables:
                    bad.append(f"{oname} is missing")
                elif tuple(out[oname].dims) != ("collocation",) + rest:
                    bad.append(f"{oname} has dims {tuple(out[oname].dims)}, expected {('collocation',) + rest}")
            if name in out.variables:
                bad.append(f"{name} of the collapsed group appears uncollapsed")
    extra = [o for o in out.variables if o not in expected and o not in out.dims]
    if extra:
        bad.append(f"unexpected variables {extra[:6]} (collapsers in effect: {list(fns)})")
    for b in bad[:3]:
        ck.violation("collapse-vars", f"collapse(reference={gref}): {b}", what_case)


DEFAULT_FNS = ("mean", "std", "number")
_OUTNAMES = {}


def custom_fn(fid, captured=None):
    """the user collapser functions the harness passes (fid = stable id used in cases / by the oracle)"""
    import numpy as np
    if fid == "nansum":
        f = lambda m, a: np.nansum(m, axis=a)                                   # noqa
    elif fid == "first":
        f = lambda m, a: m[0]                                                   # noqa
    elif fid == "nanmax0":
        f = lambda m, a: np.max(np.where(np.isnan(m), -np.inf, m), axis=a)      # noqa
    elif fid == "count2":
        f = lambda m, a: 2 * np.count_nonzero(~np.isnan(m), axis=a)             # noqa
    else:
        raise vlib.InfraError(f"unknown collapser id {fid}")
    if captured is None:
        return f

    def cap(m, a, _f=f, _c=captured):
        _c.setdefault("m", []).append(np.array(m, copy=True))
        return _f(m, a)
    return cap


def stat_mismatch(fid, g, vals):
    """explicit-loop oracle for one statistic: g = value from the real code, vals = the partner values
    (floats, NaN allowed) of one reference point and one flattened extra index.  None if fine."""
    import numpy as np
    g = float(g)
    xs = [int(v) for v in vals if not math.isnan(v)]
    cnt, sm = len(xs), sum(xs)
    if fid == "number":
        return None if g == cnt else ("number", g, cnt)
    if fid == "count2":
        return None if g == 2 * cnt else ("custom 2*count", g, 2 * cnt)
    if fid == "nansum":
        return None if g == float(sm) else ("custom nansum", g, sm)
    if fid == "nanmax0":
        want = float(max(xs)) if xs else float("-inf")
        return None if g == want else ("custom max", g, want)
    if fid == "first":
        # row 0 of the matrix handed to a collapser holds one partner (which one is internal)
        ok = any((math.isnan(v) and math.isnan(g)) or v == g for v in vals)
        return None if ok else ("custom row 0", g, f"one of {vals[:8]}")
    if cnt == 0:
        return None if math.isnan(g) else (f"{fid} of an empty bin", g, "nan")
    if fid == "mean":
        if math.isnan(g) or round(g * cnt) != sm or abs(g - sm / cnt) > 1e-12 * max(1.0, abs(sm / cnt)):
            return ("mean", g, f"{sm}/{cnt}")
        return None
    if fid == "std":
        ld = np.longdouble
        mu = ld(sm) / ld(cnt)
        acc = ld(0)
        for x in xs:
            acc += (ld(x) - mu) * (ld(x) - mu)
        sd = float(np.sqrt(acc / ld(cnt)))
        return None if (not math.isnan(g) and abs(g - sd) <= 1e-12 * max(1.0, sd)) else ("std", g, sd)
    raise vlib.InfraError(f"unknown statistic {fid}")


def collapser_spec(custom):
    """custom: False/None | True | {output name: function id}"""
    if isinstance(custom, dict):
        return dict(custom)
    return {"sum": "nansum", "first": "first"} if custom else {}


def check_collapse(ck, ds, case, valid, use_model, tag, custom, refs=(0, 1)):
    """collapse with either group as reference: oracle + model.  `custom` selects the user collapsers
    (see collapser_spec); a name among mean/std/number overrides the default statistic."""
    import numpy as np
    from typhon.collocations import collapse
    groups = ds["Collocations/group"].values.tolist()
    pairs = np.asarray(ds["Collocations/pairs"].values)
    n = pairs.shape[1]
    spec = collapser_spec(custom)
    out_names = list(DEFAULT_FNS) + [k for k in spec if k not in DEFAULT_FNS]     # python dict-merge order
    effective = {name: spec.get(name, name) for name in out_names}                # output name -> function id
    lines, expect = [], []
    for ref in refs:
        gref, goth = groups[ref], groups[1 - ref]
        refidx, othidx = pairs[ref], pairs[1 - ref]
        R, _ = flat_rows(ds, gref)
        O, layout = flat_rows(ds, goth)
        captured = {}
        coll = None
        if spec:
            coll = {}
            for k, (name, fid) in enumerate(spec.items()):
                coll[name] = custom_fn(fid, captured if k == 0 else None)
        coll_before = dict(coll) if coll is not None else None
        kw = {}
        if ref == 1 or n % 2 == 0:          # reference=None (default) or the explicit name; deterministic for replays
            kw["reference"] = gref
        if coll is not None:
            kw["collapser"] = coll
        err = None
        arg = ds.copy(deep=True)
        with RowsSpy() as spy, warnings.catch_warnings():
            warnings.simplefilter("ignore")
            try:
                out = collapse(arg, **kw)
            except Exception as e:  # noqa
                err = exc_kind(e)
        what_case = dict(case, check=f"{tag}collapse ref={ref}")
        if valid and err is not None:
            ck.violation("collapse-exception", f"collapse(reference={gref}) raised {err} on a valid compact dataset", what_case)
        # collapse is a function of its arguments: neither the dataset nor the collapser dict may change
        if err is None and valid:
            if not arg.identical(ds):
                ck.violation("collapse-mutates-input", f"collapse(reference={gref}) modified the dataset passed in", what_case)
            if coll is not None and (list(coll) != list(coll_before) or any(coll[k] is not coll_before[k] for k in coll)):
                ck.violation("collapse-mutates-input", f"collapse(reference={gref}) modified the collapser dict passed in "
                             f"(keys now {list(coll)})", what_case)
        real_stats = None
        if err is None:
            nref = ds.sizes[f"{gref}/collocation"]
            # real outputs, [variable] -> {output name: (U, width) matrix}
            real_stats = {}
            shape_ok = True
            for local, wdt in layout:
                got = {}
                for fn in out_names:
                    name = f"{goth}/{local}_{fn}"
                    if name not in out.variables:
                        shape_ok = False
                        if valid:
                            ck.violation("collapse-shape", f"collapse(reference={gref}) has no variable {name}", what_case)
                        continue
                    v = out[name]
                    if "collocation" not in v.dims:
                        shape_ok = False
                        continue
                    a = np.asarray(v.transpose("collocation", ...).values, dtype=float)
                    got[fn] = a.reshape(a.shape[0], int(np.prod(a.shape[1:], dtype=int)))
                real_stats[local] = got
            # --- oracle: explicit loops over the pair list, element by element (labels decide the position)
            if valid and shape_ok:
                partners = [[] for _ in range(nref)]
                for k in range(n):
                    partners[int(refidx[k])].append(int(othidx[k]))
                col0 = 0
                for local, wdt in layout:
                    got = real_stats[local]
                    if any(got[fn].shape != (nref, wdt) for fn in got):
                        ck.violation("collapse-shape", f"collapse(reference={gref}): {goth}/{local}_* has shape "
                                     f"{[got[fn].shape for fn in got]}, expected one row per stored reference point {(nref, wdt)}", what_case)
                        col0 += wdt
                        continue
                    bad = None
                    for j in range(nref):
                        for c in range(wdt):
                            vals = [O[s, col0 + c] for s in partners[j]]
                            for name in out_names:
                                mm = stat_mismatch(effective[name], got[name][j, c], vals)
                                if mm:
                                    bad = (j, c, f"_{name} ({mm[0]})", mm[1], mm[2])
                                    break
                            if bad:
                                break
                        if bad:
                            break
                    if bad:
                        j, c, w, g_, e_ = bad
                        ck.violation("collapse-stat", f"collapse(reference={gref}, collapser={spec or None}): {goth}/{local}{w} of reference "
                                     f"point {j} (flattened extra index {c}) = {g_}, expected {e_} over partners {partners[j][:8]}", what_case)
                    col0 += wdt
        if valid and err is None:
            check_collapse_vars(ck, ds, out, gref, goth, out_names, what_case)
        if not use_model:
            continue
        if err is None and layout:
            # statistics variables of the first data variable, in dataset order, vs the model's dict merge
            pre = f"{goth}/{layout[0][0]}_"
            real_order = [o[len(pre):] for o in out.variables if o.startswith(pre)]
            key = tuple(spec)
            if key not in _OUTNAMES:
                _OUTNAMES[key] = ck.driver(["outnames " + " ".join(spec)])[0].split()
            model_order = _OUTNAMES[key]
            if real_order != model_order:
                ck.disagree(f"collapse ref={ref}: statistics variables {real_order} vs model {model_order} for collapser {spec}", what_case)
        Pm, Sm = flat_rows(ds, groups[0])[0], flat_rows(ds, groups[1])[0]
        lines.append(f"collapse {ref} " + ds_tokens(pairs, Pm, Sm))
        expect.append(("collapse", ref, err, real_stats, layout, spy.seen, captured, (R, effective)))
        u_est = len(set(int(x) for x in refidx))
        if not spy.seen and err is None:
            ck.count("diag/row-helper-not-observed")
        if custom and err is None and captured.get("m") and n and captured["m"][0].shape[0] * u_est <= 4000:
            lines.append(f"matrix {ref} " + ds_tokens(pairs, Pm, Sm))
            expect.append(("matrix", ref, captured["m"], layout, None, None, None, None))
    if not use_model or not lines:
        return
    outl = ck.driver(lines)
    for line, ex in zip(outl, expect):
        kind, ref = ex[0], ex[1]
        what_case = dict(case, check=f"{tag}{kind} ref={ref}")
        if kind == "collapse":
            _, _, err, real_stats, layout, seen, captured, (R, effective) = ex
            std_ = {k for k in DEFAULT_FNS if effective.get(k) == k}       # statistics not overridden by the user
            if err is not None or not line.startswith("ok"):
                if (err or "ok") != line.split(" | ")[0]:
                    ck.disagree(f"collapse ref={ref}: model {line[:40]} vs code {err or 'ok'}", what_case)
                continue
            parts = line.split(" | ")
            U, nrows = (int(x) for x in parts[1].split())
            mrows = [] if parts[2] == "-" else [int(x) for x in parts[2].split()]
            # internal values: diagnostics only (the verdict rests on count / sum / std / rows below)
            if seen and seen[0] != mrows:
                ck.count("diag/row-assignment-differs-from-model")
                if not any(nt.startswith("diag: row assignment") for nt in ck.notes):
                    ck.notes.append(f"diag: row assignment differs from the model, e.g. model {mrows[:12]} vs code {seen[0][:12]}")
            if captured.get("m") and captured["m"][0].shape[:2] != (nrows, U):
                ck.count("diag/bin-matrix-shape-differs-from-model")
                if not any(nt.startswith("diag: bin matrix shape") for nt in ck.notes):
                    ck.notes.append(f"diag: bin matrix shape model {(nrows, U)} vs code {captured['m'][0].shape[:2]}")
            stats = [tuple(int(x) for x in t.split(":")) for t in parts[3].split()] if len(parts) > 3 and parts[3] else []
            mv = parts[4].split() if len(parts) > 4 and parts[4] else []
            width = sum(w for _, w in layout)
            if len(stats) != U * width:
                ck.disagree(f"collapse ref={ref}: model has {len(stats)} statistics, expected {U}x{width}", what_case)
                continue
            mref = [] if parts[5] == "-" else [parse_row(x) for x in parts[5].split()]
            if len(mref) != R.shape[0] or any(not rows_equal(a, list(b)) for a, b in zip(mref, R)):
                ck.disagree(f"collapse ref={ref}: reference rows differ", what_case)
            col0 = 0
            bad = None
            for local, wdt in layout:
                got = real_stats.get(local, {})
                if any(fn not in got or got[fn].shape != (U, wdt) for fn in DEFAULT_FNS):
                    bad = f"{local}: shapes {[(fn, got[fn].shape) for fn in got]} vs model {(U, wdt)}"
                    break
                for j in range(U):
                    for c in range(wdt):
                        cnt, sm, sq = stats[j * width + col0 + c]
                        mean_s, var_s = mv[j * width + col0 + c].split(";")
                        gm, gs, gn = got["mean"][j, c], got["std"][j, c], got["number"][j, c]
                        if "number" in std_ and int(gn) != cnt:
                            bad = f"{local}[{j},{c}] number {gn} vs model {cnt}"
                        elif cnt == 0:
                            if ("mean" in std_ and not math.isnan(gm)) or ("std" in std_ and not math.isnan(gs)) \
                                    or mean_s != "n" or var_s != "n":
                                bad = f"{local}[{j},{c}] empty bin: code mean {gm} std {gs}, model {mean_s} {var_s}"
                        else:
                            mq, vq = Fraction(mean_s), Fraction(var_s)
                            if "mean" in std_ and (math.isnan(gm) or round(gm * cnt) != sm or
                                                   gm != float(mq) and abs(gm - float(mq)) > 1e-12 * max(1, abs(float(mq)))):
                                bad = f"{local}[{j},{c}] mean*count {gm * cnt} vs model sum {sm}"
                            elif "std" in std_:
                                ld = _np().longdouble
                                sd = float(_np().sqrt(ld(vq.numerator) / ld(vq.denominator)))
                                if math.isnan(gs) or abs(gs - sd) > 1e-12 * max(1.0, sd):
                                    bad = f"{local}[{j},{c}] std {gs} vs model sqrt({var_s}) = {sd}"
                        for oname, fid in effective.items():
                            if bad is None and fid == "nansum" and float(got[oname][j, c]) != float(sm):
                                bad = f"{local}[{j},{c}] custom nansum ({oname}) {got[oname][j, c]} vs model {sm}"
                        if bad:
                            break
                    if bad:
                        break
                if bad:
                    break
                col0 += wdt
            if bad:
                ck.disagree(f"collapse ref={ref}: {bad}", what_case)
        else:
            _, _, mats, layout = ex[:4]
            # the bin matrix is an internal value: its identity with the model is a diagnostic, the
            # verdict rests on the statistics (an extra all-NaN row, another slot numbering are harmless)
            if not line.startswith("ok"):
                ck.count("diag/bin-matrix-differs-from-model")
                continue
            parts = line.split(" | ")
            nrows, U = (int(x) for x in parts[1].split())
            cells = parts[2].split() if len(parts) > 2 else []
            col0 = 0
            bad = None
            for (local, wdt), m in zip(layout, mats):
                m2 = m.reshape(m.shape[0], m.shape[1], -1)
                if m2.shape != (nrows, U, wdt) or len(cells) != nrows * U:
                    bad = f"shape code {m2.shape} vs model {(nrows, U, wdt)}"
                    break
                for r in range(nrows):
                    for j in range(U):
                        cell = cells[r * U + j]
                        real = m2[r, j]
                        if cell == "-":
                            if not all(math.isnan(x) for x in real):
                                bad = f"slot ({r},{j}) of {local}: model unfilled, code {real.tolist()}"
                        elif not rows_equal(parse_row(cell)[col0:col0 + wdt], list(real)):
                            bad = f"slot ({r},{j}) of {local}: model {cell} vs code {real.tolist()}"
                        if bad:
                            break
                    if bad:
                        break
                if bad:
                    break
                col0 += wdt
            if bad:
                ck.count("diag/bin-matrix-differs-from-model")
                if not any(nt.startswith("diag: bin matrix ref") for nt in ck.notes):
                    ck.notes.append(f"diag: bin matrix ref={ref}: {bad}")
            else:
                ck.count("diag/bin-matrix-identical-to-model")


def real_expand_rows(ds, e, groups):
    """per pair rows of the expanded dataset: (Prows, Srows) float matrices"""
    P, _ = flat_rows(e, groups[0], dim="collocation")
    S, _ = flat_rows(e, groups[1], dim="collocation")
    return P, S


def check_expand(ck, ds, case, valid, use_model, tag):
    import numpy as np
    from typhon.collocations import expand
    groups = ds["Collocations/group"].values.tolist()
    pairs = np.asarray(ds["Collocations/pairs"].values)
    n = pairs.shape[1]
    what_case = dict(case, check=f"{tag}expand")
    err, e = None, None
    arg = ds.copy(deep=True)
    try:
        e = expand(arg)
    except Exception as ex:  # noqa
        err = exc_kind(ex)
    if valid and err:
        ck.violation("expand-exception", f"expand raised {err} on a valid compact dataset", what_case)
    if valid and err is None and not arg.identical(ds):
        ck.violation("expand-mutates-input", "expand modified the dataset passed in", what_case)
    if err is None and valid:
        # oracle: explicit loop over the pairs, every variable on a collocation dimension
        if e.sizes.get("collocation") != n:
            ck.violation("expand-rows", f"expand returned {e.sizes.get('collocation')} rows for {n} pairs", what_case)
        else:
            for i, g in enumerate(groups):
                for name in ds.variables:
                    if not name.startswith(g + "/") or f"{g}/collocation" not in ds[name].dims:
                        continue
                    if name not in e.variables or "collocation" not in e[name].dims:
                        ck.violation("expand-rows", f"expand lost variable {name}", what_case)
                        continue
                    src = ds[name].transpose(f"{g}/collocation", ...).values
                    dst = e[name].transpose("collocation", ...).values
                    for k in range(n):
                        if not nan_equal(dst[k], src[int(pairs[i, k])]):
                            ck.violation("expand-rows", f"expand row {k} of {name} is not the value of point {int(pairs[i, k])} "
                                         f"(pair {[int(pairs[0, k]), int(pairs[1, k])]})", what_case)
                            break
    if err is None and valid:
        for name in ds.variables:
            g = name.split("/", 1)[0]
            if g in groups and f"{g}/collocation" not in ds[name].dims:
                if name not in e.variables or tuple(e[name].dims) != tuple(ds[name].dims) or not nan_equal(e[name].values, ds[name].values):
                    ck.violation("expand-vars", f"expand changed or lost {name} (not on the collocation dimension)", what_case)
    if use_model:
        P, S = flat_rows(ds, groups[0])[0], flat_rows(ds, groups[1])[0]
        line = ck.driver(["expand " + ds_tokens(pairs, P, S)])[0]
        if err is not None or not line.startswith("ok"):
            if (err or "ok") != line.split(" | ")[0]:
                ck.disagree(f"expand: model {line[:40]} vs code {err or 'ok'}", what_case)
        else:
            body = line.split(" | ")[1]
            mrows = [] if body == "-" else [tuple(parse_row(x) for x in t.split(";")) for t in body.split()]
            rP, rS = real_expand_rows(ds, e, groups)
            if len(mrows) != rP.shape[0]:
                ck.disagree(f"expand: model {len(mrows)} rows vs code {rP.shape[0]}", what_case)
            else:
                for k, (a, b) in enumerate(mrows):
                    if not rows_equal(a, list(rP[k])) or not rows_equal(b, list(rS[k])):
                        ck.disagree(f"expand row {k}: model {a};{b} vs code {rP[k].tolist()};{rS[k].tolist()}", what_case)
                        break
    return e


def check_valid(ck, ds, case, use_model, tag, produced_by):
    """C13 first sentence on a dataset produced by typhon (collocate / concat)"""
    import numpy as np
    groups = ds["Collocations/group"].values.tolist()
    pairs = np.asarray(ds["Collocations/pairs"].values)
    nP, nS = ds.sizes[f"{groups[0]}/collocation"], ds.sizes[f"{groups[1]}/collocation"]
    ok = is_valid(pairs, nP, nS)
    if not ok:
        ck.violation(f"{produced_by}-invalid", f"{produced_by} result: Collocations/pairs {pairs.tolist()[:2]} not valid for "
                     f"{nP} primary / {nS} secondary stored points (index out of range or unused stored point)",
                     dict(case, check=f"{tag}valid"))
    if use_model:
        P, S = flat_rows(ds, groups[0])[0], flat_rows(ds, groups[1])[0]
        line = ck.driver(["valid " + ds_tokens(pairs, P, S)])[0]
        if line != str(ok).lower():
            ck.disagree(f"valid: model {line} vs oracle {ok}", dict(case, check=f"{tag}valid"))
    return ok


def check_dataset(ck, ds, case, valid, use_model, tag="", custom=False):
    check_collapse(ck, ds, case, valid, use_model, tag, custom)
    return check_expand(ck, ds, case, valid, use_model, tag)


def check_concat(ck, dss, case, valid, use_model, alias=None):
    """concat_collocations on deep copies (or with aliasing positions when alias is given)"""
    import numpy as np
    import xarray as xr
    from typhon.collocations import expand
    from typhon.collocations.collocator import concat_collocations
    groups = dss[0]["Collocations/group"].values.tolist()
    what_case = dict(case, check="concat")
    if alias is None:
        args = [d.copy(deep=True) for d in dss]
        ids = list(range(len(dss)))
    else:
        objs = [d.copy(deep=True) for d in dss]
        args = [objs[i] for i in alias]
        ids = list(alias)
    err, cc = None, None
    with warnings.catch_warnings():
        warnings.simplefilter("ignore")
        try:
            cc = concat_collocations(args)
        except Exception as e:  # noqa
            err = exc_kind(e)
    if err:
        if valid and alias is None:
            ck.violation("concat-exception", f"concat_collocations raised {err} on valid compact datasets", what_case)
        return None
    if valid and alias is None:
        # oracle: expand(concat) is the concatenation of the expands, variable by variable
        try:
            ec = expand(cc.copy(deep=True))
            parts = [expand(d.copy(deep=True)) for d in dss]
            ntot = sum(p.sizes["collocation"] for p in parts)
            if ec.sizes.get("collocation") != ntot:
                ck.violation("concat-expand", f"expand(concat) has {ec.sizes.get('collocation')} rows, the parts have {ntot}", what_case)
            else:
                for name in parts[0].variables:
                    if "collocation" not in parts[0][name].dims or name == "collocation":
                        continue
                    want = np.concatenate([p[name].transpose("collocation", ...).values for p in parts], axis=0)
                    if name not in ec.variables or not nan_equal(ec[name].transpose("collocation", ...).values, want):
                        bad = next((k for k in range(ntot) if name in ec.variables and
                                    not nan_equal(ec[name].transpose("collocation", ...).values[k], want[k])), None)
                        ck.violation("concat-expand", f"expand(concat)[{name}] differs from the concatenated expands at row {bad}", what_case)
                        break
        except Exception as e:  # noqa
            ck.violation("concat-expand", f"expand(concat) raised {type(e).__name__}: {e}", what_case)
        check_valid(ck, cc, case, use_model, "concat/", "concat")
    if use_model:
        toks, flips = [], []
        for d in dss:
            pr = np.asarray(d["Collocations/pairs"].values)
            own = d["Collocations/group"].values.tolist()       # a member may have the opposite group order
            flips.append(0 if own == groups else 1)
            toks.append(ds_tokens(pr, flat_rows(d, own[0])[0], flat_rows(d, own[1])[0]))
        if any(flips):
            line = f"concatmixed {len(dss)} " + " ".join(toks) + " " + " ".join(str(f) for f in flips)
        elif alias is None:
            line = f"concat {len(dss)} " + " ".join(toks)
        else:
            line = f"concatalias {len(dss)} " + " ".join(toks) + f" {len(ids)} " + " ".join(str(i) for i in ids)
        out = ck.driver([line])[0]
        if not out.startswith("ok"):
            ck.disagree(f"concat: model {out[:40]}", what_case)
        else:
            parts = out.split(" | ")
            mp = [] if parts[2] == "-" else [int(x) for x in parts[2].split()]
            rp = np.asarray(cc["Collocations/pairs"].values)
            if mp != [int(x) for x in rp.T.reshape(-1)]:
                ck.disagree(f"concat pairs: model {mp[:16]} vs code {rp.T.reshape(-1).tolist()[:16]}", what_case)
            for gi, g in enumerate(groups):
                R = flat_rows(cc, g)[0]
                mr = [] if parts[3 + gi] == "-" else [parse_row(x) for x in parts[3 + gi].split()]
                if len(mr) != R.shape[0] or any(not rows_equal(a, list(b)) for a, b in zip(mr, R)):
                    ck.disagree(f"concat rows of {g}: model {len(mr)} rows vs code {R.shape[0]} rows (or values differ)", what_case)
    return cc


# ------------------------------------------------------------------ generators
def gen_pairs(rng, style, size):
    """a valid pair list: (pairs [[p…],[s…]], nP, nS)"""
    if style == "single":
        return [[0], [0]], 1, 1
    if style == "diag":
        n = size
        perm = list(range(n))
        rng.shuffle(perm)
        return [list(range(n)), perm], n, n
    if style in ("one2many", "many2one"):
        # each point of side B belongs to exactly one point of side A
        nA = max(1, rng.randint(1, max(1, size // rng.choice([1, 2, 3, 8]))))
        nB = max(nA, size)
        owner = list(range(nA)) + [rng.randrange(nA) for _ in range(nB - nA)]
        rng.shuffle(owner)
        a, b = owner, list(range(nB))
        return ([a, b], nA, nB) if style == "one2many" else ([b, a], nB, nA)
    if style == "skew":
        big = max(1, size * 2 // 3)
        rest = max(0, size - big)
        a = [0] * big + list(range(1, rest + 1))
        b = list(range(big)) + [rng.randrange(big) for _ in range(rest)]
        if rng.random() < 0.5:
            return [a, b], rest + 1, big
        return [b, a], big, rest + 1
    # many2many: random bipartite multigraph touching every point
    nP = rng.randint(1, max(1, size // rng.choice([1, 2, 4])))
    nS = rng.randint(1, max(1, size // rng.choice([1, 2, 4])))
    n = max(size, nP, nS)
    p = list(range(nP)) + [rng.randrange(nP) for _ in range(n - nP)]
    s = list(range(nS)) + [rng.randrange(nS) for _ in range(n - nS)]
    rng.shuffle(p)
    rng.shuffle(s)
    if rng.random() < 0.7:        # no duplicate pairs, as a collocation search delivers
        seen, pp, ss = set(), [], []
        for x, y in zip(p, s):
            if (x, y) not in seen:
                seen.add((x, y))
                pp.append(x)
                ss.append(y)
        usedP, usedS = set(pp), set(ss)
        for x in range(nP):
            if x not in usedP:
                pp.append(x)
                ss.append(ss[0] if ss else 0)
        for y in range(nS):
            if y not in set(ss):
                ss.append(y)
                pp.append(pp[0])
        p, s = pp, ss
    return [p, s], nP, nS


def gen_layout(rng):
    g = rng.choice([("primary", "secondary"), ("primary", "secondary"), ("MHS", "AVHRR"), ("b", "a")])
    C = rng.choice([0, 1, 3, 3, 5])
    return {"groups": list(g), "C": C, "q": C > 0 and rng.random() < 0.35, "z": C > 0 and rng.random() < 0.45,
            "L": rng.choice([1, 2, C, C]) if C else 1, "zpos": rng.randrange(3), "z4": rng.random() < 0.2,
            "shared_dim": rng.random() < 0.3,
            "vmax": rng.choice([3, 20, 20, 1000]), "nan": rng.choice([0.0, 0.0, 0.15, 0.5, 0.95]),
            "hidden": rng.random() < 0.3}


def gen_values(rng, shape, vmax, pnan):
    def rec(sh):
        if not sh:
            return None if rng.random() < pnan else rng.randint(-vmax, vmax)
        return [rec(sh[1:]) for _ in range(sh[0])]
    return rec(list(shape))


def gen_ds(rng, layout, size, style=None, sort=None, idbase=0):
    style = style or rng.choice(["one2many", "many2one", "many2many", "many2many", "skew", "diag", "single"])
    pairs, nP, nS = gen_pairs(rng, style, size)
    order = list(range(len(pairs[0])))
    if sort is None:
        sort = rng.random() < 0.3
    if sort:
        order.sort(key=lambda k: (pairs[0][k], pairs[1][k]))
    else:
        rng.shuffle(order)
    pairs = [[pairs[0][k] for k in order], [pairs[1][k] for k in order]]
    g0, g1 = layout["groups"]
    C, L = layout["C"], layout["L"]
    vs = {}
    for g, npts, base in ((g0, nP, idbase), (g1, nS, idbase + 100000)):
        chdim = "channel" if layout["shared_dim"] else f"{g}/channel"
        v = {"x": {"dims": [f"{g}/collocation"], "data": [base + i for i in range(npts)]}}
        if C:
            v["bt"] = {"dims": [f"{g}/collocation", chdim], "data": gen_values(rng, (npts, C), layout["vmax"], layout["nan"])}
        if layout["q"]:
            v["q"] = {"dims": [chdim, f"{g}/collocation"], "data": gen_values(rng, (C, npts), layout["vmax"], layout["nan"])}
        if layout["z"]:
            # a matrix per point: two (or three) extra dimensions of equal or unequal length, the collocation
            # dimension first, in the middle or last (the second group uses another position)
            extra = [(chdim, C), (f"{g}/level", L)] + ([(f"{g}/pol", 2)] if layout.get("z4") else [])
            pos = (layout.get("zpos", 0) + (0 if g == g0 else 1)) % (len(extra) + 1)
            dims = [e[0] for e in extra]
            shape = [e[1] for e in extra]
            dims.insert(pos, f"{g}/collocation")
            shape.insert(pos, npts)
            v["z"] = {"dims": dims, "data": gen_values(rng, shape, 9, layout["nan"])}
        if layout["hidden"]:
            v["__idx"] = {"dims": [f"{g}/collocation"], "data": [i for i in range(npts)]}
        if layout.get("nc"):      # variables that do not live on the collocation dimension
            v["meta"] = {"dims": [], "data": 7 + base}
            if C:
                v["freq"] = {"dims": [chdim], "data": [89 + 7 * c for c in range(C)]}
        vs[g] = v
    return {"groups": [g0, g1], "pairs": pairs, "n": {g0: nP, g1: nS}, "vars": vs, "style": style,
            "t0": rng.randint(0, 1000)}


def malform(rng, d):
    """break validity: returns kind"""
    g0, g1 = d["groups"]
    kind = rng.choice(["extra-ref-point", "extra-sec-point", "index-out-of-range", "index-beyond-pairs", "no-pairs"])

    def grow(g, k=1):
        old = d["n"][g]
        for name, v in d["vars"][g].items():
            if f"{g}/collocation" not in v["dims"]:
                continue
            ax = v["dims"].index(f"{g}/collocation")

            def rec(x, depth):
                if depth == ax:
                    return x + [x[0]] * k
                return [rec(y, depth + 1) for y in x]
            v["data"] = rec(v["data"], 0)
        d["n"][g] = old + k
    if kind == "extra-ref-point":
        grow(g0)
    elif kind == "extra-sec-point":
        grow(g1)
    elif kind == "index-out-of-range":
        side = rng.randrange(2)
        k = rng.randrange(len(d["pairs"][0]))
        d["pairs"][side][k] = d["n"][d["groups"][side]] + rng.randint(0, 2)
    elif kind == "index-beyond-pairs":
        side = rng.randrange(2)
        k = rng.randrange(len(d["pairs"][0]))
        d["pairs"][side][k] = len(d["pairs"][0]) + d["n"][d["groups"][side]] + 5
    else:
        d["pairs"] = [[], []]
    d["malformed"] = kind
    return kind


def pick_size(rng, tier_big):
    r = rng.random()
    if r < 0.55:
        return rng.randint(1, 12)
    if r < 0.85:
        return rng.randint(13, 120)
    if r < 0.85 + tier_big:
        return rng.choice([999, 1000, 1001, rng.randint(1002, 3000)])
    return rng.randint(121, 998)


# ------------------------------------------------------------------ cases
def run_ds_case(ck, case, use_model):
    """op 'ds': list of hand-built datasets; collapse/expand each, concat all"""
    import numpy as np
    dss = [build_ds(d) for d in case["list"]]
    # validity is decided by the oracle (explicit loop), not by the generator's flag
    dvalid = [is_valid(np.array(d["pairs"], dtype=int).reshape(2, -1), d["n"][d["groups"][0]], d["n"][d["groups"][1]])
              and len(d["pairs"][0]) > 0 for d in case["list"]]
    valid = all(dvalid)
    n0 = len(case["list"][0]["pairs"][0])
    for i, (d, ds) in enumerate(zip(case["list"], dss)):
        sub = {"op": "ds", "list": [d], "alias": None, "collapser": case.get("collapser", False)}
        check_dataset(ck, ds, sub, dvalid[i], use_model, tag=f"[{i}] ", custom=case.get("collapser", False))
    cc = None
    has_nc = any(not any(dm.endswith("/collocation") for dm in v["dims"]) for d in case["list"] for g in d["groups"]
                 for v in d["vars"][g].values())
    # precondition of the concat claim: every member has the group order of the first one
    mixed = any(d["groups"] != case["list"][0]["groups"] for d in case["list"])
    if (valid or case.get("alias") is not None) and not has_nc:
        if all(len(d["pairs"][0]) for d in case["list"]):
            cc = check_concat(ck, dss, case, valid and not mixed, use_model, alias=None if mixed else case.get("alias"))
    if mixed:
        cc = None
    if cc is not None and valid and case.get("alias") is None and len(dss) > 1:
        check_dataset(ck, cc, case, True, use_model, tag="concat/")
    mult = case["list"][0]
    key = None
    if valid and n0 > 1:
        key = json.dumps([d["pairs"] for d in case["list"]])[:4000]
    nbucket = "n=1" if n0 == 1 else "n<1000" if n0 < 1000 else "n>=1000"
    ck.case(key=key, kind=f"ds/{mult.get('style')}/{nbucket}" + ("/malformed:" + str(mult.get("malformed")) if not valid else "") +
            ("/alias" if case.get("alias") is not None else "") + ("/mixed-group-order" if mixed else ""),
            sample={"pairs": [p[:10] for p in mult["pairs"]], "n": mult["n"], "vars": sorted(mult["vars"][mult["groups"][0]])})


class PairInjector:
    """make Collocator.spatial_search return harness-chosen pairs, and record what reaches
    Collocator._create_return (wrapping from outside; /repo is not touched).

    Both hooks are tolerant: they accept any signature (`*args, **kwargs`), look the observed
    arguments up by name or by type, and are skipped when the private method does not exist or is
    not a plain method.  `injecting` / `observing` say which hooks are in place; a hook that
    cannot do its job only loses an observation, it never produces a verdict."""

    def __init__(self, inject=None):
        self.inject = inject
        self.original_pairs = None
        self.xP = self.xS = None
        self.injecting = self.observing = False
        self.saved = []
        try:
            from typhon.collocations.collocator import Collocator
            self.C = Collocator
        except Exception:  # noqa
            self.C = None

    def _plain_method(self, name):
        import inspect
        import types
        if self.C is None:
            return None
        try:
            fn = inspect.getattr_static(self.C, name)
        except AttributeError:
            return None
        return fn if isinstance(fn, types.FunctionType) else None

    def _observe(self, fn, args, kwargs):
        import inspect
        import numpy as np
        import xarray as xr
        try:
            bound = inspect.signature(fn).bind(*args, **kwargs).arguments
        except TypeError:
            bound = {}
        values = list(bound.values()) if bound else list(args) + list(kwargs.values())
        op = bound.get("original_pairs")
        if op is None:
            op = next((v for v in values if isinstance(v, np.ndarray) and v.ndim == 2 and v.shape[0] == 2
                       and v.dtype.kind in "iu"), None)
        dsets = [bound.get("primary"), bound.get("secondary")]
        if not all(isinstance(d, xr.Dataset) for d in dsets):
            dsets = [v for v in values if isinstance(v, xr.Dataset)][:2]
        if op is None or len(dsets) != 2 or any("x" not in d.variables for d in dsets):
            return
        op = np.asarray(op)
        if op.ndim != 2 or op.shape[0] != 2 or (op.size and op.dtype.kind not in "iu"):
            return
        self.xP = np.array(dsets[0]["x"].values, copy=True)      # the prepared (time-sorted) data
        self.xS = np.array(dsets[1]["x"].values, copy=True)
        self.original_pairs = np.array(op, dtype=int, copy=True)

    def __enter__(self):
        import numpy as np
        me = self
        if self.inject is not None and self._plain_method("spatial_search") is not None:
            def ss(self_, *a, **k):
                p = np.array(me.inject, dtype=int).reshape(2, -1)
                return p, np.arange(p.shape[1]) * 1.0
            self.saved.append(("spatial_search", self._plain_method("spatial_search")))
            self.C.spatial_search = ss
            self.injecting = True
        cr0 = self._plain_method("_create_return")
        if cr0 is not None:
            def cr(*a, **k):
                try:
                    me._observe(cr0, a, k)
                except Exception:  # noqa  (observation lost, nothing else)
                    me.original_pairs = None
                return cr0(*a, **k)
            self.saved.append(("_create_return", cr0))
            self.C._create_return = cr
            self.observing = True
        return self

    def __exit__(self, *a):
        for name, fn in self.saved:
            setattr(self.C, name, fn)


def raised_in(e, funcname):
    """does the traceback of e pass through a function of that name?"""
    import traceback
    return any(f.name == funcname for f in traceback.extract_tb(e.__traceback__))


def point_ds(n, lat, lon, t, bt, idbase, grid=None):
    import numpy as np
    import xarray as xr
    t0 = np.datetime64("2020-01-01T00:00:00")
    if grid:
        nl, npos = grid        # gridded input: time per scan line, positions per (scan line, position)
        return xr.Dataset({
            "time": ("scnline", t0 + np.array(t, dtype=int).astype("timedelta64[s]")),
            "lat": (("scnline", "scnpos"), np.array(lat, dtype=float).reshape(nl, npos)),
            "lon": (("scnline", "scnpos"), np.array(lon, dtype=float).reshape(nl, npos)),
            "x": (("scnline", "scnpos"), (np.arange(n) * 1.0 + idbase).reshape(nl, npos)),
            "bt": (("scnline", "scnpos", "channel"), from_nested(bt).reshape(nl, npos, -1)),
        }, coords={"scnline": np.arange(nl), "scnpos": np.arange(npos)})
    return xr.Dataset({
        "time": ("c", t0 + np.array(t, dtype=int).astype("timedelta64[s]")),
        "lat": ("c", np.array(lat, dtype=float)), "lon": ("c", np.array(lon, dtype=float)),
        "x": ("c", np.arange(n) * 1.0 + idbase),
        "bt": (("c", "channel"), from_nested(bt).reshape(n, -1)),
        # a matrix per point, stored with the point dimension LAST
        "mat": (("i", "j", "c"), (np.arange(4 * n).reshape(2, 2, n) % 7 + idbase % 3).astype(float)),
    }, coords={"c": np.arange(n)})


def run_collocate_case(ck, case, use_model):
    """op 'inject' / 'collocate': the compaction inside Collocator.collocate"""
    import numpy as np
    from typhon.collocations import Collocator
    what_case = dict(case, check="compaction")
    P, S = case["P"], case["S"]
    a = point_ds(len(P["lat"]), P["lat"], P["lon"], P["t"], P["bt"], 0, P.get("grid"))
    b = point_ds(len(S["lat"]), S["lat"], S["lon"], S["t"], S["bt"], 100000, S.get("grid"))
    inject = case.get("pairs") if case["op"] == "inject" else None
    with PairInjector(inject) as spy, warnings.catch_warnings():
        warnings.simplefilter("ignore")
        try:
            if case["op"] == "inject":
                res = Collocator().collocate(a, b, max_distance="1 km")
            else:
                res = Collocator().collocate(a, b, max_distance=f"{case['dist_km']} km",
                                             max_interval=(f"{case['interval_s']} s" if case.get("interval_s") is not None else None))
        except Exception as e:  # noqa
            if case["op"] == "collocate" and case.get("interval_s") is None and isinstance(e, IndexError) \
                    and "must be of integer" in str(e) and spy.original_pairs is None:
                # collocate(max_distance only) without any hit indexed with the float array `no_pairs`
                # before a result exists: not a statement of C13 (C04; fixed upstream by ebdc3b5)
                ck.case(kind="collocate/no-hit-indexerror(C04)")
                return
            if case["op"] == "inject" and not raised_in(e, "_create_return"):
                # the injected search result no longer fits the (private) interface: the hook failed,
                # not the code under test
                ck.count("diag/injection-hook-failed")
                ck.case(kind="inject/hook-failed")
                return
            ck.violation("collocate-exception", f"collocate raised {type(e).__name__}: {e}", what_case)
            ck.case(kind=f"{case['op']}/exception")
            return
    if case["op"] == "inject" and not spy.injecting:
        ck.count("diag/injection-hook-not-installed")
    op = spy.original_pairs
    if op is None and res is not None:
        ck.count("diag/compaction-input-not-observed")
    if res is None:
        if op is not None and op.size:
            ck.violation("compact-invalid", f"collocate returned nothing for {op.shape[1]} original pairs", what_case)
        if use_model and op is not None:
            out = ck.driver([f"compact {len(P['lat'])} {len(S['lat'])} 0"])[0]
            if out != "empty":
                ck.disagree(f"compact of no pairs: model {out}", what_case)
        ck.case(kind=f"{case['op']}/empty")
        return
    ok = check_valid(ck, res, case, use_model, "", "compact")
    pairs = np.asarray(res["Collocations/pairs"].values)
    n = pairs.shape[1]
    if op is not None and (op.shape[1] != n or (op.size and (op[0].max() >= len(spy.xP) or op[1].max() >= len(spy.xS)))):
        op = None                      # what the hook saw is not the compaction input: observation lost
        ck.count("diag/compaction-input-not-observed")
    # oracle: pair k still joins the same two original points (x carries the original index)
    if ok and op is not None:
        xp, xs = res["primary/x"].values, res["secondary/x"].values
        for k in range(n):
            if xp[pairs[0, k]] != spy.xP[op[0, k]] or xs[pairs[1, k]] != spy.xS[op[1, k]]:
                ck.violation("compact-pairs", f"pair {k} joins the points with ids ({int(xp[pairs[0, k]])}, {int(xs[pairs[1, k]])}) "
                             f"instead of {(int(spy.xP[op[0, k]]), int(spy.xS[op[1, k]]))}", what_case)
                break
        if len(set(xp.tolist())) != len(xp) or len(set(xs.tolist())) != len(xs):
            ck.violation("compact-duplicate", "a point is stored twice in the compact result", what_case)
    if use_model and op is not None:
        line = f"compact {len(spy.xP)} {len(spy.xS)} {op.shape[1]} " + " ".join(str(int(x)) for x in op.T.reshape(-1))
        out = ck.driver([line])[0]
        if not out.startswith("ok"):
            ck.disagree(f"compact: model {out[:40]} vs code ok", what_case)
        else:
            parts = out.split(" | ")
            uP = [int(x) for x in parts[1].split()]
            uS = [int(x) for x in parts[2].split()]
            mp = [int(x) for x in parts[3].split()]
            from typhon.utils import unique as ty_unique       # anchored helper: same first-occurrence order
            if ty_unique([int(v) for v in op[0]]) != uP or ty_unique([int(v) for v in op[1]]) != uS:
                ck.disagree(f"typhon.utils.unique {ty_unique([int(v) for v in op[0]])[:10]} vs model uniq {uP[:10]}", what_case)
            if [int(spy.xP[i]) for i in uP] != [int(v) for v in res["primary/x"].values] or \
                    [int(spy.xS[i]) for i in uS] != [int(v) for v in res["secondary/x"].values]:
                ck.disagree(f"compact: stored points model {uP[:10]}/{uS[:10]} (indices) vs code ids "
                            f"{res['primary/x'].values[:10].tolist()}/{res['secondary/x'].values[:10].tolist()}", what_case)
            if mp != [int(x) for x in pairs.T.reshape(-1)]:
                ck.disagree(f"compact: new pairs model {mp[:16]} vs code {pairs.T.reshape(-1).tolist()[:16]}", what_case)
    if ok:
        check_dataset(ck, res, case, True, use_model, tag="result/", custom=False)
        if n <= 400:
            check_concat(ck, [res, res], case, True, use_model)
    mult = max(np.bincount(pairs[0]).max(), np.bincount(pairs[1]).max()) if n else 0
    ck.case(key=json.dumps((op if op is not None else pairs).tolist())[:4000] if n > 1 else None,
            kind=f"{case['op']}/" + ("multi" if mult > 1 else "one2one") + ("/gridded" if P.get("grid") or S.get("grid") else ""),
            sample={"op": case["op"], "original_pairs": op[:, :10].tolist() if op is not None else None, "new_pairs": pairs[:, :10].tolist()})


def gen_points(rng, n, box):
    return {"lat": [round(rng.uniform(0, box), 4) for _ in range(n)], "lon": [round(rng.uniform(0, box), 4) for _ in range(n)],
            "t": [rng.randint(0, 600) for _ in range(n)],
            "bt": [[None if rng.random() < 0.1 else rng.randint(-9, 9) for _ in range(2)] for _ in range(n)]}


def gen_collocate_case(rng):
    nP, nS = rng.randint(1, 25), rng.randint(1, 25)
    box = rng.choice([0.05, 0.3, 1.0])
    P, S = gen_points(rng, nP, box), gen_points(rng, nS, box)
    for pts in (P, S):
        if rng.random() < 0.25:       # gridded (scan line x position) input
            nl, npos = rng.randint(1, 4), rng.randint(1, 5)
            g = gen_points(rng, nl * npos, box)
            pts.update(g)
            pts["t"] = sorted(g["t"][:nl])
            pts["grid"] = [nl, npos]
    return {"op": "collocate", "P": P, "S": S,
            "dist_km": rng.choice([3, 10, 30, 200]), "interval_s": rng.choice([None, 30, 200, 10000])}


def gen_inject_case(rng, size):
    nP, nS = rng.randint(1, max(1, size)), rng.randint(1, max(1, size))
    n = rng.randint(0 if rng.random() < 0.05 else 1, max(1, size))
    ps = [rng.randrange(nP) for _ in range(n)]
    ss = [rng.randrange(nS) for _ in range(n)]
    if rng.random() < 0.3:     # include the highest / lowest index
        if n:
            ps[rng.randrange(n)] = nP - 1
            ss[rng.randrange(n)] = 0
    return {"op": "inject", "P": gen_points(rng, nP, 0.01), "S": gen_points(rng, nS, 0.01), "pairs": [ps, ss]}


def gen_ds_case(rng, big):
    layout = gen_layout(rng)
    k = rng.choice([1, 1, 2, 2, 3, 4])
    size = pick_size(rng, big)
    if size >= 999:
        k = rng.choice([1, 2])
        layout["z"] = False
        layout["C"] = min(layout["C"], 3)
    layout["nc"] = k == 1 and rng.random() < 0.5     # (xr.concat would broadcast them along the collocation dim)
    lst = []
    for i in range(k):
        s = size if i == 0 else pick_size(rng, 0.0)
        style = None
        if size >= 999 and i == 0:
            style = rng.choice(["one2many", "many2one", "many2many", "diag"])
        lst.append(gen_ds(rng, layout, s, style=style, idbase=1000 * i))
    case = {"op": "ds", "list": lst, "alias": None, "collapser": rng.random() < 0.5}
    r = rng.random()
    if r > 0.95 and k > 1 and size < 500:
        # agree-only stream: a member whose Collocations/group order is the opposite of the first's
        for d in lst[1:]:
            if rng.random() < 0.6:
                d["groups"] = d["groups"][::-1]
                d["pairs"] = d["pairs"][::-1]
        if all(d["groups"] == lst[0]["groups"] for d in lst):
            lst[-1]["groups"], lst[-1]["pairs"] = lst[-1]["groups"][::-1], lst[-1]["pairs"][::-1]
    elif r < 0.12 and size < 999:
        malform(rng, lst[rng.randrange(k)])
    elif r < 0.17 and size < 500:
        case["alias"] = [rng.randrange(k) for _ in range(rng.randint(2, 4))]
    return case


# ------------------------------------------------------------------ histories / hidden state
_CANARY = {"groups": ["primary", "secondary"], "pairs": [[0, 0, 1], [1, 0, 1]], "n": {"primary": 2, "secondary": 2}, "t0": 0,
           "vars": {"primary": {"x": {"dims": ["primary/collocation"], "data": [1, 2]}},
                    "secondary": {"x": {"dims": ["secondary/collocation"], "data": [4, 8]}}}}
_BASELINE = {}


def state_canary():
    """default collapse + expand of a fixed tiny dataset: variable names and values.  Must be the same at
    every moment of a process — collapse/expand are functions of their arguments."""
    from typhon.collocations import collapse, expand
    ds = build_ds(_CANARY)
    out = []
    with warnings.catch_warnings():
        warnings.simplefilter("ignore")
        for r in (collapse(ds.copy(deep=True)), collapse(ds.copy(deep=True), reference="secondary"), expand(ds.copy(deep=True))):
            out.append(tuple((str(k), tuple(r[k].dims), r[k].values.astype(str).tolist().__repr__()) for k in r.variables))
    return tuple(out)


def canary_check(ck, history):
    """compare the canary with the one taken at the start of the process; `history` = the cases run since"""
    try:
        now = state_canary()
    except Exception as e:  # noqa
        now = ("raised", type(e).__name__)
    if "v" not in _BASELINE:
        _BASELINE["v"] = now
        return True
    if now == _BASELINE["v"]:
        return True
    base = _BASELINE["v"]
    diff = "results differ"
    if isinstance(now, tuple) and len(now) == 3 and len(base) == 3 and now[0] != ("raised",):
        for a, b in zip(base, now):
            na, nb = [x[0] for x in a], [x[0] for x in b]
            if na != nb:
                diff = f"variables {nb} instead of {na}"
                break
            ch = [x[0] for x, y in zip(a, b) if x != y]
            if ch:
                diff = f"values of {ch[:4]} changed"
                break
    ck.violation("hidden-state", "collapse/expand with default arguments on a fixed dataset give another result after the "
                 f"preceding call(s) than at the start of the process: {diff}", {"op": "sequence", "cases": history})
    ck._polluted = True
    ck.notes.append("a hidden-state leak was found: exploration stopped (later results of this process cannot be judged)")
    return False


def run_history_case(ck, case, use_model):
    """a sequence of collapse / expand calls in one process; every call is judged on its own by the oracle
    (and the model), so an earlier call with custom collapsers must not influence a later default call"""
    dss = [build_ds(d) for d in case["list"]]
    import numpy as np
    for k, st in enumerate(case["steps"]):
        d, ds = case["list"][st["ds"]], dss[st["ds"]]
        valid = is_valid(np.array(d["pairs"], dtype=int).reshape(2, -1), d["n"][d["groups"][0]], d["n"][d["groups"][1]]) \
            and len(d["pairs"][0]) > 0
        if st["fn"] == "collapse":
            check_collapse(ck, ds, case, valid, use_model, f"step {k} ", st.get("collapser") or False, refs=(st.get("ref", 0),))
        else:
            check_expand(ck, ds, case, valid, use_model, f"step {k} ")
    kinds = ["custom" if st.get("collapser") else "default" for st in case["steps"] if st["fn"] == "collapse"]
    leak_shape = any(a == "custom" and "default" in kinds[i + 1:] for i, a in enumerate(kinds))
    ck.case(key=json.dumps([case["steps"], [d["pairs"] for d in case["list"]]])[:4000] if leak_shape else None,
            kind="history/" + ("custom-then-default" if leak_shape else "other"),
            sample={"steps": case["steps"][:6]})


def gen_history_case(rng):
    layout = gen_layout(rng)
    layout["nc"] = rng.random() < 0.3
    lst = [gen_ds(rng, layout, rng.randint(1, 25), idbase=1000 * i) for i in range(rng.choice([1, 2]))]
    names = ["mean", "std", "number"]
    fids = ["nansum", "nanmax0", "count2", "first"]
    steps = []
    for _ in range(rng.randint(1, 2)):
        spec = {}
        r = rng.random()
        if r < 0.7:                                   # override one or two standard names
            for nm in rng.sample(names, rng.choice([1, 1, 2])):
                spec[nm] = rng.choice(fids[:3])
        if r > 0.4 or not spec:                       # and / or add new names
            for nm in rng.sample(["sum", "maxi", "twice"], rng.choice([1, 2])):
                spec[nm] = rng.choice(fids)
        steps.append({"ds": rng.randrange(len(lst)), "fn": "collapse", "ref": rng.randrange(2), "collapser": spec})
        for _ in range(rng.randint(1, 3)):            # later calls with default arguments, same and other dataset
            if rng.random() < 0.25:
                steps.append({"ds": rng.randrange(len(lst)), "fn": "expand"})
            else:
                steps.append({"ds": rng.randrange(len(lst)), "fn": "collapse", "ref": rng.randrange(2), "collapser": None})
    return {"op": "history", "list": lst, "steps": steps}


def run_case(ck, case, use_model=True, top=True):
    if top and getattr(ck, "_polluted", False):
        ck.count("skipped/after-hidden-state-leak")
        return
    if top and "v" not in _BASELINE:
        canary_check(ck, [])                          # baseline of a fresh process
    if case["op"] == "ds":
        run_ds_case(ck, case, use_model)
    elif case["op"] == "history":
        run_history_case(ck, case, use_model)
    elif case["op"] == "sequence":
        for c in case["cases"]:
            run_case(ck, c, use_model, top=False)
    else:
        run_collocate_case(ck, case, use_model)
    if top:
        hist = case["cases"] if case["op"] == "sequence" else [case]
        canary_check(ck, [{k: v for k, v in c.items() if k != "check"} for c in hist])


def explore(ck, n_ds, n_inj, n_col, big, use_model=True, n_hist=None):
    rng = ck.rng
    for _ in range(max(4, n_ds // 8) if n_hist is None else n_hist):      # histories first: the process is still fresh
        run_case(ck, gen_history_case(rng), use_model)
    for _ in range(n_ds):
        run_case(ck, gen_ds_case(rng, big), use_model)
    for _ in range(n_inj):
        run_case(ck, gen_inject_case(rng, rng.choice([3, 8, 30, 200])), use_model)
    for _ in range(n_col):
        run_case(ck, gen_collocate_case(rng), use_model)


def big_cases(ck, use_model):
    """always part of a run (also quick): datasets with >= 1000 pairs, i.e. the alternative
    row-assignment branch of collapse, in the shapes that branch is sensitive to — pair order
    shuffled, and pair order sorted by the first group (as Collocator.collocate delivers) so that the
    indices of the SECOND group recur non-contiguously; check_collapse uses each group as reference"""
    rng = ck.rng
    for sort, style in ((False, "many2many"), (True, "many2many"), (False, "many2one")):
        layout = gen_layout(rng)
        layout.update({"C": 1, "q": False, "z": False, "nc": False, "vmax": 20})
        d = gen_ds(rng, layout, rng.randint(1000, 1400), style=style, sort=sort)
        case = {"op": "ds", "list": [d], "alias": None, "collapser": not sort}
        run_case(ck, case, use_model)


def exhaustive_small(ck, use_model):
    """every valid pair list (ordered, duplicates allowed) with up to 4 pairs over 1..2 x 1..2 stored
    points and up to 3 pairs over 2 x 3 / 3 x 2 points, fixed data with a NaN; each also concatenated
    with itself"""
    import itertools
    count = 0
    for nP, nS, nmax in ((1, 1, 4), (1, 2, 4), (2, 1, 4), (2, 2, 4), (2, 3, 3), (3, 2, 3)):
        edges = [(p, s) for p in range(nP) for s in range(nS)]
        for n in range(1, nmax + 1):
            for combo in itertools.product(edges, repeat=n):
                if {p for p, _ in combo} != set(range(nP)) or {s for _, s in combo} != set(range(nS)):
                    continue
                g0, g1 = "primary", "secondary"
                d = {"groups": [g0, g1], "pairs": [[p for p, _ in combo], [s for _, s in combo]], "n": {g0: nP, g1: nS},
                     "style": "exhaustive", "t0": 0,
                     "vars": {g0: {"x": {"dims": [f"{g0}/collocation"], "data": list(range(nP))},
                                   "bt": {"dims": [f"{g0}/collocation", f"{g0}/channel"],
                                          "data": [[2 * i + 1, None if i == 0 else -i] for i in range(nP)]}},
                              g1: {"x": {"dims": [f"{g1}/collocation"], "data": [100000 + j for j in range(nS)]},
                                   "bt": {"dims": [f"{g1}/collocation", f"{g1}/channel"],
                                          "data": [[3 * j - 2, None if j == 1 else j * j] for j in range(nS)]}}}}
                run_ds_case(ck, {"op": "ds", "list": [d, json.loads(json.dumps(d))], "alias": None, "collapser": n % 2 == 0}, use_model)
                count += 1
    return count


def make_check():
    return vlib.Check(
        PROP, **PKG, lemma_files=LEMMAS, model_files=["Model/Compact.lean"],
        trusted=["hand-written model Model/Compact.lean tied to typhon/collocations/common.py (collapse, expand, _rows_for_secondaries), "
                 "collocator.py (_create_return compaction, concat_collocations) by the correspondence run of this check (driver drv_c13; "
                 "same pair lists and integer-valued data; compared: new pair indices and stored points, row assignment, bin-matrix slots, "
                 "count / sum (= mean*count, exact) / std (1e-12), expanded rows, concatenated pairs and rows)",
                 "xarray isel / transpose / concat / merge / swap_dims, pandas.unique, np.nanmean / np.nanstd / np.count_nonzero and numpy "
                 "fancy assignment are modelled, not verified",
                 "extra dimensions are flattened per stored point; the statistics act pointwise on the flattened entries",
                 "numba is not installed: the >= 1000 pairs path runs the same Python function"],
        assumptions=["data values are finite integers or NaN (float sums exact); std is compared to 1e-12, not proved for floats",
                     "datasets handed to concat_collocations are distinct objects (deep copies); aliased arguments are shifted in "
                     "place by the code and only model/code agreement is checked for them",
                     "violations are raised for valid compact datasets only (indices in range, every stored point in a pair); "
                     "malformed datasets are checked for model/code agreement of the error class"])


def main():
    ck = make_check()
    ck.rule = ("hand-built compact datasets (styles one2many/many2one/many2many/skew/diag/single, 1..3000 pairs, sorted or shuffled "
               "pair order, optional channel / (channel,collocation) / 3-d variables, NaN fraction 0..0.95, group names, custom "
               "collapser, either reference), lists of 1..4 of them for concat, ~12% malformed (unused stored point, index out of "
               "range, no pairs), ~5% aliased concat arguments; pairs injected into Collocator.collocate; real collocate on random "
               "points.  non-trivial = distinct pair list(s) with more than one pair")
    ck.anchors([("typhon/collocations/common.py", "collapse"), ("typhon/collocations/common.py", "expand"),
                ("typhon/collocations/common.py", "_rows_for_secondaries"),
                ("typhon/collocations/collocator.py", "Collocator._create_return"),
                ("typhon/collocations/collocator.py", "concat_collocations"),
                ("typhon/collocations/collocator.py", "check_collocation_data"),
                ("typhon/utils/common.py", "add_xarray_groups"), ("typhon/utils/common.py", "get_xarray_groups"),
                ("typhon/utils/common.py", "get_xarray_group"), ("typhon/utils/common.py", "unique")])
    ck.build()
    use_model = os.path.exists(os.path.join(ck.pkgdir, ".lake/build/bin/drv_c13"))
    if not use_model:
        ck.notes.append("driver not available: oracle only")
    for name, c in vlib.load_corpus(PROP):
        run_case(ck, c, use_model)
    if ck.tier == "thorough":
        k = exhaustive_small(ck, use_model)
        ck.exhaustive = True
        ck.notes.append(f"exhaustive: all {k} valid ordered pair lists with <= 4 pairs over <= 2x2 stored points and <= 3 pairs "
                        "over 2x3 / 3x2 stored points (collapse both references, expand, concat with itself)")
    big_cases(ck, use_model)
    big = 0.04 if ck.tier == "quick" else 0.06
    explore(ck, ck.budget(95, 1300), ck.budget(40, 600), ck.budget(25, 300), big, use_model)
    if ck.broken() and not ck.violations:
        # failing-input search on the real code with the larger budget (oracle only)
        big_cases(ck, False)
        if ck.tier == "quick":
            explore(ck, 500, 250, 120, 0.05, use_model=False)
        else:
            explore(ck, 1500, 600, 300, 0.05, use_model=False)
    ck.finish()


def replay(path):
    obj = json.load(open(path))
    ck = vlib.Check(PROP, **PKG)
    c = obj.get("case")
    if not c:
        print(json.dumps(obj, indent=1)[:2000])
        raise SystemExit(1)
    c = {k: v for k, v in c.items() if k != "check"}
    run_case(ck, c, use_model=False)
    for v in ck.violations[:10]:
        print("REPRODUCED:", v["what"])
    raise SystemExit(1 if ck.violations else 0)
