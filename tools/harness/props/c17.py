"""C17 — optimal-estimation matrices satisfy their defining identities.

Tie: translator.  tools/py2lean/gen_oem.py regenerates lean/oem/GenReal/Oem.lean (Mathlib `Matrix`
reading of typhon/retrieval/oem/{common,error}.py) from $TYPHON_REPO on every run; the theorems of
lean/oem/Proofs/Props/C17.lean are rebuilt against it.  The same expression trees are emitted as
exact-Fraction Python (lean/oem/GenFrac/oem_frac.py) and cross-run against the real code on small
integer matrices (validates the translator).  Independent oracle on the REAL code:
  (a) double precision, `numpy.linalg.solve` evaluation of BOTH the n-form and the m-form, with
      first-order error bounds built from the condition numbers as tolerance,
  (b) exact rational arithmetic (fractions.Fraction Gauss–Jordan) for integer matrices n, m ≤ 4,
  (c) glue the translator cannot see: dtype variants of every argument (K int64/int32/bool/float32,
      covariances float64 with non-integer entries < 1 / whole numbers typed int / float32, integer
      vectors) against the exact oracle and against the same call on the float64-converted values
      (float64-level accuracy unless a covariance itself is float32); arguments unmodified, second
      identical call identical, Fortran-order / strided / negative-stride / read-only inputs.
"""
import importlib.util
import json
import math
import os
import sys
import warnings

import vlib

PROP = "C17"
PY2LEAN = os.path.join(vlib.ROOT, "tools", "py2lean")
if PY2LEAN not in sys.path:
    sys.path.insert(0, PY2LEAN)

FUNCS = ["error_covariance_matrix", "retrieval_gain_matrix", "averaging_kernel_matrix",
         "smoothing_error", "retrieval_noise"]
U = 2.220446049250313e-16
U32 = 1.1920928955078125e-07
SKIP_REL = 1e-3          # a comparison whose error bound exceeds this relative size is not made


# ----------------------------------------------------------------------------- regeneration
def regenerate(ck):
    ck.lock_package()   # regeneration + build are one critical section per package
    import gen_oem
    importlib.reload(gen_oem)
    import py2lean_matrix
    importlib.reload(py2lean_matrix)
    importlib.reload(gen_oem)
    rep = gen_oem.generate(repo=vlib.REPO)
    ck.extra_cov["translator"] = {"changed_files": rep["changed"], "translated": sorted(rep["functions"]),
                                  "refused": rep["refused"], "trees": rep["trees"]}
    for k in FUNCS:
        if k in rep["refused"]:
            ck.broken_obligations.append(f"translator refused {k}: {rep['refused'][k]}")
        elif k not in rep["functions"]:
            ck.broken_obligations.append(f"translator has no spec for {k}")
    if rep["refused"]:
        ck.build_ok = False
    return rep


def load_frac_model():
    path = os.path.join(vlib.ROOT, "lean", "oem", "GenFrac", "oem_frac.py")
    spec = importlib.util.spec_from_file_location("oem_frac_generated", path)
    mod = importlib.util.module_from_spec(spec)
    spec.loader.exec_module(mod)
    return mod


# ----------------------------------------------------------------------------- generators
def loguniform(rng, lo, hi):
    return math.exp(rng.uniform(math.log(lo), math.log(hi)))


def orth(np, rs, k):
    q, r = np.linalg.qr(rs.standard_normal((k, k)))
    return q * np.sign(np.diag(r) + (np.diag(r) == 0))


def gen_spd(np, rng, rs, k, kind, scale, kappa):
    """symmetric positive definite k×k with condition number ≤ min(kappa·few, 1e8)"""
    for _ in range(20):
        if k == 1:
            S = np.array([[scale * loguniform(rng, 1.0, kappa)]])
        else:
            ev = scale * np.exp(rs.uniform(0.0, math.log(kappa), k))
            ev[rs.integers(k)] = scale
            j = rs.integers(k)
            if ev[j] != scale or k == 1:
                ev[j] = scale * kappa
            if kind == "diag":
                S = np.diag(ev)
            elif kind == "corr":
                Q = orth(np, rs, k)
                S = (Q * ev) @ Q.T
            else:  # "scaled": D C D with a well-conditioned correlated C and widely varying scales D
                Q = orth(np, rs, k)
                C = (Q * rs.uniform(0.5, 2.0, k)) @ Q.T
                d = np.sqrt(ev)
                S = C * d[:, None] * d[None, :]
            S = (S + S.T) / 2
        w = np.linalg.eigvalsh(S)
        if w[0] > 0 and w[-1] / w[0] <= 1e8:
            return S
        kappa = max(kappa / 10, 1.0)
    return np.eye(k) * scale


def gen_K(np, rng, rs, m, n, kind, scale):
    if kind == "zero":
        return np.zeros((m, n))
    if kind == "gauss":
        return rs.standard_normal((m, n)) * scale
    if kind == "rankdef":
        r = rng.randint(1, max(1, min(m, n) - 1))
        if min(m, n) == 1:
            return np.zeros((m, n))
        return (rs.standard_normal((m, r)) @ rs.standard_normal((r, n))) * scale
    if kind == "dup":          # repeated / proportional columns and rows
        K = rs.standard_normal((m, n)) * scale
        if n > 1:
            K[:, rs.integers(n)] = K[:, 0] * rng.choice([1.0, -2.0, 0.5])
        if m > 1:
            K[rs.integers(1, m), :] = K[0, :]
        return K
    if kind == "sparse":
        K = rs.standard_normal((m, n)) * scale
        K[rs.uniform(size=(m, n)) < 0.7] = 0.0
        return K
    if kind == "rowscaled":    # channels of very different sensitivity
        return rs.standard_normal((m, n)) * scale * np.exp(rs.uniform(-3, 3, m))[:, None]
    raise ValueError(kind)


def gen_case(np, ck, idx):
    rng = ck.rng
    rs = np.random.default_rng(rng.getrandbits(64))
    shape_kind = ["under", "square", "over", "any", "one", "max"][idx % 6] if idx < 60 else "any"
    if shape_kind == "under":
        n = rng.randint(2, 30); m = rng.randint(1, min(n - 1, 40))
    elif shape_kind == "square":
        n = rng.randint(1, 30); m = n
    elif shape_kind == "over":
        n = rng.randint(1, 30); m = rng.randint(n + 1, 40)
    elif shape_kind == "one":
        n, m = rng.choice([(1, 1), (1, rng.randint(1, 40)), (rng.randint(1, 30), 1)])
    elif shape_kind == "max":
        n, m = rng.choice([(30, 40), (30, 1), (1, 40), (30, 30), (29, 40)])
    else:
        n = rng.randint(1, 30); m = rng.randint(1, 40)
    # most cases moderately conditioned, a tail up to the stated bound 1e8
    def kap():
        return rng.choice([1.0, loguniform(rng, 1, 1e2), loguniform(rng, 1, 1e4), loguniform(rng, 1, 1e4), loguniform(rng, 1e4, 1e8)])
    ka, ky = kap(), kap()
    sa, sy = loguniform(rng, 1e-4, 1e4), loguniform(rng, 1e-4, 1e4)
    kinda, kindy = rng.choice(["diag", "corr", "scaled"]), rng.choice(["diag", "corr", "scaled"])
    S_a = gen_spd(np, rng, rs, n, kinda, sa, ka)
    S_y = gen_spd(np, rng, rs, m, kindy, sy, ky)
    kindK = rng.choice(["gauss", "gauss", "gauss", "rankdef", "rankdef", "zero", "dup", "sparse", "rowscaled"])
    # measurement information comparable to the prior within a factor 1e±2
    kscale = math.sqrt(sy / sa) * loguniform(rng, 1e-2, 1e2)
    K = gen_K(np, rng, rs, m, n, kindK, kscale)
    x, x_a = rs.standard_normal(n) * math.sqrt(sa), rs.standard_normal(n) * math.sqrt(sa)
    x2, x_a2 = rs.standard_normal(n) * math.sqrt(sa), rs.standard_normal(n)
    e_y, e_y2 = rs.standard_normal(m) * math.sqrt(sy), rs.standard_normal(m) * math.sqrt(sy)
    c = rng.choice([0.0, -1.0, 2.5, loguniform(rng, 1e-3, 1e3)])
    dts = {}
    v = rng.random()
    if v < 0.10:                      # single-precision Jacobian (read from a file), double covariances
        K = K.astype(np.float32).astype(float)
        dts["K"] = "float32"
    elif v < 0.18 and kscale > 0:     # integer-typed Jacobian: small whole numbers, scale folded into S_y
        Ki = np.rint(K / kscale * 2)
        S_y = S_y * (2 / kscale) ** 2
        sy = sy * (2 / kscale) ** 2
        K = Ki
        dts["K"] = rng.choice(["int64", "int32"])
    elif v < 0.24 and kscale > 0:     # 0/1 selection matrix typed bool
        S_y = S_y / kscale ** 2
        sy = sy / kscale ** 2
        K = (K != 0) & (rs.uniform(size=K.shape) < 0.6)
        K = K.astype(float)
        dts["K"] = "bool"
    if dts:
        e_y, e_y2 = rs.standard_normal(m) * math.sqrt(sy), rs.standard_normal(m) * math.sqrt(sy)
        if rng.random() < 0.3:
            e_y = np.rint(e_y / math.sqrt(sy) * 3)
            dts["e_y"] = "int64"
    return {"kind": "float", "n": n, "m": m, "kinds": [kindK + ("/" + dts["K"] if dts else ""), kinda, kindy], "dtypes": dts,
            "K": K.tolist(), "S_a": S_a.tolist(), "S_y": S_y.tolist(),
            "x": x.tolist(), "x_a": x_a.tolist(), "x2": x2.tolist(), "x_a2": x_a2.tolist(),
            "e_y": e_y.tolist(), "e_y2": e_y2.tolist(), "c": c}


def gen_int_case(ck, idx):
    rng = ck.rng
    n, m = rng.randint(1, 4), rng.randint(1, 4)
    if idx % 5 == 0:
        m = n

    def ispd(k):
        if rng.random() < 0.3:
            D = [[0] * k for _ in range(k)]
            for i in range(k):
                D[i][i] = rng.randint(1, 9)
            return D
        B = [[rng.randint(-2, 2) for _ in range(k)] for _ in range(k)]
        d = rng.randint(1, 3)
        return [[sum(B[i][t] * B[j][t] for t in range(k)) + (d if i == j else 0) for j in range(k)] for i in range(k)]
    kind = rng.choice(["int", "int", "int", "zero", "rank1", "dupcol"])
    if kind == "zero":
        K = [[0] * n for _ in range(m)]
    elif kind == "rank1":
        a = [rng.randint(-3, 3) for _ in range(m)]
        b = [rng.randint(-3, 3) for _ in range(n)]
        K = [[a[i] * b[j] for j in range(n)] for i in range(m)]
    else:
        K = [[rng.randint(-3, 3) for _ in range(n)] for _ in range(m)]
        if kind == "dupcol" and n > 1:
            for i in range(m):
                K[i][n - 1] = K[i][0]
    iv = lambda k: [rng.randint(-5, 5) for _ in range(k)]
    return {"kind": "int", "n": n, "m": m, "kinds": [kind, "int", "int"], "K": K, "S_a": ispd(n), "S_y": ispd(m),
            "x": iv(n), "x_a": iv(n), "x2": iv(n), "x_a2": iv(n), "e_y": iv(m), "e_y2": iv(m),
            "c": rng.choice([0, -1, 3, 7])}


def gen_dtype_case(ck, idx):
    """small exactly representable matrices in NON-float64 / mixed dtypes: K as int64 / int32 / bool
    (0/1, small integers) / float32 (quarters), covariances as float64 with non-integer entries and
    entries < 1 (dyadic, so exact in float32/float64 and as Fractions), as whole numbers typed int64,
    or as float32; vectors int64 / float64.  Checked against the exact rational oracle."""
    rng = ck.rng
    n, m = rng.randint(1, 4), rng.randint(1, 4)
    if idx % 4 == 0:
        m = n
    kdt = ["int64", "int32", "bool", "float32", "float64", "int64", "bool"][idx % 7]
    cov = rng.choice(["frac", "frac", "frac", "whole-int", "whole-float", "frac32"])
    if kdt == "bool":
        K = [[rng.randint(0, 1) for _ in range(n)] for _ in range(m)]
    elif kdt == "float32":
        K = [[rng.randint(-12, 12) / 4 for _ in range(n)] for _ in range(m)]
    else:
        K = [[rng.randint(-3, 3) for _ in range(n)] for _ in range(m)]
        if rng.random() < 0.3:      # selection / summation operator
            K = [[1 if (i == j or (i + 1 == j and rng.random() < 0.5)) else 0 for j in range(n)] for i in range(m)]

    def spd(k):
        B = [[rng.randint(-2, 2) for _ in range(k)] for _ in range(k)]
        d = rng.randint(1, 3)
        W = [[sum(B[i][t] * B[j][t] for t in range(k)) + (d if i == j else 0) for j in range(k)] for i in range(k)]
        if cov.startswith("whole"):
            return W
        q = rng.choice([2, 4, 8, 16, 32])
        return [[w / q for w in row] for row in W]
    dts = {"K": kdt}
    if cov == "whole-int":
        dts.update({"S_a": "int64", "S_y": rng.choice(["int64", "int32"])})
    elif cov == "frac32":
        dts.update({"S_a": "float32", "S_y": rng.choice(["float32", "float32", "float64"])})
    vec = rng.choice(["int64", "float64", "float32"])
    iv = (lambda k: [rng.randint(-5, 5) for _ in range(k)]) if vec == "int64" else (lambda k: [rng.randint(-20, 20) / 4 for _ in range(k)])
    for key in ("x", "x_a", "x2", "x_a2", "e_y", "e_y2"):
        if vec != "float64":
            dts[key] = vec
    return {"kind": "dtype", "n": n, "m": m, "kinds": [f"{kdt}", cov, cov], "dtypes": dts, "K": K, "S_a": spd(n), "S_y": spd(m),
            "x": iv(n), "x_a": iv(n), "x2": iv(n), "x_a2": iv(n), "e_y": iv(m), "e_y2": iv(m), "c": rng.choice([0, -1, 3, 0.5])}


# ----------------------------------------------------------------------------- the real code
def arr(np, case, key, f64=False):
    """the argument `key` of the case in its declared dtype (case["dtypes"], default float64);
    f64=True: the same VALUES converted to float64 (all stored values are exactly representable)"""
    dt = "float64" if f64 else case.get("dtypes", {}).get(key, "float64")
    return np.array(case[key], dtype=float).astype(dt)


def all_float32(case):
    """single-precision results are legitimate: a covariance matrix that IS float32 is inverted by
    LAPACK in single precision.  A float32 (or integer, bool) Jacobian alone is not a licence:
    numpy promotes `K.T @ inv(S_y)` to float64, so float64-level accuracy is required."""
    d = case.get("dtypes", {})
    return any(d.get(k) == "float32" for k in ("S_a", "S_y"))


def call_real(np, oem, case, f64=False):
    """run the five real functions on the arguments in their declared dtypes (f64=True: on the
    float64-converted values); returns dict name -> ndarray or ('exc', type name)"""
    K, S_a, S_y = (arr(np, case, k, f64) for k in ("K", "S_a", "S_y"))
    K = K.reshape(case["m"], case["n"])
    out = {}

    def run(name, f):
        try:
            with warnings.catch_warnings():
                warnings.simplefilter("ignore")
                with np.errstate(all="ignore"):
                    out[name] = np.asarray(f())
        except Exception as e:  # noqa: BLE001  (mapped to a small enum)
            out[name] = ("exc", type(e).__name__)
    run("S", lambda: oem.error_covariance_matrix(K, S_a, S_y))
    run("G", lambda: oem.retrieval_gain_matrix(K, S_a, S_y))
    run("A", lambda: oem.averaging_kernel_matrix(K, S_a, S_y))
    x, x_a, x2, x_a2 = (arr(np, case, k, f64) for k in ("x", "x_a", "x2", "x_a2"))
    e, e2 = arr(np, case, "e_y", f64), arr(np, case, "e_y2", f64)
    c = float(case["c"])
    A = out["A"] if not isinstance(out["A"], tuple) else None
    if A is not None and A.shape == (case["n"], case["n"]):
        run("s", lambda: oem.smoothing_error(x, x_a, A))
        run("s2", lambda: oem.smoothing_error(x2, x_a2, A))
        run("s_sum", lambda: oem.smoothing_error(x + x2, x_a + x_a2, A))
        run("s_c", lambda: oem.smoothing_error(c * x, c * x_a, A))
        run("s_col", lambda: oem.smoothing_error(x.reshape(-1, 1), x_a.reshape(-1, 1), A))
    run("r", lambda: oem.retrieval_noise(K, S_a, S_y, e))
    run("r2", lambda: oem.retrieval_noise(K, S_a, S_y, e2))
    run("r_sum", lambda: oem.retrieval_noise(K, S_a, S_y, e + e2))
    run("r_c", lambda: oem.retrieval_noise(K, S_a, S_y, c * e))
    return out


def norm2(np, X):
    X = np.atleast_2d(np.asarray(X, dtype=float))
    if X.size == 0:
        return 0.0
    return float(np.linalg.norm(X, 2))


def small_case(case):
    """replay files stay readable: drop nothing, but round-trip exactly (lists of python floats)"""
    return case


# ----------------------------------------------------------------------------- oracle (a): double precision
def check_float(np, oem, ck, case, limits=True):
    """returns list of (signature, message).  Never raises on numerical trouble of the oracle
    itself: ill-conditioned comparisons are counted and skipped."""
    n, m = case["n"], case["m"]
    K = np.array(case["K"], dtype=float).reshape(m, n)
    S_a, S_y = np.array(case["S_a"], dtype=float), np.array(case["S_y"], dtype=float)
    bad = []
    real = call_real(np, oem, case)
    # a float32 covariance is inverted in single precision (legitimately); every other mixture
    # promotes to float64 and float64-level accuracy is required
    U = U32 if all_float32(case) else globals()["U"]
    # ---- reference quantities (solve-based; never an explicit inverse of the inputs)
    In, Im = np.eye(n), np.eye(m)
    wa, wy = np.linalg.eigvalsh(S_a), np.linalg.eigvalsh(S_y)
    ka, ky = wa[-1] / wa[0], wy[-1] / wy[0]
    nAi, nYi, nSa = 1 / wa[0], 1 / wy[0], wa[-1]
    nK = norm2(np, K)
    YiK = np.linalg.solve(S_y, K)                     # Sy⁻¹ K
    P = K.T @ YiK
    P = (P + P.T) / 2
    Ai = np.linalg.solve(S_a, In)
    Mx = P + (Ai + Ai.T) / 2
    wM = np.linalg.eigvalsh(Mx)
    kM = wM[-1] / wM[0]
    S_n = np.linalg.solve(Mx, In)
    S_n = (S_n + S_n.T) / 2
    G_n = S_n @ YiK.T
    A_n = G_n @ K
    W = K @ S_a @ K.T + S_y
    W = (W + W.T) / 2
    wW = np.linalg.eigvalsh(W)
    kW = wW[-1] / wW[0]
    KSa = K @ S_a
    G_m = np.linalg.solve(W, KSa).T                   # Sa Kᵀ W⁻¹
    S_m = S_a - G_m @ KSa
    A_m = G_m @ K
    nS, nG = norm2(np, S_n), norm2(np, G_n)
    C = 20.0 * max(m, n)
    dM = C * U * (ky * nK ** 2 * nYi + ka * nAi)
    tolS = 2 * (nS ** 2 * dM + C * U * kM * nS)
    tolG = tolS * nK * nYi + 2 * C * U * ky * nS * nK * nYi
    tolA = tolG * nK + C * U * nG * nK
    errGm = C * U * (kW * norm2(np, G_m) + nK * nSa / wW[0])
    errSm = errGm * nK * nSa + C * U * nSa * (1 + nG * nK)
    errAm = errGm * nK
    wellS = nS > 0 and tolS / nS <= SKIP_REL
    ck.count("cond/well" if wellS else "cond/ill(skipped tight comparison)")

    def exc(name):
        v = real.get(name)
        return v[1] if isinstance(v, tuple) else None

    def shape_ok(name, shp):
        v = real.get(name)
        if v is None:
            return False
        if isinstance(v, tuple):
            # an exception on a well-conditioned valid input contradicts the property
            if wellS:
                bad.append(("exception", f"{name}: real code raised {v[1]} for n={n} m={m} (SPD inputs, cond(Sa)={ka:.3g}, cond(Sy)={ky:.3g})"))
            return False
        if v.shape != shp:
            bad.append(("shape", f"{name}: shape {v.shape}, expected {shp} (n={n}, m={m})"))
            return False
        if not np.all(np.isfinite(v)):
            if wellS:
                bad.append(("nonfinite", f"{name}: non-finite entries for n={n} m={m}"))
            return False
        return True

    def cmp(name, got, want, tol, scale, what):
        """norm-wise comparison; skipped when the bound is too weak to mean anything"""
        if scale > 0 and tol / scale > SKIP_REL:
            ck.count("skipped/" + name)
            return
        err = norm2(np, got - want)
        ck.count("compared/" + name)
        if tol > 0 and hasattr(ck, "extra_cov"):
            mx = ck.extra_cov.setdefault("max_error_over_bound", {})
            mx[name] = max(mx.get(name, 0.0), round(err / tol, 6))
        if err > tol + 1e-300:
            bad.append((name, f"{what}: ‖real − reference‖₂ = {err:.3e} > bound {tol:.3e} (reference norm {scale:.3e}; n={n}, m={m}, "
                              f"cond Sa={ka:.2e} Sy={ky:.2e} M={kM:.2e})"))

    okS, okG, okA = shape_ok("S", (n, n)), shape_ok("G", (n, m)), shape_ok("A", (n, n))
    if okS:
        S = real["S"]
        cmp("S_n_form", S, S_n, tolS, nS, "error_covariance_matrix vs (Kᵀ Sy⁻¹ K + Sa⁻¹)⁻¹")
        cmp("S_m_form", S, S_m, tolS + errSm, nS, "error_covariance_matrix vs Sa − Sa Kᵀ (K Sa Kᵀ + Sy)⁻¹ K Sa")
        cmp("S_symmetric", S, S.T, 2 * tolS, nS, "error_covariance_matrix is not symmetric")
        if wellS:
            Ss = (S + S.T) / 2
            wS = np.linalg.eigvalsh(S_n)
            if wS[0] > 10 * tolS:
                ck.count("compared/S_posdef")
                try:
                    np.linalg.cholesky(Ss)
                except np.linalg.LinAlgError:
                    bad.append(("S_posdef", f"error_covariance_matrix is not positive definite (Cholesky fails; smallest reference eigenvalue {wS[0]:.3e}; n={n}, m={m})"))
            dmin = float(np.linalg.eigvalsh((S_a - Ss + (S_a - Ss).T) / 2)[0])
            ck.count("compared/S_le_Sa")
            if dmin < -(tolS + C * U * nSa):
                bad.append(("S_le_Sa", f"S_a − S has eigenvalue {dmin:.3e} < 0 (bound {tolS + C * U * nSa:.3e}; n={n}, m={m})"))
    if okG:
        G = real["G"]
        cmp("G_n_form", G, G_n, tolG, max(nG, nS * nK * nYi * 1e-6), "retrieval_gain_matrix vs S Kᵀ Sy⁻¹")
        cmp("G_m_form", G, G_m, tolG + errGm, max(nG, nS * nK * nYi * 1e-6), "retrieval_gain_matrix vs Sa Kᵀ (K Sa Kᵀ + Sy)⁻¹")
    if okA:
        A = real["A"]
        sclA = max(norm2(np, A_n), nG * nK * 1e-6, 1e-300)
        if okG:
            cmp("A_eq_GK", A, real["G"] @ K, C * U * nG * nK, sclA if nG * nK == 0 else max(sclA, nG * nK), "averaging_kernel_matrix vs retrieval_gain_matrix @ K")
        cmp("A_ref", A, A_n, tolA, sclA, "averaging_kernel_matrix vs reference G K (n-form)")
        cmp("A_m_form", A, A_m, tolA + errAm, sclA, "averaging_kernel_matrix vs reference G K (m-form)")
        if okS:
            one_sub = In - np.linalg.solve(S_a, real["S"].T).T          # I − S Sa⁻¹
            tol1 = tolA + tolS * nAi + C * U * ka * nS * nAi
            cmp("A_eq_one_sub", A, one_sub, tol1, 1.0, "averaging_kernel_matrix vs I − S Sa⁻¹")
        # eigenvalues in [0, 1): A is similar to the symmetric S^{1/2} P S^{1/2} through S^{1/2}
        wS = np.linalg.eigvalsh(S_n)
        if wS[0] > 0:
            tolE = math.sqrt(wS[-1] / wS[0]) * (tolA + C * U * max(norm2(np, A), 1.0))
            if tolE <= SKIP_REL:
                ev = np.linalg.eigvals(A)
                ck.count("compared/A_eigenvalues")
                gap = wS[0] / nSa                      # 1 − λmax(A) = λmin(S Sa⁻¹) ≥ λmin(S)/λmax(Sa)
                if float(np.max(np.abs(ev.imag))) > tolE or float(ev.real.min()) < -tolE or float(ev.real.max()) > 1 - gap + tolE \
                        or (gap > 10 * tolE and not float(ev.real.max()) < 1):
                    bad.append(("A_eigenvalues", f"eigenvalues of the averaging kernel not in [0,1): min Re {ev.real.min():.6g}, max Re {ev.real.max():.6g}, "
                                                 f"max |Im| {np.max(np.abs(ev.imag)):.3g} (tolerance {tolE:.3g}; n={n}, m={m})"))
            else:
                ck.count("skipped/A_eigenvalues")
    # ---- linear maps
    x, x_a, x2, x_a2 = (np.array(case[k], dtype=float) for k in ("x", "x_a", "x2", "x_a2"))
    e, e2 = np.array(case["e_y"], dtype=float), np.array(case["e_y2"], dtype=float)
    c = float(case["c"])
    if okA and all(shape_ok(k, (n,)) for k in ("s", "s2", "s_sum", "s_c")):
        A = real["A"]
        nA = norm2(np, A)
        nx = float(np.linalg.norm(x) + np.linalg.norm(x_a) + np.linalg.norm(x2) + np.linalg.norm(x_a2))
        tl = C * U * nA * nx * (1 + abs(c))
        ref = np.array([math.fsum(A[i, j] * (x[j] - x_a[j]) for j in range(n)) for i in range(n)])
        ck.count("compared/smoothing")
        if norm2(np, real["s"] - ref) > tl + 1e-300:
            bad.append(("smoothing_error", f"smoothing_error(x, x_a, A) differs from A (x − x_a) by {norm2(np, real['s'] - ref):.3e} (n={n})"))
        if norm2(np, real["s_sum"] - (real["s"] + real["s2"])) > tl + 1e-300:
            bad.append(("smoothing_error", f"smoothing_error is not additive (n={n})"))
        if norm2(np, real["s_c"] - c * real["s"]) > tl + 1e-300:
            bad.append(("smoothing_error", f"smoothing_error is not homogeneous (c={c!r}, n={n})"))
        if shape_ok("s_col", (n, 1)) and norm2(np, real["s_col"][:, 0] - real["s"]) > tl + 1e-300:
            bad.append(("smoothing_error", f"smoothing_error on column vectors differs from the 1-d result (n={n})"))
    if okG and all(shape_ok(k, (n,)) for k in ("r", "r2", "r_sum", "r_c")):
        ne = float(np.linalg.norm(e) + np.linalg.norm(e2))
        scl = nG * ne * (1 + abs(c))
        tl = (tolG + C * U * nG) * ne * (1 + abs(c))
        if scl == 0 or tl / scl <= SKIP_REL:
            ref = G_n @ e
            ck.count("compared/noise")
            if norm2(np, real["r"] - ref) > tl + 1e-300:
                bad.append(("retrieval_noise", f"retrieval_noise differs from G e_y by {norm2(np, real['r'] - ref):.3e} (bound {tl:.3e}; n={n}, m={m})"))
            if norm2(np, real["r_sum"] - (real["r"] + real["r2"])) > tl + 1e-300:
                bad.append(("retrieval_noise", f"retrieval_noise is not additive in e_y (n={n}, m={m})"))
            if norm2(np, real["r_c"] - c * real["r"]) > tl + 1e-300:
                bad.append(("retrieval_noise", f"retrieval_noise is not homogeneous in e_y (c={c!r}; n={n}, m={m})"))
    # ---- limits (only where everything is benign)
    if limits and okA and ka <= 1e3 and ky <= 1e3:
        sK = np.linalg.svd(K, compute_uv=False) if K.size else np.array([0.0])
        # vanishing prior variance: ‖A(ε Sa)‖ ≤ ε ‖Sa‖ ‖K‖² ‖Sy⁻¹‖  → 0
        for eps in (1e-2, 1e-4, 1e-6):
            bound = eps * nSa * nK ** 2 * nYi
            if bound > 1e-1:
                continue
            try:
                with warnings.catch_warnings():
                    warnings.simplefilter("ignore")
                    Ae = np.asarray(oem.averaging_kernel_matrix(K, eps * S_a, S_y))
            except Exception as ex:  # noqa: BLE001
                bad.append(("exception", f"averaging_kernel_matrix raised {type(ex).__name__} for S_a scaled by {eps} (n={n}, m={m})"))
                break
            ck.count("compared/limit_prior_to_zero")
            slack = 1e-9 + 1e3 * C * U * ka * ky * (1 + bound)
            if not norm2(np, Ae) <= bound * (1 + 1e-6) + slack:
                bad.append(("limit_prior", f"‖A‖ = {norm2(np, Ae):.3e} for S_a scaled by {eps}: exceeds ε‖Sa‖‖K‖²‖Sy⁻¹‖ = {bound:.3e} — A does not tend to 0 (n={n}, m={m})"))
        # vanishing noise, full column rank: ‖I − A(ε Sy)‖ ≤ ε ‖(Kᵀ Sy⁻¹ K)⁻¹‖ ‖Sa⁻¹‖ → 0
        if m >= n and sK[-1] > 0 and sK[0] / sK[-1] <= 1e3 and len(sK) == n:
            wP = np.linalg.eigvalsh(P)
            if wP[0] > 0:
                for eps in (1e-2, 1e-4, 1e-6):
                    bound = eps / wP[0] * nAi
                    condM = (wP[-1] / eps + nAi) / (wP[0] / eps)
                    if bound > 1e-1 or condM * ka * ky > 1e9:
                        continue
                    try:
                        with warnings.catch_warnings():
                            warnings.simplefilter("ignore")
                            Ae = np.asarray(oem.averaging_kernel_matrix(K, S_a, eps * S_y))
                    except Exception as ex:  # noqa: BLE001
                        bad.append(("exception", f"averaging_kernel_matrix raised {type(ex).__name__} for S_y scaled by {eps} (n={n}, m={m})"))
                        break
                    ck.count("compared/limit_noise_to_zero")
                    slack = 1e-9 + 1e3 * C * U * condM * ka * ky
                    if not norm2(np, In - Ae) <= bound * (1 + 1e-6) + slack:
                        bad.append(("limit_noise", f"‖I − A‖ = {norm2(np, In - Ae):.3e} for S_y scaled by {eps}: exceeds ε‖(KᵀSy⁻¹K)⁻¹‖‖Sa⁻¹‖ = {bound:.3e} — A does not tend to I (n={n}, m={m})"))
    tols = {"S": (tolS, nS), "G": (tolG, max(nG, nS * nK * nYi * 1e-6)), "A": (tolA, max(norm2(np, A_n), nG * nK * 1e-6, 1e-300)),
            "r": ((tolG + C * U * nG) * float(np.linalg.norm(e)), nG * float(np.linalg.norm(e)))}
    real["_tols"] = tols
    return bad, real


# ----------------------------------------------------------------------------- glue: dtype variants, purity, layout
def check_glue(np, oem, ck, case, real, tols):
    """tols: name -> (absolute 2-norm tolerance, reference scale) for S, G, A, r.
    (1) arguments in non-float64 dtypes give the same values as the same call on the
        float64-converted values; (2) arguments are not modified, a second identical call returns
        the identical result, re-laid-out inputs (Fortran order / strided / negative strides /
        read-only) give the same values."""
    import numlib
    bad = []
    names = {"S": "error_covariance_matrix", "G": "retrieval_gain_matrix", "A": "averaging_kernel_matrix", "r": "retrieval_noise"}
    dts = case.get("dtypes", {})
    usable = {k: v for k, v in tols.items() if v[1] == 0 or v[0] / v[1] <= SKIP_REL}
    if any(v != "float64" for v in dts.values()):
        real64 = call_real(np, oem, case, f64=True)
        for k, (tol, scale) in usable.items():
            a, b = real.get(k), real64.get(k)
            if a is None or b is None or isinstance(b, tuple):
                continue
            if isinstance(a, tuple):
                bad.append(("dtype", f"{names[k]} raised {a[1]} for dtypes {dts}, but returns a value for the same values as float64"))
                continue
            if a.shape != b.shape:
                continue
            ck.count("glue/dtype-variant-vs-float64")
            err = norm2(np, a.astype(float) - b)
            if err > 2 * tol + 1e-300:
                bad.append(("dtype", f"{names[k]} with dtypes {dts} differs from the same call on the float64-converted values by {err:.3e} "
                                     f"(bound {2 * tol:.3e}, scale {scale:.3e}; n={case['n']}, m={case['m']})"))
    K, S_a, S_y, e = arr(np, case, "K").reshape(case["m"], case["n"]), arr(np, case, "S_a"), arr(np, case, "S_y"), arr(np, case, "e_y")
    calls = [("S", oem.error_covariance_matrix, [K, S_a, S_y]), ("G", oem.retrieval_gain_matrix, [K, S_a, S_y]),
             ("A", oem.averaging_kernel_matrix, [K, S_a, S_y]), ("r", oem.retrieval_noise, [K, S_a, S_y, e])]
    A = real.get("A")
    if A is not None and not isinstance(A, tuple) and A.shape == (case["n"], case["n"]):
        nx = float(np.linalg.norm(arr(np, case, "x", True)) + np.linalg.norm(arr(np, case, "x_a", True)))
        usable["s"] = (20 * max(case["n"], 1) * 2.3e-16 * norm2(np, A) * nx, norm2(np, A) * nx)
        names["s"] = "smoothing_error"
        calls.append(("s", oem.smoothing_error, [arr(np, case, "x"), arr(np, case, "x_a"), np.array(A, dtype=float)]))
    for k, fn, args in calls:
        if k not in usable or isinstance(real.get(k), tuple) or real.get(k) is None:
            continue
        tol = usable[k][0]
        work = [a.copy() for a in args]
        before = [a.copy() for a in work]
        try:
            with warnings.catch_warnings():
                warnings.simplefilter("ignore")
                r1 = np.array(fn(*work), copy=True)
                if any(not np.array_equal(a, b) for a, b in zip(work, before)):
                    i = [not np.array_equal(a, b) for a, b in zip(work, before)].index(True)
                    bad.append(("argument-modified", f"{names[k]} modified its argument #{i} in place (n={case['n']}, m={case['m']})"))
                    continue
                r2 = np.asarray(fn(*work))
                if r1.shape != r2.shape or not np.array_equal(r1, r2):
                    bad.append(("not-repeatable", f"{names[k]}: a second identical call returned a different result (n={case['n']}, m={case['m']})"))
                    continue
                laid, tags = zip(*[numlib.relayout(np, ck.rng, a) for a in before])
                try:
                    r3 = np.asarray(fn(*laid))
                except Exception as ex:  # noqa: BLE001
                    bad.append(("layout-raised", f"{names[k]} raised {type(ex).__name__} for the same values in memory layout {list(tags)}"))
                    continue
        except Exception:  # noqa: BLE001  (the plain call already classified exceptions)
            continue
        ck.count("glue/pure+layout")
        if r3.shape != r1.shape or norm2(np, r3.astype(float) - r1.astype(float)) > 2 * tol + 1e-300:
            bad.append(("layout-dependent", f"{names[k]}: the same values in memory layout {list(tags)} give a different result "
                                            f"(‖Δ‖₂ = {norm2(np, r3.astype(float) - r1.astype(float)) if r3.shape == r1.shape else float('nan'):.3e}, bound {2 * tol:.3e})"))
    return bad


# ----------------------------------------------------------------------------- oracle (b): exact rationals
def fro(M):
    if M and isinstance(M[0], list):
        return math.sqrt(sum(float(a) ** 2 for r in M for a in r))
    return math.sqrt(sum(float(a) ** 2 for a in M))


def exact_reference(case):
    import fracmat as F
    K, Sa, Sy = F.mat(case["K"]), F.mat(case["S_a"]), F.mat(case["S_y"])
    n, m = case["n"], case["m"]
    if not K:
        K = []
    Kt = F.transpose(K) if K and K[0] else [[] for _ in range(n)]
    Syi, Sai = F.inv(Sy), F.inv(Sa)
    S = F.inv(F.add(F.matmul(F.matmul(Kt, Syi), K), Sai))
    G = F.matmul(F.matmul(S, Kt), Syi)
    W = F.add(F.matmul(F.matmul(K, Sa), Kt), Sy)
    Gm = F.matmul(F.matmul(Sa, Kt), F.inv(W))
    A = F.matmul(G, K)
    A1 = F.sub(F.eye(n), F.matmul(S, Sai))
    if G != Gm or A != A1 or S != F.transpose(S):
        raise vlib.InfraError("exact oracle inconsistent with itself (n-form vs m-form) — bug in the harness")
    x, xa, e = F.vec(case["x"]), F.vec(case["x_a"]), F.vec(case["e_y"])
    return {"S": S, "G": G, "A": A, "s": F.mulvec(A, F.sub(x, xa)), "r": F.mulvec(G, e),
            "scaleG": fro(S) * fro(K) * fro(Syi), "scaleA": fro(S) * fro(K) ** 2 * fro(Syi)}


def check_int(np, oem, ck, case, frac_model):
    import fracmat as F
    bad = []
    # float64-level accuracy unless a covariance matrix is float32 (then single precision results are legitimate)
    rtol = 2e-3 if all_float32(case) else 1e-9
    n, m = case["n"], case["m"]
    real = call_real(np, oem, case)
    ex = exact_reference(case)
    scales = {"S": fro(ex["S"]), "G": ex["scaleG"], "A": max(ex["scaleA"], 0.0),
              "s": ex["scaleA"] * (fro(case["x"]) + fro(case["x_a"])), "r": ex["scaleG"] * fro(case["e_y"])}
    shapes = {"S": (n, n), "G": (n, m), "A": (n, n), "s": (n,), "r": (n,)}
    names = {"S": "error_covariance_matrix", "G": "retrieval_gain_matrix", "A": "averaging_kernel_matrix",
             "s": "smoothing_error", "r": "retrieval_noise"}
    for k in ("S", "G", "A", "s", "r"):
        v = real.get(k)
        if v is None:
            continue
        if isinstance(v, tuple):
            bad.append(("exception", f"{names[k]}: real code raised {v[1]} on a small exactly representable SPD input, dtypes {case.get('dtypes') or 'float64'} (n={n}, m={m})"))
            continue
        if v.shape != shapes[k]:
            bad.append(("shape", f"{names[k]}: shape {v.shape}, expected {shapes[k]} (n={n}, m={m})"))
            continue
        want = np.array(F.tofloat(ex[k]), dtype=float).reshape(shapes[k])
        err = float(np.linalg.norm((v - want).ravel()))
        ck.count("exact/" + k)
        if not err <= rtol * scales[k] + 1e-300:
            bad.append((("exact_" + k), f"{names[k]} differs from the exact rational value by {err:.3e} (scale {scales[k]:.3e}, dtypes {case.get('dtypes', 'float64')}; n={n}, m={m})"))
    # cross-run of the translated model (Fraction dialect) against the real code
    real["_tols"] = {k: (rtol * scales[k], scales[k]) for k in ("S", "G", "A", "r")}
    if frac_model is not None and rtol == 1e-9:
        K, Sa, Sy = F.mat(case["K"]), F.mat(case["S_a"]), F.mat(case["S_y"])
        if m and n:
            margs = {"error_covariance_matrix": ("S", (K, Sa, Sy)), "retrieval_gain_matrix": ("G", (K, Sa, Sy)),
                     "averaging_kernel_matrix": ("A", (K, Sa, Sy)),
                     "retrieval_noise": ("r", (K, Sa, Sy, F.vec(case["e_y"])))}
            for fn, (k, args) in margs.items():
                _xrun(np, ck, frac_model, fn, args, real.get(k), scales[k], shapes[k], case)
                # counter-model search when a proof is broken: the statement of the identities is
                # evaluated exactly through the regenerated model
                if getattr(ck, "build_ok", None) is False and hasattr(frac_model, fn) and len(ck.notes) < 4:
                    try:
                        mv = getattr(frac_model, fn)(*args)
                    except Exception as e:  # noqa: BLE001
                        mv = f"raises {type(e).__name__}"
                    if mv != ex[k]:
                        ck.notes.append(f"counter-model: regenerated {fn} contradicts its defining identity exactly at "
                                        f"K={case['K']} S_a={case['S_a']} S_y={case['S_y']}")
            if not isinstance(real.get("A"), tuple) and real.get("A") is not None and real["A"].shape == (n, n):
                # smoothing_error is cross-run on the exact A (integers scaled): use the real A converted exactly
                Afr = [[F.Fraction(float(a)) for a in row] for row in real["A"].tolist()]
                _xrun(np, ck, frac_model, "smoothing_error", (F.vec(case["x"]), F.vec(case["x_a"]), Afr), real.get("s"),
                      max(scales["s"], 1e-300), shapes["s"], case)
    return bad, real


def _xrun(np, ck, frac_model, fn, args, realv, scale, shape, case):
    import fracmat as F
    f = getattr(frac_model, fn, None)
    if f is None:
        ck.count("xrun/absent(refused)")
        return
    try:
        mv = f(*args)
        model = np.array(F.tofloat(mv), dtype=float)
        mexc = None
    except F.Singular:
        model, mexc = None, "Singular"
    except ValueError as e:
        model, mexc = None, "ValueError"
    if realv is None:
        return
    if isinstance(realv, tuple):
        if mexc is None:
            ck.disagree(f"{fn}: real code raised {realv[1]}, the translated model returns a value", _brief(case))
        return
    if mexc is not None:
        ck.disagree(f"{fn}: translated model fails ({mexc}), the real code returns a value", _brief(case))
        return
    ck.count("xrun/compared")
    if model.shape != realv.shape:
        ck.disagree(f"{fn}: translated model has shape {model.shape}, real code {realv.shape}", _brief(case))
        return
    err = float(np.linalg.norm((model - realv).ravel()))
    if not err <= 1e-9 * scale + 1e-300:
        ck.disagree(f"{fn}: translated model (exact Fractions) and real code differ by {err:.3e} (scale {scale:.3e})", _brief(case))


def _brief(case):
    return {k: case[k] for k in ("kind", "n", "m", "K", "S_a", "S_y", "x", "x_a", "e_y") if k in case}


# ----------------------------------------------------------------------------- driver
def run_case(np, oem, ck, case, frac_model, origin="generated"):
    if case.get("kind") in ("int", "dtype"):
        bad, real = check_int(np, oem, ck, case, frac_model)
        # the double-precision oracle applies to integer matrices as well
        bad2, _ = check_float(np, oem, ck, case, limits=False)
        bad += bad2
    else:
        bad, real = check_float(np, oem, ck, case)
    bad += check_glue(np, oem, ck, case, real, real.get("_tols", {}))
    A = real.get("A")
    dfs = float(np.trace(A)) if A is not None and not isinstance(A, tuple) and A.ndim == 2 and A.shape[0] == A.shape[1] else None
    n, m = case["n"], case["m"]
    kinds = case.get("kinds", ["?", "?", "?"])
    nz = any(any(v != 0 for v in row) for row in case["K"])
    cls = "under" if m < n else "square" if m == n else "over"
    key = (case.get("kind"), n, m, kinds[0], hash(json.dumps(case["K"]))) if nz else None
    ck.case(key=key, kind=f"{case.get('kind')}/{cls}/K={kinds[0]}",
            sample={"n": n, "m": m, "K_kind": kinds[0], "Sa_kind": kinds[1], "Sy_kind": kinds[2], "origin": origin,
                    "trace_A(degrees of freedom for signal)": dfs})
    seen = set()
    for sig, msg in bad:
        if sig in seen:
            continue
        seen.add(sig)
        ck.violation(sig if sig in ("exception", "shape", "dtype", "argument-modified", "not-repeatable", "layout-raised", "layout-dependent")
                     else "other", msg, small_case(case))
    return bad


def explore(ck, np, oem, n_float, n_int, frac_model):
    for i in range(n_int):
        run_case(np, oem, ck, gen_int_case(ck, i), frac_model)
    for i in range(max(n_int // 2, 28)):
        run_case(np, oem, ck, gen_dtype_case(ck, i), frac_model)
    for i in range(n_float):
        run_case(np, oem, ck, gen_case(np, ck, i), None)


def main():
    ck = vlib.Check(PROP, pkg="oem", props="Proofs.Props.C17", driver=None,
                    lemma_files=["Proofs/Lemmas/Oem.lean", "Proofs/Lemmas/OemSpectrum.lean", "Proofs/Lemmas/OemLimits.lean"], model_files=["GenReal/Oem.lean"],
                    trusted=["tools/py2lean/py2lean_matrix.py + gen_oem.py (translator): the emitted Lean term is the exact real-matrix reading of the Python expression "
                             "(`@` ↦ Matrix product / mulVec, `.T` ↦ transpose, scipy.linalg.inv ↦ Matrix.inv under IsUnit det); validated each run by evaluating the "
                             "SAME expression trees in exact Fractions (GenFrac/oem_frac.py) against the real code on integer matrices, and pinned by the normal-form lemmas "
                             "that restate every generated definition in hand-written Mathlib notation",
                             "scipy.linalg.inv / LAPACK / BLAS floating-point error is modelled by exact real arithmetic, not verified (validated by the oracle with "
                             "condition-number-scaled tolerances)",
                             "numpy glue (1-d vs column vectors, dtype promotion) exercised by the harness only"],
                    assumptions=["S_a, S_y symmetric positive definite with condition number ≤ 1e8; state dimension 1..30, measurement dimension 1..40; any K",
                                 "limit claims are proved as Tendsto statements / validated at ε = 1e-2, 1e-4, 1e-6 on well-conditioned cases"])
    ck.rule = ("shapes n∈1..30 × m∈1..40 (under-/over-determined, square, 1×1, 30×40), SPD covariances diagonal / Q·diag·Qᵀ / D·C·D with scales 1e-4..1e4 and "
               "condition numbers up to 1e8, Jacobians gaussian / rank-deficient / zero / duplicated columns / sparse / row-scaled; plus integer matrices n,m ≤ 4 checked in "
               "exact rationals; non-trivial = distinct non-zero Jacobian (by content) per shape and kind")
    ck.anchors([("typhon/retrieval/oem/common.py", "error_covariance_matrix"),
                ("typhon/retrieval/oem/common.py", "retrieval_gain_matrix"),
                ("typhon/retrieval/oem/common.py", "averaging_kernel_matrix"),
                ("typhon/retrieval/oem/error.py", "smoothing_error"),
                ("typhon/retrieval/oem/error.py", "retrieval_noise")])
    regenerate(ck)
    pre_broken = ck.build_ok is False
    ck.build()
    if pre_broken:
        ck.build_ok = False
    import numpy as np
    import typhon.retrieval.oem as oem
    try:                                   # tiny matrices: BLAS threads only cost time
        import threadpoolctl
        threadpoolctl.threadpool_limits(1)
    except Exception:  # noqa: BLE001
        pass
    try:
        frac_model = load_frac_model()
    except Exception as e:  # noqa: BLE001
        frac_model = None
        ck.notes.append(f"Fraction model not loadable: {type(e).__name__}: {e}")
        ck.broken_obligations.append("generated Fraction model not loadable")
        ck.build_ok = False
    for name, obj in vlib.load_corpus(PROP):
        run_case(np, oem, ck, obj["case"] if "case" in obj else obj, frac_model, origin="corpus/" + name)
    explore(ck, np, oem, ck.budget(90, 12000), ck.budget(60, 4000), frac_model)
    if ck.broken() and not ck.violations:
        ck.notes.append("proof/tie broken: failing-input search with the thorough budget")
        explore(ck, np, oem, 3000, 1500, frac_model)
    ck.finish()


def replay(path):
    obj = json.load(open(path))
    case = obj.get("case")
    if not case:
        print("no concrete case in replay file:", obj.get("broken_obligations"))
        raise SystemExit(0)
    import numpy as np
    import typhon.retrieval.oem as oem

    class _Null:
        def count(self, *a, **k):
            pass
    import random
    nul = _Null()
    nul.rng = random.Random(0)
    if case.get("kind") in ("int", "dtype"):
        bad, real = check_int(np, oem, nul, case, None)
        bad += check_float(np, oem, nul, case, limits=False)[0]
    else:
        bad, real = check_float(np, oem, nul, case)
    for _ in range(5):                      # several memory layouts
        bad += check_glue(np, oem, nul, case, real, real.get("_tols", {}))
    print(f"n={case['n']} m={case['m']} kinds={case.get('kinds')}")
    for sig, msg in bad:
        print("REPRODUCED:", sig, "—", msg)
    raise SystemExit(1 if bad else 0)
