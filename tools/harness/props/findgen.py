"""Shared generators for C01 / C16: path templates from a token grammar, file populations,
creation of the directory tree (local and inside a zip archive), protocol lines for the
Lean drivers lean/find/Driver/*.lean and the independent brute-force selection oracle.

Nothing here imports typhon except `make_fileset`.
"""
import calendar
import datetime as dt
import os
import re
import zipfile

MIN = dt.datetime.min
MAX = dt.datetime.max
US = dt.timedelta(microseconds=1)
DIR_FIELDS = ("year", "year2", "month", "day", "doy", "hour")
RES_TD = {"year": dt.timedelta(days=366), "month": dt.timedelta(days=31), "day": dt.timedelta(days=1),
          "hour": dt.timedelta(hours=1)}
UNIT_US = {"day": 86400_000_000, "hour": 3600_000_000, "minute": 60_000_000, "second": 1_000_000,
           "millisecond": 1000, "microsecond": 1}
SPECIAL = set("{*[<(?!|\\")


def us(t):
    return (t - MIN) // US


def from_us(n):
    return MIN + dt.timedelta(microseconds=n)


def iso(t):
    return None if t is None else t.isoformat()


def from_iso(s):
    return None if s is None else dt.datetime.fromisoformat(s)


# ---------------------------------------------------------------- templates
def tokenize(text):
    """'{year}_x*' -> [('f','year'), ('lit','_x'), ('star',)]; user placeholders -> ('u',name)"""
    out = []
    for m in re.finditer(r"\{(\w+)\}|\*|[^{*]+", text):
        s = m.group(0)
        if s == "*":
            out.append(("star",))
        elif s.startswith("{"):
            name = m.group(1)
            base = name[4:] if name.startswith("end_") else name
            if base in ("year", "year2", "month", "day", "doy", "hour", "minute", "second", "millisecond", "microsecond"):
                out.append(("f", name))
            else:
                out.append(("u", name))
        else:
            out.append(("lit", s))
    return out


class Template:
    """dirs: list of chunk strings (the sub-directory part, first chunk holds a special
    character), prefix: literal text glued in front of the first chunk (part of the base
    directory name), name: file part"""

    def __init__(self, dirs, name, prefix=""):
        self.dirs = list(dirs)
        self.name = name
        self.prefix = prefix
        self.dir_tokens = [tokenize(c) for c in self.dirs]
        self.name_tokens = tokenize(name)

    def text(self):
        return self.prefix + "/".join(self.dirs + [self.name])

    def to_json(self):
        return {"dirs": self.dirs, "name": self.name, "prefix": self.prefix}

    @staticmethod
    def from_json(o):
        return Template(o["dirs"], o["name"], o.get("prefix", ""))

    def chunk_is_lit(self, k):
        return not any(ch in SPECIAL for ch in self.dirs[k])

    def chunk_fields(self, k):
        return [t[1] for t in self.dir_tokens[k] if t[0] == "f"]

    def dir_field_set(self):
        return {f for k in range(len(self.dirs)) for f in self.chunk_fields(k)}

    def subdir_res(self):
        """_sub_dir_time_resolution as the path setter derives it (None without sub-directory part)"""
        if not self.dirs:
            return None
        return RES_TD[self.res_name(self.dir_field_set())]

    @staticmethod
    def res_name(fields):
        if "hour" in fields:
            return "hour"
        if "day" in fields or "doy" in fields:
            return "day"
        if "month" in fields:
            return "month"
        return "year"

    def has_temporal_dirs(self):
        return bool(self.dir_field_set())

    def users(self):
        return sorted({t[1] for toks in self.dir_tokens + [self.name_tokens] for t in toks if t[0] == "u"})

    def n_stars(self):
        return sum(1 for toks in self.dir_tokens + [self.name_tokens] for t in toks if t[0] == "star")

    def start_unit(self):
        """resolution of the start time the whole path encodes"""
        fields = {t[1] for toks in self.dir_tokens + [self.name_tokens] for t in toks if t[0] == "f" and not t[1].startswith("end_")}
        for u in ("microsecond", "millisecond", "second", "minute", "hour"):
            if u in fields:
                return u
        return "day"

    def end_fields(self):
        return [t[1][4:] for t in self.name_tokens if t[0] == "f" and t[1].startswith("end_")]

    def is_temporal(self):
        return any(t[0] == "f" for toks in self.dir_tokens + [self.name_tokens] for t in toks)

    def layout_line(self):
        parts = []
        for k in range(len(self.dirs)):
            parts.append("L" if self.chunk_is_lit(k) else "P:" + ",".join(self.chunk_fields(k)))
        return "layout " + " ".join(parts) if parts else "layout"


def fmt_field(name, t):
    return {"year": "%04d" % t.year, "year2": "%02d" % (t.year % 100), "month": "%02d" % t.month,
            "day": "%02d" % t.day, "doy": "%03d" % t.timetuple().tm_yday, "hour": "%02d" % t.hour,
            "minute": "%02d" % t.minute, "second": "%02d" % t.second,
            "millisecond": "%03d" % (t.microsecond // 1000), "microsecond": "%06d" % t.microsecond}[name]


FIELD_FMT = {"year": "%04d", "year2": "%02d", "month": "%02d", "day": "%02d", "doy": "%03d", "hour": "%02d"}


class File:
    """dir_over: {"<chunk index>:<field>": int} — value written into the directory name instead of
    the field of t0 (misplaced files / directories with impossible dates; the coverage t0, t1 is
    what the code parses from the whole path all the same)"""

    def __init__(self, fid, t0, t1, users, stars, dir_over=None):
        self.id, self.t0, self.t1, self.users, self.stars = fid, t0, t1, dict(users), list(stars)
        self.dir_over = dict(dir_over or {})
        self.rel = None

    def to_json(self):
        o = {"id": self.id, "t0": iso(self.t0), "t1": iso(self.t1), "users": self.users, "stars": self.stars}
        if self.dir_over:
            o["dir_over"] = self.dir_over
        return o

    @staticmethod
    def from_json(o):
        return File(o["id"], from_iso(o["t0"]), from_iso(o["t1"]), o["users"], o["stars"], o.get("dir_over"))

    def dir_value(self, k, field):
        key = f"{k}:{field}"
        if key in self.dir_over:
            return self.dir_over[key]
        return int(fmt_field(field, self.t0))

    def displaced(self):
        return any(v != int(fmt_field(key.split(":")[1], self.t0)) for key, v in self.dir_over.items())


def render(tpl, f):
    """relative path of file f (list of components), independent of typhon's get_filename"""
    si = 0
    comps = []
    for k, toks in enumerate(tpl.dir_tokens + [tpl.name_tokens]):
        s = ""
        for t in toks:
            if t[0] == "lit":
                s += t[1]
            elif t[0] == "f" and k < len(tpl.dir_tokens) and f"{k}:{t[1]}" in f.dir_over:
                s += FIELD_FMT[t[1]] % f.dir_over[f"{k}:{t[1]}"]
            elif t[0] == "f":
                s += fmt_field(t[1][4:], f.t1) if t[1].startswith("end_") else fmt_field(t[1], f.t0)
            elif t[0] == "u":
                s += f.users[t[1]]
            else:
                s += f.stars[si]
                si += 1
        comps.append(s)
    comps[0] = tpl.prefix + comps[0]
    return comps


def level_token(tpl, k, f):
    """what the regex of chunk k parses from the directory name of f"""
    if tpl.chunk_is_lit(k):
        return "-"
    tv, uv = {}, {}
    for t in tpl.dir_tokens[k]:
        if t[0] == "f" and t[1] not in tv:
            tv[t[1]] = f.dir_value(k, t[1])
        elif t[0] == "u" and t[1] not in uv:
            uv[t[1]] = f.users[t[1]]
    s = ",".join(f"{k_}={v}" for k_, v in tv.items())
    if uv:
        s += ";" + ";".join(f"{k_}={v}" for k_, v in uv.items())
    return s or "-"


def file_line(tpl, f):
    users = ";".join(f"{k}={v}" for k, v in sorted(f.users.items())) or "-"
    lv = " ".join(level_token(tpl, k, f) for k in range(len(tpl.dirs)))
    return f"file {f.id} {us(f.t0)} {us(f.t1)} {users} {lv}".rstrip()


def traversal_sorted(tpl, files):
    """order in which find() meets the files: directories level by level in glob (sorted) order"""
    return sorted(files, key=lambda f: tuple(f.rel))


# ---------------------------------------------------------------- template grammar
DIR_SCHEMES = [
    [], [], ["{year}"], ["{year}", "{month}"], ["{year}", "{month}", "{day}"], ["{year}", "{month}", "{day}"],
    ["{year}", "{month}", "{day}", "{hour}"], ["{year}", "{doy}"], ["{year}", "{doy}", "{hour}"],
    ["{year2}", "{month}", "{day}"], ["{year}{month}", "{day}"], ["{year}-{month}-{day}"], ["{year}", "{month}{day}"],
    ["{year}{month}{day}", "{hour}"], ["{year}", "{month}", "{day}{hour}"], ["{year}{doy}"], ["{year}", "{month}-{day}"],
    ["y{year}", "m{month}"], ["{year2}{month}"],
]
USER_VALUES = {"sat": ["A", "B", "AB", "NOAA", "MetOp"], "inst": ["mhs", "amsu", "m"], "ver": ["v1", "v2", "v10"]}
STAR_TEXTS = ["1", "2", "x", "tmp7"]


def gen_template(rng):
    dirs = list(rng.choice(DIR_SCHEMES))
    users = []
    n_extra = rng.choice([0, 0, 0, 1, 1, 2, 3])
    for _ in range(n_extra):
        if len(dirs) >= 4:
            break
        kind = rng.choice(["lit", "user", "star", "user", "mixed"])
        pos = rng.randint(0, len(dirs))
        if kind == "lit":
            if pos == 0:
                pos = 1
            if not dirs:
                continue
            dirs.insert(pos, rng.choice(["data", "l1b", "x.y"]))
        elif kind == "user":
            cand = [u for u in ("sat", "inst") if u not in users]
            if not cand:
                continue
            u = rng.choice(cand)
            users.append(u)
            dirs.insert(pos, "{" + u + "}")
        elif kind == "star":
            dirs.insert(pos, rng.choice(["*", "d*"]))
        else:
            if not dirs:
                continue
            k = rng.randrange(len(dirs))
            if "{" not in dirs[k]:
                continue
            cand = [u for u in ("sat", "inst") if u not in users]
            choice = rng.choice(["upre", "star", "litpre"])
            if choice == "upre" and cand:
                u = rng.choice(cand)
                users.append(u)
                dirs[k] = "{" + u + "}_" + dirs[k]
            elif choice == "star":
                dirs[k] = dirs[k] + "_*"
            else:
                dirs[k] = "p" + dirs[k]
    prefix = ""
    if dirs and rng.random() < 0.15:
        prefix = "pre_"
    # ---- file part
    dfields = {f for c in dirs for f in re.findall(r"\{(\w+)\}", c)} & set(DIR_FIELDS)
    temporal = True
    if not dfields and rng.random() < 0.06:
        temporal = False
    parts = []
    if temporal:
        repeat = rng.random() < 0.35
        date = []
        have_year = bool({"year", "year2"} & dfields)
        have_day = "doy" in dfields or ({"month", "day"} <= dfields)
        if repeat or not have_year:
            date.append("{year2}" if (not dfields and rng.random() < 0.1) else "{year}")
        if repeat or not have_day:
            if "doy" in dfields or (not ({"month", "day"} & dfields) and rng.random() < 0.2):
                if "doy" not in dfields or repeat:
                    date.append("{doy}")
            else:
                if repeat or "month" not in dfields:
                    date.append("{month}")
                if repeat or "day" not in dfields:
                    date.append("{day}")
        sep = rng.choice(["", "", "-"])
        datepart = sep.join(date)
        unit = rng.choice(["day", "hour", "minute", "minute", "second", "second", "millisecond", "microsecond"])
        tod = {"day": [], "hour": ["hour"], "minute": ["hour", "minute"], "second": ["hour", "minute", "second"],
               "millisecond": ["hour", "minute", "second", "millisecond"],
               "microsecond": ["hour", "minute", "second", "microsecond"]}[unit]
        if "hour" in dfields and not repeat and len(tod) > 1:
            tod = tod[1:]
        todpart = "".join("{" + f + "}" for f in tod)
        start = datepart + (rng.choice(["_", "T", ""]) if datepart and todpart else "") + todpart
        endkind = rng.choice(["none", "none", "none", "full", "full", "partial"])
        end = ""
        if endkind == "full":
            # the end inherits every field it does not name from the start: name all finer ones
            alltod = tod if ("hour" in tod or not tod) else ["hour"] + tod
            if not alltod and "hour" in dfields:
                alltod = ["hour"]
            ef = ["year", "month", "day"] + alltod
            end = "-" + "".join("{end_" + f + "}" for f in ef)
        elif endkind == "partial" and unit in ("minute", "second"):
            ef = ["hour", "minute"] + (["second"] if unit == "second" else [])
            end = "-" + "".join("{end_" + f + "}" for f in ef)
        if start or end:
            parts.append(start + end)
    cand = [u for u in ("sat", "inst", "ver")]
    if rng.random() < 0.35:
        u = rng.choice(cand)
        if rng.random() < 0.5:
            parts.insert(0, "{" + u + "}")
        else:
            parts.append("{" + u + "}")
    if rng.random() < 0.12:
        parts.append("r*")
    if not parts:
        parts.append("data")
    name = "_".join(parts) + rng.choice([".dat", ".dat", ".txt"])
    tpl = Template(dirs, name, prefix)
    if not any(ch in SPECIAL for ch in tpl.text()):
        tpl = Template(dirs, "{sat}_" + name, prefix)
    return tpl


def trunc_unit(t, unit):
    n = us(t)
    return from_us(n - n % UNIT_US[unit])


def month_end(y, m):
    return dt.datetime(y, m, calendar.monthrange(y, m)[1], 23, 59, 59, 999999) + US


def gen_origin(rng, tpl):
    fields = {t[1] for toks in tpl.dir_tokens + [tpl.name_tokens] for t in toks if t[0] == "f"}
    r = rng.random()
    if "year2" in fields or "end_year2" in fields:
        y = rng.choice([1965, 1999, 2000, 2001, 2015, 2063, rng.randint(1966, 2062)])
    elif r < 0.88:
        y = rng.randint(1995, 2035)
    elif r < 0.96:
        y = rng.choice([1900, 1999, 2000, 2100, 2400, 1677, 2262])
    else:
        y = rng.choice([3, 12, 999, 9000, 9997])
    kind = rng.choice(["random", "random", "monthend", "yearend", "leap", "feb", "midnight"])
    if kind == "monthend":
        o = month_end(y, rng.randint(1, 12))
    elif kind == "yearend":
        o = dt.datetime(y + 1, 1, 1)
    elif kind == "leap":
        yy = y - y % 4 if (y - y % 4) >= 4 else 4
        if "year2" in fields:
            yy = min(max(yy, 1968), 2060)
        o = dt.datetime(yy, 2, 29) if calendar.isleap(yy) else dt.datetime(yy, 3, 1)
    elif kind == "feb":
        o = dt.datetime(y, 3, 1)
    elif kind == "midnight":
        o = dt.datetime(y, rng.randint(1, 12), rng.randint(1, 28))
    else:
        o = dt.datetime(y, rng.randint(1, 12), rng.randint(1, 28), rng.randint(0, 23), rng.choice([0, 30, 59]))
    return o


def gen_population(rng, tpl, honour=True, max_files=40):
    """list of File objects (unique paths).  honour: every file lasts at most one
    sub-directory period (when the directory part holds temporal placeholders)"""
    for _ in range(20):
        try:
            return _gen_population(rng, tpl, honour, max_files)
        except OverflowError:       # origin too close to datetime.min / datetime.max: draw again
            continue
    return [], None


def _gen_population(rng, tpl, honour, max_files):
    if not tpl.is_temporal():
        files = []
        n = rng.randint(0, 8)
        for i in range(n):
            f = File(i, MIN, MAX, {u: rng.choice(USER_VALUES[u]) for u in tpl.users()},
                     [rng.choice(STAR_TEXTS) for _ in range(tpl.n_stars())])
            files.append(f)
        return _dedupe(tpl, files), None
    unit = tpl.start_unit()
    ef = tpl.end_fields()
    res = tpl.subdir_res() if tpl.has_temporal_dirs() else None
    origin = gen_origin(rng, tpl)
    n = rng.choice([0, 1, 2, 3, 5, 8, 12, 20, 30, max_files])
    n = min(n, max_files)
    base_step = {"year": [dt.timedelta(days=40), dt.timedelta(days=200), dt.timedelta(days=11)],
                 "month": [dt.timedelta(days=11), dt.timedelta(days=3), dt.timedelta(days=40)],
                 "day": [dt.timedelta(hours=5), dt.timedelta(hours=13), dt.timedelta(days=1), dt.timedelta(minutes=90)],
                 "hour": [dt.timedelta(minutes=7), dt.timedelta(minutes=30), dt.timedelta(hours=1), dt.timedelta(hours=5)]}
    resname = tpl.res_name(tpl.dir_field_set()) if tpl.dirs else rng.choice(["year", "month", "day", "hour"])
    step = rng.choice(base_step[resname])
    if UNIT_US[unit] > step // US:
        step = dt.timedelta(microseconds=UNIT_US[unit])
    back = rng.randint(0, max(1, n // 2))
    t = origin - back * step
    time_cov = None
    if not ef and rng.random() < 0.4:
        time_cov = rng.choice([step, step / 2, dt.timedelta(minutes=30), dt.timedelta(hours=1), dt.timedelta(days=1)])
        if res is not None and honour and time_cov > res:
            time_cov = res
        if res is not None and not honour:
            time_cov = res * rng.choice([2, 3]) + step
    durlaw = rng.choice(["zero", "step", "random", "res", "long"])
    if ef:
        eunit = "day" if ef == ["year", "month", "day"] else ("second" if "second" in ef else ("minute" if "minute" in ef else "hour"))
        if "millisecond" in ef:
            eunit = "millisecond"
        if "microsecond" in ef:
            eunit = "microsecond"
        partial = "year" not in ef
    files = []
    fid = 0
    y2 = any(t[0] == "f" and t[1].endswith("year2") for toks in tpl.dir_tokens + [tpl.name_tokens] for t in toks)
    for i in range(n):
        jitter = rng.choice([0, 0, 1, -1, 7]) * UNIT_US[unit]
        t0 = trunc_unit(t + dt.timedelta(microseconds=jitter), unit)
        if t0.year < 2 or t0.year > 9997 or (y2 and not (1965 <= t0.year <= 2063)):
            t = t + step * rng.choice([0, 1, 1, 1, 2, 3])
            continue
        if ef:
            cap = res if (res is not None and honour) else None
            if durlaw == "zero":
                d = dt.timedelta(0)
            elif durlaw == "step":
                d = step
            elif durlaw == "res" and res is not None:
                d = res - rng.choice([0, 0, 1]) * dt.timedelta(microseconds=UNIT_US[eunit])
            elif durlaw == "long":
                d = step * rng.choice([2, 3, 5])
            else:
                d = dt.timedelta(microseconds=rng.randint(0, max(1, (2 * step) // US)))
            if rng.random() < 0.15:                 # explicit zero-length coverage (end stamp == start stamp)
                d = dt.timedelta(0)                 # next to files that last / cross midnight
            if not honour and res is not None and rng.random() < 0.5:
                d = res + step * rng.choice([1, 2, 4])
            if cap is not None and d > cap:
                d = cap
            if partial and d >= dt.timedelta(days=1):
                d = dt.timedelta(days=1) - dt.timedelta(microseconds=UNIT_US[eunit])
            t1 = trunc_unit(t0 + d, eunit)
            if t1 < t0:
                t1 = t0 if eunit == unit else trunc_unit(t0, eunit) + dt.timedelta(microseconds=UNIT_US[eunit])
            if cap is not None and t1 - t0 > cap:
                t1 = trunc_unit(t0 + cap, eunit)
                if t1 < t0 or t1 - t0 > cap:
                    t = t + step
                    continue
            if partial and t1 - t0 >= dt.timedelta(days=1):
                t = t + step
                continue
        elif time_cov is not None:
            t1 = t0 + time_cov
        else:
            t1 = t0
        if t1.year > 9998:
            continue
        users = {u: rng.choice(USER_VALUES[u]) for u in tpl.users()}
        stars = [rng.choice(STAR_TEXTS) for _ in range(tpl.n_stars())]
        files.append(File(fid, t0, t1, users, stars))
        fid += 1
        if ef and rng.random() < 0.2:          # ties on the start: same t0, another (or no) duration
            d2 = rng.choice([dt.timedelta(0), dt.timedelta(microseconds=UNIT_US[eunit]), step, step * 2])
            if res is not None and honour and d2 > res:
                d2 = dt.timedelta(0)
            if partial and d2 >= dt.timedelta(days=1):
                d2 = dt.timedelta(0)
            t1b = trunc_unit(t0 + d2, eunit)
            if t1b >= t0 and t1b.year <= 9998 and (res is None or not honour or t1b - t0 <= res) \
                    and not (partial and t1b - t0 >= dt.timedelta(days=1)):
                files.append(File(fid, t0, t1b, users, stars))
                fid += 1
        if tpl.users() and rng.random() < 0.3:     # same start time under another placeholder value
            u2 = dict(users)
            k = rng.choice(tpl.users())
            u2[k] = rng.choice(USER_VALUES[k])
            files.append(File(fid, t0, t1, u2, stars))
            fid += 1
        t = t + step * rng.choice([0, 1, 1, 1, 2, 3])
    files = _dedupe(tpl, files)[:max_files]
    return files, time_cov


def _dedupe(tpl, files):
    seen, out = set(), []
    for f in files:
        f.rel = render(tpl, f)
        key = "/".join(f.rel)
        if key in seen:
            continue
        seen.add(key)
        out.append(f)
    for i, f in enumerate(out):
        f.id = i
    return out


def honours(tpl, files):
    """the placement precondition of C01 as the harness understands it"""
    if any(f.displaced() for f in files):
        return False
    if not tpl.has_temporal_dirs():
        return True
    res = tpl.subdir_res()
    return all(f.t1 - f.t0 <= res for f in files)


# ---------------------------------------------------------------- misplaced files, impossible directories
MISPLACED_TEMPLATES = [
    (["{year}", "{month}", "{day}"], "{year}{doy}_{hour}{minute}.dat"),
    (["{year}", "{month}", "{day}", "{hour}"], "{year}{doy}_{minute}{second}.dat"),
    (["{year}{month}{day}"], "{year}{doy}T{hour}{minute}.dat"),
    (["{sat}", "{year}", "{month}{day}"], "{year}{doy}_{hour}{minute}_{sat}.dat"),
    (["{year}", "{doy}"], "{month}{day}_{hour}{minute}.dat"),
    (["{year}", "{doy}", "*"], "{month}{day}_{hour}.dat"),
]
BAD_MONTH_DAY = [(2, 30), (2, 31), (4, 31), (13, 1), (0, 5), (6, 0), (12, 32), (2, 29)]


def gen_misplaced(rng, max_files=25):
    """agree-only stream: files sitting in another day's directory and directories whose name is
    not a date (2018/02/30, month 13, day 00, doy 000 / 366 / 367).  The coverage is still what
    the code parses: the name carries {year}{doy} (a doy overrides month/day of the directory)
    or, for {doy} directories, the directory's doy converted as the code does
    (datetime(year,1,1) + timedelta(doy-1), year kept)."""
    dirs, name = rng.choice(MISPLACED_TEMPLATES)
    tpl = Template(dirs, name)
    origin = gen_origin(rng, tpl)
    if origin.year < 1000 or origin.year > 9000:
        origin = origin.replace(year=rng.randint(1990, 2030), day=min(origin.day, 28))
    unit = tpl.start_unit()
    step = rng.choice([dt.timedelta(hours=5), dt.timedelta(hours=13), dt.timedelta(days=1), dt.timedelta(minutes=90)])
    doydir = "{doy}" in dirs
    files = []
    t = origin - rng.randint(0, 6) * step
    for i in range(rng.choice([2, 5, 9, 16, max_files])):
        t0 = trunc_unit(t, unit)
        t = t + step * rng.choice([0, 1, 1, 2, 3])
        users = {u: rng.choice(USER_VALUES[u]) for u in tpl.users()}
        stars = [rng.choice(STAR_TEXTS) for _ in range(tpl.n_stars())]
        over = {}
        if doydir:
            k = next(i_ for i_, c in enumerate(dirs) if "{doy}" in c)
            if rng.random() < 0.5:
                n = rng.choice([0, 0, 1, 59, 60, 365, 366, 366, 367])
                d0 = dt.datetime(t0.year, 1, 1) + dt.timedelta(days=n - 1)
                try:
                    t0 = t0.replace(month=d0.month, day=d0.day)      # the year stays, as coded
                except ValueError:
                    continue
                over[f"{k}:doy"] = n
        elif rng.random() < 0.55:
            if rng.random() < 0.5:
                other = t0 + dt.timedelta(days=rng.choice([-40, -1, 1, 1, 2, 31]))
                m, d = other.month, other.day
            else:
                m, d = rng.choice(BAD_MONTH_DAY)
            for k, c in enumerate(dirs):
                if "{month}" in c:
                    over[f"{k}:month"] = m
                if "{day}" in c:
                    over[f"{k}:day"] = d
        files.append(File(i, t0, t0, users, stars, over))
    return tpl, _dedupe(tpl, files)[:max_files]


def decoy_dirs(rng, tpl, files, n=3):
    """relative directory chains that hold no file: impossible dates next to the real directories"""
    out = []
    cand = [k for k in range(len(tpl.dirs)) if set(tpl.chunk_fields(k)) & {"month", "day", "doy", "hour"}]
    if not cand or not files:
        return out
    for _ in range(n):
        f = rng.choice(files)
        if f.t0.year < 2:
            continue
        k = rng.choice(cand)
        fld = rng.choice(sorted(set(tpl.chunk_fields(k)) & {"month", "day", "doy", "hour"}))
        val = {"month": [13, 0], "day": [0, 30, 31, 32], "doy": [0, 366, 367], "hour": [24, 23]}[fld]
        g = File(-1, f.t0, f.t1, f.users, f.stars, dict(f.dir_over, **{f"{k}:{fld}": rng.choice(val)}))
        out.append(render(tpl, g)[:k + 1 + rng.choice([0, 0, len(tpl.dirs) - k - 1])])
    return out


# ---------------------------------------------------------------- trees on disk
def build_tree(root, tpl, files, rng=None, decoys=True, ddirs=()):
    """create the files below `root` (absolute), returns {abs path: id}"""
    paths = {}
    for f in files:
        p = os.path.join(root, *f.rel)
        os.makedirs(os.path.dirname(p), exist_ok=True)
        open(p, "w").close()
        paths[p] = f.id
    for comps in ddirs:
        os.makedirs(os.path.join(root, *comps), exist_ok=True)
    if decoys and rng is not None and files:
        for _ in range(rng.choice([0, 0, 1, 2])):
            f = rng.choice(files)
            d = os.path.join(root, *f.rel[:rng.randint(0, len(f.rel) - 1)])
            if os.path.isdir(d):
                try:
                    open(os.path.join(d, rng.choice(["README", "notes.tmp", "0000"])), "w").close()
                except OSError:
                    pass
    return paths


def build_zip(zip_path, root, tpl, files):
    """archive holding the same tree with paths relative to the archive root"""
    with zipfile.ZipFile(zip_path, "w") as z:
        for f in files:
            z.writestr("/".join(f.rel), b"")
    return {"/".join(f.rel): f.id for f in files}


SPELLINGS = ["abs", "abs", "abs", "abs", "abs", "abs", "rel", "rel", "dot", "updir", "dslash", "dotslash"]


def spelled_path(root, tpl, spelling):
    """the template as the user may write it for a local file system; every spelling but "abs",
    "dslash", "dotslash" is relative to the working directory, which must be `root` while the
    fileset is in use (FileSet.path makes it absolute on every access)"""
    root = root.rstrip("/")
    return {"abs": root + "/" + tpl.text(),
            "rel": tpl.text(),
            "dot": "./" + tpl.text(),
            "updir": "../" + os.path.basename(root) + "/" + tpl.text(),
            "dslash": root + "//" + tpl.text(),
            "dotslash": root + "/./" + tpl.text()}[spelling]


class in_dir:
    """with in_dir(root): ... — chdir for relative templates, restored afterwards"""

    def __init__(self, d):
        self.d = d

    def __enter__(self):
        self.old = os.getcwd()
        os.chdir(self.d)

    def __exit__(self, *a):
        try:
            os.chdir(self.old)
        except OSError:
            os.chdir("/")


def file_id(ids, x):
    """id of a yielded file; a path spelled differently (relative, '/./', '//') names the same file"""
    key = os.fspath(x)
    if key in ids:
        return ids[key]
    return ids[os.path.normpath(os.path.abspath(key))]


def make_fileset(root, tpl, time_cov=None, fs=None, spelling="abs", **kw):
    from typhon.files import FileSet
    path = tpl.text() if fs is not None else spelled_path(root, tpl, spelling)
    return FileSet(path, name="v", time_coverage=time_cov, fs=fs, **kw)


# ---------------------------------------------------------------- oracle
def passes_filters(f, filters):
    """filters as passed to find(); equality semantics (valid for prefix-free values)"""
    if not filters:
        return True
    for k, v in filters.items():
        vals = [v] if isinstance(v, str) else list(v)
        if k.startswith("!"):
            name = k[1:]
            if name in f.users and f.users[name] in vals:
                return False
        else:
            if k in f.users and f.users[k] not in vals:
                return False
    return True


def black_prefix_free(files, filters):
    """True when no black-listed value is a proper prefix of a value in use (otherwise re.match's
    prefix semantics and equality differ — DESIGN C01 note (b))"""
    if not filters:
        return True
    for k, v in filters.items():
        if not k.startswith("!"):
            continue
        vals = [v] if isinstance(v, str) else list(v)
        for f in files:
            x = f.users.get(k[1:])
            if x is not None and any(x.startswith(b) and x != b for b in vals):
                return False
    return True


def is_excluded(f, xnames, xtimes):
    if f.id in xnames:
        return True
    return any(a <= f.t1 and f.t0 <= b for a, b in xtimes)


def select(files, start, end, xnames=(), xtimes=(), filters=None):
    """brute force: the files C01 says must be found, sorted by (t0, t1)"""
    out = [f for f in files
           if (end is None or f.t0 < end) and (start is None or f.t1 >= start)
           and not is_excluded(f, xnames, xtimes) and passes_filters(f, filters)]
    return sorted(out, key=lambda f: (f.t0, f.t1))


def filter_tokens(filters):
    def enc(d):
        return ";".join(f"{k}={'|'.join([v] if isinstance(v, str) else v)}" for k, v in d.items()) or "-"
    filters = filters or {}
    w = {k: v for k, v in filters.items() if not k.startswith("!")}
    b = {k[1:]: v for k, v in filters.items() if k.startswith("!")}
    return enc(w), enc(b)


def err_class(e):
    from typhon.files.fileset import NoFilesError
    if isinstance(e, NoFilesError):
        return "noFiles"
    if isinstance(e, OverflowError):
        return "overflow"
    if isinstance(e, ValueError):
        return "valueError"
    return "other:" + type(e).__name__
