"""C09 — humidity measures and saturation pressures are mutually consistent.

Tie: translator (tools/py2lean regenerates lean/numeric/GenReal/Atmosphere.lean from /repo on
every run; theorems Proofs/Props/C09.lean are re-checked against it) + Float cross-run of the
same translation against numpy + independent oracle (exact Fractions / longdouble formulas)
on the real code.
"""
import json
import math
from fractions import Fraction

import numlib
import vlib

PROP = "C09"
NEEDED = ["Atmosphere." + n for n in (
    "mixing_ratio2specific_humidity", "mixing_ratio2vmr", "specific_humidity2mixing_ratio",
    "specific_humidity2vmr", "vmr2mixing_ratio", "vmr2specific_humidity", "e_eq_ice_mk", "e_eq_water_mk",
    "e_eq_mixed_mk", "relative_humidity2vmr", "vmr2relative_humidity", "moist_lapse_rate")]

MD = Fraction("0.0289645")
MW = Fraction("0.01801528")
EPS = MW / MD
TT = 273.16

ORACLE = {   # textbook definitions, exact rationals
    "vmr2mixing_ratio": lambda x: x / (1 - x) * EPS,
    "mixing_ratio2vmr": lambda w: w / (w + EPS),
    "vmr2specific_humidity": lambda x: x * EPS / (1 - x + x * EPS),      # = x Mw / ((1-x) Md + x Mw)
    "specific_humidity2vmr": lambda q: q / (q + (1 - q) * EPS),
    "mixing_ratio2specific_humidity": lambda w: w / (1 + w),
    "specific_humidity2mixing_ratio": lambda q: q / (1 - q),
}
INVERSE = [("vmr2mixing_ratio", "mixing_ratio2vmr"), ("mixing_ratio2vmr", "vmr2mixing_ratio"),
           ("vmr2specific_humidity", "specific_humidity2vmr"), ("specific_humidity2vmr", "vmr2specific_humidity"),
           ("mixing_ratio2specific_humidity", "specific_humidity2mixing_ratio"),
           ("specific_humidity2mixing_ratio", "mixing_ratio2specific_humidity")]
ROUTES = [("vmr2mixing_ratio", "mixing_ratio2specific_humidity", "vmr2specific_humidity"),
          ("vmr2specific_humidity", "specific_humidity2mixing_ratio", "vmr2mixing_ratio"),
          ("mixing_ratio2vmr", "vmr2specific_humidity", "mixing_ratio2specific_humidity"),
          ("mixing_ratio2specific_humidity", "specific_humidity2vmr", "mixing_ratio2vmr"),
          ("specific_humidity2vmr", "vmr2mixing_ratio", "specific_humidity2mixing_ratio"),
          ("specific_humidity2mixing_ratio", "mixing_ratio2vmr", "specific_humidity2vmr")]


def ice_ld(T):
    import numpy as np
    T = np.longdouble(T)
    return np.exp(np.longdouble("9.550426") - np.longdouble("5723.265") / T + np.longdouble("3.53068") * np.log(T)
                  - np.longdouble("0.00728332") * T)


def water_ld(T):
    import numpy as np
    L = np.longdouble
    T = L(T)
    return np.exp(L("54.842763") - L("6763.22") / T - L("4.210") * np.log(T) + L("0.000367") * T
                  + np.tanh(L("0.0415") * (T - L("218.8"))) * (L("53.878") - L("1331.22") / T - L("9.44523") * np.log(T)
                                                                + L("0.014025") * T))


def rel(a, b):
    a, b = float(a), float(b)
    return abs(a - b) / max(abs(a), abs(b), 1e-300)


def domain_value(rng, fn):
    """argument in the domain of converter fn: x,q in [0,1), w >= 0"""
    if fn.startswith("mixing_ratio"):
        return rng.choice([0.0, numlib.loguniform(rng, 1e-9, 50.0), rng.uniform(0, 0.05)])
    return rng.choice([0.0, numlib.loguniform(rng, 1e-9, 0.999), rng.uniform(0, 0.06), 1 - numlib.loguniform(rng, 1e-6, 0.5)])


def explore(ck, n, atm, np, xrun=True):
    rng = ck.rng
    calls = []
    # ---------------- converters: oracle, inverses, routes, monotone, zero
    for _ in range(n):
        fn = rng.choice(list(ORACLE))
        v = domain_value(rng, fn)
        got = float(getattr(atm, fn)(v))
        want = ORACLE[fn](Fraction(v))
        case = {"fn": fn, "args": [v]}
        ck.case(key=(fn, v) if v != 0 else None, kind="conv/" + fn, sample={"fn": fn, "x": v, "value": got})
        if rel(got, want) > 1e-12:
            ck.violation("other", f"{fn}({v!r}) = {got!r}, exact value {float(want)!r}", case)
        if xrun:
            calls.append((fn, (v,), got))
    for f, g in INVERSE:
        for _ in range(max(n // 6, 5)):
            v = domain_value(rng, f)
            back = float(getattr(atm, g)(getattr(atm, f)(v)))
            ck.case(key=("inv", f, v) if v else None, kind="inverse/" + f)
            if abs(back - v) > 1e-9 * max(abs(v), 1e-30) + 1e-300:
                ck.violation("other", f"{g}({f}({v!r})) = {back!r} != {v!r}", {"fn": f"{g}∘{f}", "args": [v]})
    for f, g, h in ROUTES:
        for _ in range(max(n // 6, 5)):
            v = domain_value(rng, f)
            two = float(getattr(atm, g)(getattr(atm, f)(v)))
            one = float(getattr(atm, h)(v))
            ck.case(key=("route", f, g, v) if v else None, kind="route")
            if rel(two, one) > 1e-9 and abs(two - one) > 1e-300:
                ck.violation("other", f"{g}({f}({v!r})) = {two!r} but {h}({v!r}) = {one!r}", {"fn": f"{g}∘{f} vs {h}", "args": [v]})
    for fn in ORACLE:
        z = float(getattr(atm, fn)(0.0))
        ck.case(kind="zero")
        if z != 0.0:
            ck.violation("other", f"{fn}(0) = {z!r}", {"fn": fn, "args": [0.0]})
        hi = 40.0 if fn.startswith("mixing_ratio") else 0.999
        grid = sorted(rng.uniform(0, hi) for _ in range(40))
        grid = [g for i, g in enumerate(grid) if i == 0 or g - grid[i - 1] > 1e-6 * hi]
        vals = np.asarray(getattr(atm, fn)(np.array(grid)))
        ck.case(key=("mono", fn, grid[1]), kind="monotone")
        for a, b, fa, fb in zip(grid, grid[1:], vals, vals[1:]):
            if not fa < fb:
                ck.violation("other", f"{fn} not increasing: f({a!r})={float(fa)!r} >= f({b!r})={float(fb)!r}", {"fn": fn, "args": [a, b]})
                break
        # array / 0-d / scalar agreement (numpy broadcasting glue vs the pointwise model)
        arr = np.array(grid[:6]).reshape(2, 3)
        va = np.asarray(getattr(atm, fn)(arr))
        for idx in [(0, 0), (1, 2)]:
            if float(va[idx]) != float(getattr(atm, fn)(float(arr[idx]))) or float(getattr(atm, fn)(np.array(arr[idx]))) != float(va[idx]):
                ck.violation("other", f"{fn}: array element differs from scalar call at {float(arr[idx])!r}", {"fn": fn, "args": [float(arr[idx])]})
    # ---------------- input kinds of the saturation functions: python float, numpy scalar, 0-d array, 1-d, n-d
    for fn in ("e_eq_ice_mk", "e_eq_water_mk", "e_eq_mixed_mk"):
        f = getattr(atm, fn)
        for T in (rng.uniform(100, 400), TT - 23.0, TT, rng.uniform(TT - 23, TT)):
            ck.case(key=("kinds", fn, T), kind="input-kinds")
            ref = float(f(float(T)))
            for label, arg in (("numpy scalar", np.float64(T)), ("0-d array", np.array(T)), ("1-d array", np.array([T])),
                               ("2-d array", np.array([[T, T]])), ("float32 0-d", np.array(np.float32(T)))):
                try:
                    got = np.asarray(f(arg))
                except Exception as e:          # noqa: BLE001
                    ck.violation("input-kind-raised", f"{fn}({label} {T!r}) raised {type(e).__name__}: {str(e)[:80]}", {"fn": fn + "/kind", "args": [float(T), label]})
                    continue
                want_shape = np.shape(arg)
                tol = 3e-4 if "float32" in label else 0.0      # float32 evaluation: exponent of order 60 with 6e-8 relative rounding per term
                if got.shape != want_shape or np.any(np.abs(got.astype(float) - ref) > tol * ref):
                    ck.violation("other", f"{fn}({label} {T!r}) = {got.tolist()!r} (shape {got.shape}), float call gives {ref!r}", {"fn": fn + "/kind", "args": [float(T), label]})
    # ---------------- saturation pressures
    Ts = [rng.uniform(100, 400) for _ in range(n)] + [TT, TT - 23.0, 100.0, 400.0, 273.15, 250.16]
    for T in Ts:
        gi, gw, gm = float(atm.e_eq_ice_mk(T)), float(atm.e_eq_water_mk(T)), float(atm.e_eq_mixed_mk(T))
        ck.case(key=("e_eq", T), kind="e_eq", sample={"T": T, "ice": gi, "water": gw, "mixed": gm})
        if rel(gi, ice_ld(T)) > 1e-10:
            ck.violation("other", f"e_eq_ice_mk({T!r}) = {gi!r}, Murphy-Koop value {float(ice_ld(T))!r}", {"fn": "e_eq_ice_mk", "args": [T]})
        if rel(gw, water_ld(T)) > 1e-10:
            ck.violation("other", f"e_eq_water_mk({T!r}) = {gw!r}, Murphy-Koop value {float(water_ld(T))!r}", {"fn": "e_eq_water_mk", "args": [T]})
        if not (gi > 0 and gw > 0):
            ck.violation("other", f"saturation pressure not positive at T={T!r}", {"fn": "e_eq", "args": [T]})
        if T <= TT and gi > gw * (1 + 1e-6):
            ck.violation("other", f"ice {gi!r} > liquid {gw!r} below the triple point at T={T!r}", {"fn": "ice<=water", "args": [T]})
        want = gi if T < TT - 23.0 else gw if T > TT else None
        if want is not None and gm != want:
            ck.violation("other", f"e_eq_mixed_mk({T!r}) = {gm!r}, expected the {'ice' if T < TT - 23 else 'liquid'} value {want!r}", {"fn": "e_eq_mixed_mk", "args": [T]})
        if want is None:
            lo, hi = min(gi, gw), max(gi, gw)
            s = (Fraction(T) - Fraction(TT) + 23) / 23
            blend = float(ice_ld(T) + (water_ld(T) - ice_ld(T)) * np.longdouble(float(s)) ** 2)
            if not (lo * (1 - 1e-12) <= gm <= hi * (1 + 1e-12)) or rel(gm, blend) > 1e-9:
                ck.violation("other", f"e_eq_mixed_mk({T!r}) = {gm!r} not the blend {blend!r} between ice {gi!r} and liquid {gw!r}", {"fn": "e_eq_mixed_mk", "args": [T]})
        if xrun:
            calls += [("e_eq_ice_mk", (T,), gi), ("e_eq_water_mk", (T,), gw), ("e_eq_mixed_mk", (T,), gm)]
    if rel(atm.e_eq_ice_mk(TT), atm.e_eq_water_mk(TT)) > 1e-6:
        ck.violation("other", "ice and liquid saturation pressure differ by more than 1e-6 at the triple point", {"fn": "triple", "args": [TT]})
    # branch temperatures to within one ulp: continuity
    for Tb in (TT, TT - 23.0):
        ref = float(atm.e_eq_mixed_mk(Tb))
        for T in (math.nextafter(Tb, 0), math.nextafter(Tb, 1e9), math.nextafter(math.nextafter(Tb, 0), 0)):
            v = float(atm.e_eq_mixed_mk(T))
            ck.case(key=("branch", T), kind="branch-ulp")
            if rel(v, ref) > 1e-9:
                ck.violation("other", f"e_eq_mixed_mk jumps at {Tb}: f({T!r}) = {v!r}, f({Tb!r}) = {ref!r}", {"fn": "e_eq_mixed_mk", "args": [T]})
            if xrun:
                calls.append(("e_eq_mixed_mk", (T,), v))
        va = np.asarray(atm.e_eq_mixed_mk(np.array([Tb - 1, Tb, Tb + 1])))
        if any(float(va[i]) != float(atm.e_eq_mixed_mk(float(t))) for i, t in enumerate([Tb - 1, Tb, Tb + 1])):
            ck.violation("other", f"e_eq_mixed_mk array vs scalar differ around {Tb}", {"fn": "e_eq_mixed_mk", "args": [Tb]})
    grid = sorted(set(round(rng.uniform(100, 400), 3) for _ in range(60)))
    for fn in ("e_eq_ice_mk", "e_eq_water_mk"):
        vals = np.asarray(getattr(atm, fn)(np.array(grid)))
        ck.case(key=("emono", fn, grid[3]), kind="e_eq-monotone")
        for a, b, fa, fb in zip(grid, grid[1:], vals, vals[1:]):
            if not fa < fb:
                ck.violation("other", f"{fn} not increasing between {a} and {b}", {"fn": fn, "args": [a, b]})
                break
    for bad in (0.0, -1.0, -273.15):
        for fn in ("e_eq_ice_mk", "e_eq_water_mk", "e_eq_mixed_mk"):
            for arg in (bad, np.array([250.0, bad])):
                ck.case(kind="reject")
                try:
                    with np.errstate(all="ignore"):
                        getattr(atm, fn)(arg)
                    ck.violation("other", f"{fn}({arg!r}) accepted a non-positive temperature", {"fn": fn, "args": [bad]})
                except ValueError:
                    pass
    # ---------------- relative humidity inverses, any saturation function
    for _ in range(max(n // 4, 10)):
        a, b = numlib.loguniform(rng, 1e-3, 1e4), rng.uniform(0, 0.05)
        sat = lambda T, a=a, b=b: a * np.exp(b * (T - 250.0))
        p, T = numlib.loguniform(rng, 1e2, 1.1e5), rng.uniform(100, 400)
        rh, x = rng.uniform(0, 1.5), numlib.loguniform(rng, 1e-8, 0.5)
        e = rng.choice([None, sat])
        r1 = float(atm.vmr2relative_humidity(atm.relative_humidity2vmr(rh, p, T, e_eq=e), p, T, e_eq=e))
        r2 = float(atm.relative_humidity2vmr(atm.vmr2relative_humidity(x, p, T, e_eq=e), p, T, e_eq=e))
        ck.case(key=("rh", rh, p, T), kind="rh-inverse")
        if rel(r1, rh) > 1e-12 and abs(r1 - rh) > 1e-300 or rel(r2, x) > 1e-12:
            ck.violation("other", f"RH<->vmr not inverse at RH={rh!r} x={x!r} p={p!r} T={T!r}", {"fn": "rh", "args": [rh, x, p, T]})
        if e is None:
            es = float(water_ld(T))
            if rel(float(atm.relative_humidity2vmr(rh, p, T)), rh * es / p) > 1e-10:
                ck.violation("other", f"relative_humidity2vmr({rh!r},{p!r},{T!r}) is not RH*e_s/p", {"fn": "relative_humidity2vmr", "args": [rh, p, T]})
            if xrun:
                calls.append(("relative_humidity2vmr", (rh, p, T), float(atm.relative_humidity2vmr(rh, p, T))))
                calls.append(("vmr2relative_humidity", (x, p, T), float(atm.vmr2relative_humidity(x, p, T))))
    # ---------------- 2-d / 3-d temperature fields in several memory layouts (C, Fortran, transposed views, strided,
    # read-only): every element equals the scalar call at that temperature (incl. the pure-ice and pure-liquid ranges)
    for it in range(max(n // 25, 4)):
        shp = rng.choice([(2, 3), (3, 2), (4, 5), (2, 3, 2)])
        base = np.array([rng.choice([rng.uniform(100, 400), rng.uniform(TT - 30, TT + 5), TT, TT - 23.0])
                         for _ in range(int(np.prod(shp)))]).reshape(shp)
        for fn in ("e_eq_mixed_mk", "e_eq_ice_mk", "e_eq_water_mk"):
            f = getattr(atm, fn)
            want = np.array([float(f(float(t))) for t in base.ravel()]).reshape(shp)
            variants = [("C", base.copy()), ("F", np.asfortranarray(base)), ("transposed-view", base.T.copy().T),
                        ("moveaxis", np.moveaxis(np.moveaxis(base, 0, -1).copy(), -1, 0))]
            lay, arr = rng.choice(variants)
            arr2, lay2 = numlib.relayout(np, rng, base)
            for label, a in ((lay, arr), (lay2, arr2)):
                ck.case(key=("field", fn, label, shp, float(base.ravel()[0])), kind=f"field/{label}")
                cf = {"fn": fn + "/field", "args": base.ravel().tolist()[:6], "shape": list(shp), "layout": label}
                try:
                    got = np.asarray(f(a))
                except Exception as e:          # noqa: BLE001
                    ck.violation("layout-raised", f"{fn} raised {type(e).__name__} for a {label} array of shape {shp}: {str(e)[:80]}", cf)
                    continue
                if got.shape != want.shape or not np.allclose(got, want, rtol=1e-13, atol=0.0):      # (vectorised exp/log/tanh may differ from the scalar path in the last bits)
                    bad = int(np.sum(~np.isclose(got, want, rtol=1e-13, atol=0.0))) if got.shape == want.shape else -1
                    ck.violation("layout-dependent", f"{fn} on a {label} array of shape {shp}: {bad} elements differ from the scalar calls "
                                                     f"(e.g. {got.ravel()[:3].tolist()} vs {want.ravel()[:3].tolist()})", cf)
    # ---------------- array calls: no argument / callback result is modified, repeatable, layout-independent;
    # "any saturation function" includes one that hands out a persistent table (memoised e_s)
    for it in range(max(n // 15, 6)):
        m = rng.choice([1, 3, 8])
        Ta = np.array([rng.uniform(180, 330) for _ in range(m)])
        pa = np.array([numlib.loguniform(rng, 1e2, 1.1e5) for _ in range(m)])
        rha = np.array([rng.uniform(0.01, 1.2) for _ in range(m)])
        if it % 3 == 2:
            Ta, pa, rha = Ta.reshape(1, m), pa.reshape(1, m), np.stack([rha, 0.5 * rha])
        table = np.array(611.2 * np.exp(0.06 * (Ta - 273.15)))
        keep = table.copy()
        sat_tab = lambda T, table=table: table                     # returns the SAME array object every time
        sat_id = lambda T: T
        for e, name in ((None, "default"), (sat_tab, "table-backed"), (sat_id, "identity"), (atm.e_eq_mixed_mk, "mixed"), (atm.e_eq_ice_mk, "ice")):
            case = {"fn": "rh-array", "e_eq": name, "T": Ta.ravel().tolist()[:4], "p": pa.ravel().tolist()[:4], "RH": rha.ravel().tolist()[:4]}
            ck.case(key=("rh-arr", name, float(Ta.ravel()[0]), float(rha.ravel()[0])), kind=f"rh-array/{name}")
            kw = {} if e is None else {"e_eq": e}
            x1 = numlib.pure_call(ck, np, atm.relative_humidity2vmr, [rha, pa, Ta], f"relative_humidity2vmr(e_eq={name})", case, rtol=1e-15, kwargs=kw)
            if x1 is None:
                continue
            back = numlib.pure_call(ck, np, atm.vmr2relative_humidity, [np.asarray(x1), pa, Ta], f"vmr2relative_humidity(e_eq={name})", case, rtol=1e-15, kwargs=kw)
            if back is None:
                continue
            if not numlib.same(np, np.broadcast_to(rha, np.shape(back)), back, rtol=1e-12):
                ck.violation("other", f"RH -> vmr -> RH with the {name} saturation function returns {np.asarray(back).ravel()[:4].tolist()} for {rha.ravel()[:4].tolist()}", case)
            if not numlib.same(np, table, keep):
                ck.violation("argument-modified", f"relative_humidity2vmr / vmr2relative_humidity modified the array returned by the {name} saturation function", case)
                table[...] = keep
        for fn in ("vmr2mixing_ratio", "mixing_ratio2vmr", "vmr2specific_humidity", "specific_humidity2vmr", "mixing_ratio2specific_humidity",
                   "specific_humidity2mixing_ratio", "e_eq_ice_mk", "e_eq_water_mk", "e_eq_mixed_mk"):
            arg = Ta if fn.startswith("e_eq") else np.array([numlib.loguniform(rng, 1e-9, 0.5) for _ in range(Ta.size)]).reshape(Ta.shape)
            numlib.pure_call(ck, np, getattr(atm, fn), [arg], fn, {"fn": fn + "/array", "args": arg.ravel().tolist()[:4]}, rtol=1e-15)
        numlib.pure_call(ck, np, atm.moist_lapse_rate, [pa * 10 + 2e5, Ta], "moist_lapse_rate", {"fn": "moist_lapse_rate/array"}, rtol=1e-15)
    # ---------------- moist lapse rate
    from typhon import constants as tc
    gamma_d = 9.80665 / 1003.5
    for _ in range(max(n // 2, 20)):
        T = rng.choice([rng.uniform(100, 400), rng.uniform(180, 330), 100.0, 400.0])
        es = float(water_ld(T))
        p = es * numlib.loguniform(rng, 1.05, 1e6)
        if p > 1.1e5 and rng.random() < 0.7 and es * 1.05 < 1.1e5:
            p = rng.uniform(max(es * 1.05, 100.0), 1.1e5)
        # (above ~375 K the saturation pressure exceeds 1100 hPa: the bound is stated for e_s < p, so
        # p is then taken above the property's pressure range rather than dropping the temperature)
        g = float(atm.moist_lapse_rate(p, T))
        ck.case(key=("lapse", p, T), kind="lapse", sample={"p": p, "T": T, "lapse": g})
        if not (0 < g < gamma_d * (1 + 1e-15)):
            ck.violation("other", f"moist_lapse_rate({p!r},{T!r}) = {g!r} not in (0, g/cp={gamma_d!r})", {"fn": "moist_lapse_rate", "args": [p, T]})
        # independent formula
        w = float(Fraction(es / p) / (1 - Fraction(es / p)) * EPS)
        Lv, Rd, Rv, Cp = 2501000.0, 8.31446261815324 / 0.0289645, 8.31446261815324 / 0.01801528, 1003.5
        want = gamma_d * (1 + Lv * w / (Rd * T)) / (1 + Lv ** 2 * w / (Cp * Rv * T ** 2))
        if rel(g, want) > 1e-9:
            ck.violation("other", f"moist_lapse_rate({p!r},{T!r}) = {g!r}, textbook value {want!r}", {"fn": "moist_lapse_rate", "args": [p, T]})
        if xrun:
            calls.append(("moist_lapse_rate", (p, T), g))
    T = 280.0
    g = float(atm.moist_lapse_rate(float(water_ld(T)) * 1e9, T))
    if abs(g / gamma_d - 1) > 1e-6:
        ck.violation("other", f"lapse rate does not approach g/cp for vanishing saturation mixing ratio: {g!r}", {"fn": "moist_lapse_rate", "args": [float(water_ld(T)) * 1e9, T]})
    if xrun:
        numlib.float_cross(ck, calls, exe="drv_atm")


def main():
    ck = vlib.Check(PROP, pkg="numeric", props="Proofs.Props.C09", more_props=["Proofs.Props.C09Sat"], driver="drv_atm",
                    lemma_files=["Proofs/Lemmas/Consts.lean", "Proofs/Lemmas/Saturation.lean"],
                    model_files=["GenReal/Atmosphere.lean", "GenReal/Constants.lean"],
                    trusted=["tools/py2lean (translator): the emitted Lean term is the exact real-number reading of the Python expression; validated each run by compiling the Float reading of the same AST and comparing it with numpy on generated points (1e-9 relative on well-conditioned points)",
                             "floating-point evaluation, numpy broadcasting/masking are modelled pointwise, not verified (scalar/0-d/array agreement is exercised by the harness)",
                             "ice <= liquid holds literally only up to T_t - 4.25 microkelvin (Murphy-Koop formulas cross there: proved C09_water_lt_ice_at_triple); the property's own reading 'equal there to 1e-6 relative' is what C09_ice_le_water_rel / C09_triple_point_agree prove and what the sweep checks"],
                    assumptions=["domains: 0 <= x,q < 1, w >= 0, 100 K <= T <= 400 K, 1 hPa <= p <= 1100 hPa"])
    ck.rule = ("log-uniform / uniform points over the stated domains plus branch temperatures to within one ulp, scalar/0-d/array inputs; "
               "non-trivial = distinct non-zero argument tuple per function/identity")
    ck.anchors([("typhon/physics/atmosphere.py", n.split(".")[1]) for n in NEEDED])
    numlib.regenerate(ck, NEEDED)
    ck.build()
    import numpy as np
    from typhon.physics import atmosphere as atm
    xrun = True
    try:
        ck.driver(["planck 0 0"], exe="drv_atm")
    except vlib.InfraError:
        xrun = False
        ck.notes.append("Float driver not available (build broken): cross-run skipped")
    for _name, c in vlib.load_corpus(PROP):
        corpus_case(ck, c, atm, np)
    ck.guard(lambda: explore(ck, ck.budget(150, 4000), atm, np, xrun), what="typhon.physics.atmosphere")
    if ck.broken() and not ck.violations:
        ck.guard(lambda: explore(ck, 4000, atm, np, xrun=False), what="typhon.physics.atmosphere")
    ck.finish()


def corpus_case(ck, c, atm, np):
    """stored witnesses {"fn", "args", "expect", "rtol"}: value of one function at one point"""
    fn = c.get("fn")
    if hasattr(atm, fn or ""):
        got = float(getattr(atm, fn)(*c["args"]))
        ck.case(key=("corpus", fn, str(c["args"])), kind="corpus")
        if abs(got - c["expect"]) > c.get("rtol", 1e-9) * max(abs(c["expect"]), 1e-300):
            ck.violation("other", f"{fn}({c['args']}) = {got!r}, expected {c['expect']!r}", c)


def replay(path):
    import numpy as np
    from typhon.physics import atmosphere as atm
    numlib.replay_by_rerun(PROP, path, lambda: vlib.Check(PROP, pkg="numeric", props="Proofs.Props.C09", more_props=["Proofs.Props.C09Sat"]),
                           lambda ck: (ck.guard(lambda: explore(ck, ck.budget(150, 4000), atm, np, xrun=False)),
                                       [corpus_case(ck, c, atm, np) for _n, c in vlib.load_corpus(PROP)]))
