"""C19 — retrieval scores behave as proper error measures.

Tie: translator (pointwise terms of typhon/retrieval/scores.py regenerated into
lean/numeric/GenReal/Scores.lean each run; theorems Proofs/Props/C19.lean) + Float cross-run +
independent oracle (explicit loops in longdouble / Fractions) on the real code for all shapes.
"""
import json
import math
from fractions import Fraction

import numlib
import vlib

PROP = "C19"
FUNCS = ["mape", "bias", "quantile_score", "mean_quantile_score"]
NEEDED = ["Scores." + n for n in FUNCS]


def rel(a, b):
    a, b = float(a), float(b)
    return abs(a - b) / max(abs(a), abs(b), 1e-300)


def pinball(e, y, tau):
    d = Fraction(e) - Fraction(y)
    return Fraction(tau) * (-d) if d < 0 else (1 - Fraction(tau)) * d


def sample(rng, n):
    style = rng.choice(["normal", "ties", "heavy", "ints"])
    if style == "normal":
        return [rng.gauss(0, 1) for _ in range(n)]
    if style == "ties":
        return [float(rng.randint(0, 4)) for _ in range(n)]
    if style == "heavy":
        return [math.copysign(math.exp(rng.uniform(-5, 12)), rng.random() - 0.5) for _ in range(n)]
    return [float(rng.randint(-50, 50)) for _ in range(n)]


def explore(ck, n, sc, np, xrun=True):
    rng = ck.rng
    calls = []
    for _ in range(n):
        ns = rng.choice([1, 2, 3, 7, 20, 60])
        ys = sample(rng, ns)
        k = rng.choice([1, 1, 2, 4])
        taus = sorted(rng.choice([0.05, 0.1, 0.25, 0.5, 0.75, 0.9, 0.99, rng.random() * 0.98 + 0.01]) for _ in range(k))
        est = [[y + rng.choice([0.0, rng.gauss(0, 1), -abs(rng.gauss(0, 2)), abs(rng.gauss(0, 2))]) for _ in taus] for y in ys]
        y_test = np.array(ys)
        y_tau = np.array(est)
        shape_kind = rng.choice(["(n,k)", "(n,)", "(n,1)"]) if k == 1 else "(n,k)"
        yt_in = y_tau if shape_kind == "(n,k)" else y_tau.reshape(-1) if shape_kind == "(n,)" else y_tau.reshape(-1, 1)
        ytest_in = y_test if rng.random() < 0.5 else y_test.reshape(-1, 1)
        case = {"fn": "quantile_score", "y_tau": est, "y_test": ys, "taus": taus, "shape": shape_kind}
        try:
            got = np.asarray(sc.quantile_score(yt_in, ytest_in, np.array(taus) if k > 1 or rng.random() < 0.5 else taus[0]))
            gmean = np.asarray(sc.mean_quantile_score(yt_in, ytest_in, np.array(taus)))
        except Exception as e:
            ck.violation("other", f"quantile_score raised {type(e).__name__}: {e} on consistent shapes {shape_kind}", case)
            continue
        ck.case(key=("qs", ns, k, ys[0], taus[0]), kind=f"qs/{shape_kind}/k{k}", sample={"y": ys[:3], "est": est[:3], "taus": taus})
        if got.shape != (ns, k):
            ck.violation("other", f"quantile_score returned shape {got.shape}, expected {(ns, k)}", case)
            continue
        bad = False
        for i in range(ns):
            for j in range(k):
                w = pinball(est[i][j], ys[i], taus[j])
                g = float(got[i, j])
                if g < 0 or (g == 0) != (est[i][j] == ys[i]) or rel(g, w) > 1e-12 and abs(g - float(w)) > 1e-300:
                    ck.violation("other", f"quantile_score(est={est[i][j]!r}, y={ys[i]!r}, tau={taus[j]!r}) = {g!r}, pinball loss {float(w)!r}",
                                 {"fn": "quantile_score", "args": [est[i][j], ys[i], taus[j]]})
                    bad = True
                    break
                if xrun and len(calls) < 4000:
                    calls.append(("quantile_score", (est[i][j], ys[i], taus[j]), g))
            if bad:
                break
        for j in range(k):
            w = sum(pinball(est[i][j], ys[i], taus[j]) for i in range(ns)) / ns
            if rel(gmean[j], w) > 1e-11 and abs(float(gmean[j]) - float(w)) > 1e-300:
                ck.violation("other", f"mean_quantile_score column {j} = {float(gmean[j])!r}, expected {float(w)!r}", case)
        # dtype glue: integer-valued estimates / observations passed with an integer dtype (and float32 where exactly
        # representable) must score like the same values as float64 — the pinball loss of the VALUES, not of a cast
        if ns <= 20:
            ei = [[float(rng.randint(-6, 6)) for _ in taus] for _ in ys]
            yi = [rng.choice([float(rng.randint(-6, 6)), rng.randint(-24, 24) / 4.0]) for _ in ys]
            combos = [("int64", "float64"), ("int32", "float64"), ("float64", "float32"), ("int64", "float32"), ("float32", "float64")]
            if all(float(v).is_integer() for v in yi):
                combos += [("float64", "int64"), ("int64", "int64")]
            dt_e, dt_y = rng.choice(combos)
            cdt = {"fn": "quantile_score-dtype", "y_tau": ei, "y_test": yi, "taus": taus, "dtypes": [dt_e, dt_y]}
            ck.case(key=("qs-dtype", dt_e, dt_y, ns, k, yi[0]), kind=f"qs/dtype/{dt_e}-{dt_y}")
            try:
                gd = np.asarray(sc.quantile_score(np.array(ei, dtype=dt_e), np.array(yi, dtype=dt_y), np.array(taus)))
                gm = np.asarray(sc.mean_quantile_score(np.array(ei, dtype=dt_e), np.array(yi, dtype=dt_y), np.array(taus)))
            except Exception as e:
                ck.violation("other", f"quantile_score raised {type(e).__name__}: {e} for dtypes {dt_e}/{dt_y}", cdt)
                gd = None
            if gd is not None:
                tolr = 1e-6 if "float32" in (dt_e, dt_y) else 1e-12
                okd = gd.shape == (ns, k)
                for i in range(ns):
                    for j in range(k):
                        w = float(pinball(ei[i][j], yi[i], taus[j]))
                        okd = okd and abs(float(gd[i, j]) - w) <= tolr * max(abs(w), 1e-30) + (1e-30 if w == 0 else 0)
                for j in range(k):
                    w = float(sum(pinball(ei[i][j], yi[i], taus[j]) for i in range(ns)) / ns)
                    okd = okd and abs(float(gm[j]) - w) <= 10 * tolr * max(abs(w), 1e-30) + (1e-30 if w == 0 else 0)
                if not okd:
                    ck.violation("other", f"quantile_score with dtypes y_tau {dt_e} / y_test {dt_y} differs from the pinball loss of the same values: {gd.tolist()[:3]}", cdt)
            tp = np.array([float(rng.randint(1, 9)) for _ in range(ns)])
            pp = tp + np.array([float(rng.randint(-3, 3)) for _ in range(ns)])
            for dtp, dtt in (("int64", "int64"), ("int32", "float64"), ("float64", "int64")):
                mi, bi = float(sc.mape(pp.astype(dtp), tp.astype(dtt))), float(sc.bias(pp.astype(dtp), tp.astype(dtt)))
                if rel(mi, float(sc.mape(pp, tp))) > 1e-12 or abs(bi - float(sc.bias(pp, tp))) > 1e-10:
                    ck.violation("other", f"mape/bias with dtypes {dtp}/{dtt} = ({mi!r}, {bi!r}) differ from the float64 result", {"fn": "mape/bias-dtype", "y_pred": pp.tolist(), "y_test": tp.tolist(), "dtypes": [dtp, dtt]})
            numlib.pure_call(ck, np, sc.quantile_score, [y_tau, y_test, np.array(taus)], "quantile_score", case, rtol=1e-15)
            numlib.pure_call(ck, np, sc.mean_quantile_score, [y_tau, y_test, np.array(taus)], "mean_quantile_score", case, rtol=1e-15)
        # the constant minimiser is a tau-quantile
        tau = taus[0]
        cands = sorted(set(ys))
        scores = [float(sc.mean_quantile_score(np.full((ns, 1), c), y_test, np.array([tau]))[0]) for c in cands]
        best = min(scores)
        for c, s in zip(cands, scores):
            lo = sum(1 for y in ys if y < c)
            hi = sum(1 for y in ys if y <= c)
            isq = lo <= tau * ns <= hi
            if isq and s > best * (1 + 1e-9) + 1e-300:
                ck.violation("other", f"constant {c!r} is a {tau}-quantile of the sample but its mean score {s!r} exceeds the minimum {best!r}",
                             {"fn": "minimiser", "y_test": ys, "tau": tau, "c": c})
            if not isq and s <= best * (1 - 1e-9) and s < best:
                ck.violation("other", f"constant {c!r} minimises the mean score but is not a {tau}-quantile", {"fn": "minimiser", "y_test": ys, "tau": tau, "c": c})
        if not any(lo <= tau * ns <= hi and s <= best * (1 + 1e-9) + 1e-300
                   for c, s, lo, hi in ((c, s, sum(1 for y in ys if y < c), sum(1 for y in ys if y <= c)) for c, s in zip(cands, scores))):
            ck.violation("other", f"no tau-quantile among the minimisers (tau={tau!r})", {"fn": "minimiser", "y_test": ys, "tau": tau})
        # inconsistent shapes are rejected with ValueError
        bad_shapes = []
        if ns >= 2:
            bad_shapes += [((ns, k), (ns + 1,)), ((ns, k), (ns - 1,)), ((1, k), (ns,)), ((ns, k), (ns, 2))]
        bad_shapes += [((3, k), (1,)), ((1, k), (5,))]
        for sh_tau, sh_test in bad_shapes:
            cshape = {"fn": "quantile_score-shape", "y_tau_shape": list(sh_tau), "y_test_shape": list(sh_test), "k": k}
            ck.case(kind="shape-reject")
            try:
                r = sc.quantile_score(np.zeros(sh_tau), np.zeros(sh_test), np.array(taus))
                ck.violation("other", f"quantile_score accepted inconsistent shapes y_tau{sh_tau} / y_test{sh_test} and returned shape {np.shape(r)}", cshape)
            except ValueError:
                pass
            except Exception as e:
                ck.violation("other", f"quantile_score raised {type(e).__name__} instead of ValueError for inconsistent shapes y_tau{sh_tau} / y_test{sh_test}", cshape)
        # ---------------- mape / bias
        truth = np.array([v if v != 0 else 1.0 for v in sample(rng, ns)])
        pred = truth + np.array([rng.gauss(0, 1) for _ in range(ns)])
        m, b = float(sc.mape(pred, truth)), float(sc.bias(pred, truth))
        wm = sum(100 * abs(Fraction(float(t)) - Fraction(float(p))) / abs(Fraction(float(t))) for p, t in zip(pred, truth)) / ns
        wb = sum(100 * (Fraction(float(p)) - Fraction(float(t))) / Fraction(float(t)) for p, t in zip(pred, truth)) / ns
        ck.case(key=("mape", ns, float(truth[0]), float(pred[0])), kind="mape-bias")
        c2 = {"fn": "mape/bias", "y_pred": pred.tolist(), "y_test": truth.tolist()}
        if rel(m, wm) > 1e-10:
            ck.violation("other", f"mape = {m!r}, mean absolute percentage error is {float(wm)!r}", c2)
        if rel(b, wb) > 1e-9 and abs(b - float(wb)) > 1e-9 * float(wm):
            ck.violation("other", f"bias = {b!r}, mean relative error in percent is {float(wb)!r}", c2)
        if ns <= 20:
            numlib.pure_call(ck, np, sc.mape, [pred, truth], "mape", c2, rtol=1e-15)
            numlib.pure_call(ck, np, sc.bias, [pred, truth], "bias", c2, rtol=1e-13)
        # small magnitudes (trace-gas mixing ratios, SI water contents): relative scores do not care
        tiny = rng.choice([1e-9, 1e-12, 1e-30, 1e-300 * 1e5])
        tt_, pt_ = truth * tiny, pred * tiny
        if np.all(tt_ != 0) and np.all(np.isfinite(tt_)):
            wmt = sum(100 * abs(Fraction(float(t)) - Fraction(float(p))) / abs(Fraction(float(t))) for p, t in zip(pt_, tt_)) / ns
            if rel(sc.mape(pt_, tt_), wmt) > 1e-9:
                ck.violation("other", f"mape of values of magnitude {tiny} = {float(sc.mape(pt_, tt_))!r}, exact value {float(wmt)!r}", dict(c2, scale=tiny))
        if float(sc.mape(truth.copy(), truth)) != 0.0 or float(sc.bias(truth.copy(), truth)) != 0.0:
            ck.violation("other", "mape/bias of a perfect prediction is not 0", {"fn": "perfect", "y_test": truth.tolist()})
        p = rng.choice([0.0, 1.0, 12.5, 50.0, rng.uniform(0, 300)])
        hi_, lo_ = truth * (1 + p / 100), truth * (1 - p / 100)
        vals = (float(sc.mape(hi_, truth)), float(sc.mape(lo_, truth)), float(sc.bias(hi_, truth)), float(sc.bias(lo_, truth)))
        if any(abs(v - w) > 1e-9 * max(p, 1) for v, w in zip(vals, (p, p, p, -p))):
            ck.violation("other", f"uniform {p}% offsets give mape/bias {vals}, expected ({p},{p},{p},{-p})", {"fn": "offset", "p": p, "y_test": truth.tolist()})
        perm = list(range(ns))
        rng.shuffle(perm)
        if rel(sc.mape(pred[perm], truth[perm]), m) > 1e-10 or abs(float(sc.bias(pred[perm], truth[perm])) - b) > 1e-9 * max(abs(float(wm)), 1e-300):
            ck.violation("other", "mape/bias depend on the order of the samples", c2)
        # scaling by a power of two is exact in binary floating point, so the scaled computation is the
        # same sequence of roundings: the results must agree (no cancellation-dependent tolerance);
        # other factors are compared against the exact rational value of the scaled inputs
        s = rng.choice([2.0, -0.5, 1024.0, 2.0 ** -20, -4.0])
        if rel(sc.mape(s * pred, s * truth), m) > 1e-13 or abs(float(sc.bias(s * pred, s * truth)) - b) > 1e-13 * max(abs(float(wm)), abs(b), 1e-300):
            ck.violation("other", f"mape/bias change under a common scale factor {s}", dict(c2, scale=s))
        s = rng.choice([1e3, 1e-6, -3.7, 0.1])
        sp, st = s * pred, s * truth
        wms = sum(100 * abs(Fraction(float(t)) - Fraction(float(p))) / abs(Fraction(float(t))) for p, t in zip(sp, st)) / ns
        wbs = sum(100 * (Fraction(float(p)) - Fraction(float(t))) / Fraction(float(t)) for p, t in zip(sp, st)) / ns
        if rel(sc.mape(sp, st), wms) > 1e-10 or abs(float(sc.bias(sp, st)) - float(wbs)) > 1e-9 * max(float(wms), 1e-300):
            ck.violation("other", f"mape/bias of inputs scaled by {s} differ from their exact value", dict(c2, scale=s))
        if xrun and len(calls) < 4000:
            calls.append(("mape", (float(pred[0]), float(truth[0])), float(sc.mape(pred[:1], truth[:1]))))
            calls.append(("bias", (float(pred[0]), float(truth[0])), float(sc.bias(pred[:1], truth[:1]))))
    if xrun:
        numlib.float_cross(ck, calls, exe="drv_scores")


def main():
    ck = vlib.Check(PROP, pkg="numeric", props="Proofs.Props.C19", driver="drv_scores",
                    model_files=["GenReal/Scores.lean"],
                    trusted=["tools/py2lean (translator) incl. its recognition of the top-level np.mean / np.nanmean(axis=0) as 'mean over the samples of the emitted pointwise term' (validated each run: Float cross-run of the term + oracle comparison of the reduction on arrays)",
                             "reshaping of (n,), (n,1), (n,k) inputs and the ValueError for inconsistent shapes are glue, exercised by the harness only",
                             "NaN-free data (np.nanmean = mean)"],
                    assumptions=["0 < tau < 1; non-zero truth values for mape/bias"])
    ck.rule = ("random samples (normal, ties, heavy-tailed, integers; 1..60 values) with k = 1..4 quantile fractions and all three array shapes; "
               "non-trivial = distinct (sample, taus) case")
    ck.anchors([("typhon/retrieval/scores.py", n) for n in FUNCS])
    numlib.regenerate(ck, NEEDED)
    ck.build()
    import numpy as np
    from typhon.retrieval import scores as sc
    xrun = True
    try:
        ck.driver(["planck 0 0"], exe="drv_scores")
    except vlib.InfraError:
        xrun = False
        ck.notes.append("Float driver not available (build broken): cross-run skipped")
    for _name, c in vlib.load_corpus(PROP):
        corpus_case(ck, c, sc, np)
    ck.guard(lambda: explore(ck, ck.budget(120, 3000), sc, np, xrun), what="typhon.retrieval.scores")
    if ck.broken() and not ck.violations:
        ck.guard(lambda: explore(ck, 3000, sc, np, xrun=False), what="typhon.retrieval.scores")
    ck.finish()


def corpus_case(ck, c, sc, np):
    """stored witnesses: {"fn": "bias"|"mape", "y_pred": [...], "y_test": [...], "expect": value}"""
    fn = c.get("fn")
    if fn in ("bias", "mape"):
        got = float(getattr(sc, fn)(np.array(c["y_pred"], float), np.array(c["y_test"], float)))
        ck.case(key=("corpus", fn, str(c["y_pred"])), kind="corpus")
        if abs(got - c["expect"]) > 1e-9 * max(abs(c["expect"]), 1.0):
            ck.violation("other", f"{fn}({c['y_pred']}, {c['y_test']}) = {got!r}, expected {c['expect']!r}", c)


def replay(path):
    import numpy as np
    from typhon.retrieval import scores as sc
    numlib.replay_by_rerun(PROP, path, lambda: vlib.Check(PROP, pkg="numeric", props="Proofs.Props.C19"),
                           lambda ck: (ck.guard(lambda: explore(ck, ck.budget(120, 3000), sc, np, xrun=False)),
                                       [corpus_case(ck, c, sc, np) for _n, c in vlib.load_corpus(PROP)]))
