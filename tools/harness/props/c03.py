"""C03 — IntervalTree queries and FileSet.match report exactly the overlapping intervals.

Decided by: theorems in lean/fileset/Proofs/Props/C03.lean about the hand-written model
lean/fileset/Model/IntervalTree.lean + correspondence of that model's executable
definitions (driver drv_c03) with typhon.trees.IntervalTree / FileSet.match on the same
inputs + an independent brute-force oracle on the real code.
"""
import datetime as dt
import json
import os
import shutil
import tempfile

import vlib

PROP = "C03"


# ---------------------------------------------------------------- generators
def gen_intervals(rng, kind):
    """returns (intervals, queries, points) in the value type `kind`"""
    style = rng.choice(["random", "nested", "dups", "degenerate", "grid", "chain", "single"])
    n = 1 if style == "single" else rng.randint(1, rng.choice([4, 12, 60]))
    span = rng.choice([3, 8, 50, 1000])
    base = rng.choice([0, 0, -span // 2, -2 * span, 5])

    def val():
        return base + rng.randint(0, span)

    ivs = []
    if style == "nested":
        lo, hi = base, base + span
        for _ in range(n):
            ivs.append((lo, hi))
            if hi - lo >= 2 and rng.random() < 0.8:
                lo += rng.randint(0, 1)
                hi -= rng.randint(0, 1)
    elif style == "chain":
        x = base
        for _ in range(n):
            w = rng.randint(0, 3)
            ivs.append((x, x + w))
            x += w + rng.randint(0, 1)      # touching or with gap
    else:
        for _ in range(n):
            a, b = val(), val()
            if style == "degenerate" and rng.random() < 0.6:
                b = a
            ivs.append((min(a, b), max(a, b)))
        if style == "dups":
            ivs += [rng.choice(ivs) for _ in range(rng.randint(1, 4))]
    if rng.random() < 0.3:
        ivs.append((0, 0))
    rng.shuffle(ivs)
    ends = sorted({v for iv in ivs for v in iv})
    lo_all, hi_all = ends[0], ends[-1]
    queries = [(lo_all, hi_all), (lo_all - 1, hi_all + 1), (lo_all - 5, lo_all - 1), (hi_all + 1, hi_all + 3),
               (lo_all - 2, lo_all), (hi_all, hi_all + 2)]
    for _ in range(rng.randint(2, 8)):
        a = rng.choice(ends) + rng.choice([-1, 0, 0, 1])
        b = a + rng.choice([0, 0, 1, 2, span // 2])
        queries.append((a, b))
    points = [lo_all - 1, lo_all, hi_all, hi_all + 1, 0] + [rng.choice(ends) + rng.choice([-1, 0, 1]) for _ in range(6)]

    if kind == "int":
        conv = lambda v: v
    elif kind == "float":
        scale = rng.choice([0.5, 0.1, 1e-3, 1e6, 1.0])
        conv = lambda v: v * scale
    else:  # datetime
        origin = dt.datetime(2000, 1, 1) + dt.timedelta(days=rng.randint(0, 9000))
        unit = rng.choice([dt.timedelta(microseconds=1), dt.timedelta(seconds=1), dt.timedelta(hours=7)])
        conv = lambda v: origin + v * unit
    cv = lambda seq: [tuple(conv(x) for x in it) for it in seq]
    return cv(ivs), cv(queries), [conv(p) for p in points], style


def rank_map(values):
    """order-preserving map of arbitrary comparable values to integers"""
    u = sorted(set(values))
    return {v: 2 * i for i, v in enumerate(u)}


def classify(case):
    return "other"


# ---------------------------------------------------------------- tree part
def tree_case(ck, ivs, queries, points, meta, use_model=True):
    """run the real tree, the oracle and (optionally) the model on one case"""
    import numpy as np
    from typhon.trees import IntervalTree
    allv = [v for iv in ivs for v in iv] + [v for q in queries for v in q] + list(points)
    rm = rank_map(allv)
    case = {"op": "tree", "meta": meta,
            "intervals": [[rm[a], rm[b]] for a, b in ivs],
            "queries": [[rm[a], rm[b]] for a, b in queries],
            "points": [rm[p] for p in points]}
    # real code
    try:
        tree = IntervalTree(np.asarray([list(iv) for iv in ivs]) if meta.get("kind") != "datetime" else [list(iv) for iv in ivs])
        got_q = [sorted(int(i) for i in r) for r in tree.query([list(q) for q in queries])]
        raw_q = tree.query([list(q) for q in queries])
        got_p = [sorted(int(i) for i in r) for r in tree.query_points(list(points))]
        raw_p = tree.query_points(list(points))
        got_cp = [bool(p in tree) for p in points]
        got_ci = [bool(tuple(q) in tree) for q in queries]
    except RecursionError as e:
        ck.violation(classify(case), f"IntervalTree raised RecursionError", case)
        return
    except Exception as e:
        ck.violation(classify(case), f"IntervalTree raised {type(e).__name__}: {e}", case)
        return
    # oracle
    want_q = [[i for i, (a, b) in enumerate(ivs) if a <= qh and ql <= b] for ql, qh in queries]
    want_p = [[i for i, (a, b) in enumerate(ivs) if a <= p <= b] for p in points]
    nontriv = sum(1 for w in want_q if w) > 0 and len(ivs) > 1
    ck.case(key=json.dumps(case["intervals"]) if nontriv else None, kind=f"tree/{meta.get('kind')}/{meta.get('style')}",
            sample={"intervals": case["intervals"][:8], "query": (case["queries"] or [None])[0], "answer": (want_q or [[]])[0][:8]})
    for k, (g, w, r) in enumerate(zip(got_q, want_q, raw_q)):
        if g != w or len(r) != len(set(r)):
            c = dict(case, queries=[case["queries"][k]], points=[])
            ck.violation(classify(c), f"query({case['queries'][k]}) returned {list(map(int, r))}, expected indices {w}", c)
    for k, (g, w, r) in enumerate(zip(got_p, want_p, raw_p)):
        if g != w or len(r) != len(set(r)):
            c = dict(case, queries=[], points=[case["points"][k]])
            ck.violation(classify(c), f"query_points({case['points'][k]}) returned {list(map(int, r))}, expected {w}", c)
    for k, (g, w) in enumerate(zip(got_cp, want_p)):
        if g != bool(w):
            c = dict(case, queries=[], points=[case["points"][k]])
            ck.violation(classify(c), f"({case['points'][k]} in tree) = {g}, expected {bool(w)}", c)
    for k, (g, w) in enumerate(zip(got_ci, want_q)):
        if g != bool(w):
            c = dict(case, queries=[case["queries"][k]], points=[])
            ck.violation(classify(c), f"({case['queries'][k]} in tree) = {g}, expected {bool(w)}", c)
    if not use_model:
        return
    # model
    lines = ["tree " + " ".join(f"{a} {b}" for a, b in case["intervals"])]
    lines += [f"query {a} {b}" for a, b in case["queries"]]
    lines += [f"point {p}" for p in case["points"]]
    out = ck.driver(lines)
    nq = len(queries)
    parse = lambda s: [] if s == "-" else sorted(int(x) for x in s.split())
    if out[0] != "ok":
        ck.disagree(f"model rejected tree: {out[0]}", case)
        return
    for k in range(nq):
        if parse(out[1 + k]) != got_q[k]:
            ck.disagree(f"query {case['queries'][k]}: model {out[1 + k]} vs code {got_q[k]}", dict(case, queries=[case["queries"][k]], points=[]))
    for k in range(len(points)):
        if parse(out[1 + nq + k]) != got_p[k]:
            ck.disagree(f"point {case['points'][k]}: model {out[1 + nq + k]} vs code {got_p[k]}", dict(case, queries=[], points=[case["points"][k]]))


# ---------------------------------------------------------------- match part
TEMPLATE = "{year}{month}{day}_{hour}{minute}{second}{millisecond}-{end_year}{end_month}{end_day}_{end_hour}{end_minute}{end_second}{end_millisecond}.dat"


TEMPLATE_US = "{year}{month}{day}_{hour}{minute}{second}{microsecond}-{end_year}{end_month}{end_day}_{end_hour}{end_minute}{end_second}{end_microsecond}.dat"


def own_name(directory, a, b, micro):
    """file name for the coverage (a, b), formatted by the harness itself"""
    if micro:
        f = lambda t: f"{t:%Y%m%d_%H%M%S}{t.microsecond:06d}"
    else:
        f = lambda t: f"{t:%Y%m%d_%H%M%S}{t.microsecond // 1000:03d}"
    return os.path.join(directory, f"{f(a)}-{f(b)}.dat")


def us(t):
    return (t - dt.datetime(1, 1, 1)) // dt.timedelta(microseconds=1)


def from_us(n):
    return dt.datetime(1, 1, 1) + dt.timedelta(microseconds=n)


def gen_fileset_times(rng, origin, n, whole=False, res=None):
    res = res or rng.choice([1000, 1_000_000, 60_000_000])          # µs granularity (ms, s, min)
    out = []
    t = 0
    for _ in range(n):
        t += rng.randint(0, 40) * res
        d = rng.choice([0, 0, 1, 5, 30, 200]) * res
        out.append((origin + dt.timedelta(microseconds=t), origin + dt.timedelta(microseconds=t + d)))
    if whole and out:
        out.append((out[0][0] - dt.timedelta(seconds=1), out[-1][1] + dt.timedelta(hours=1)))
    return sorted(set(out))


def match_case(ck, rng, scratch, use_model=True):
    origin = dt.datetime(2015, 1, 1) + dt.timedelta(days=rng.randint(0, 2000), hours=rng.randint(0, 23))
    long_scale = rng.random() < 0.3        # files hours/days apart, max_interval of a day or more
    micro = (not long_scale) and rng.random() < 0.3      # microsecond-resolution names and thresholds
    res = rng.choice([3_600_000_000, 6 * 3_600_000_000]) if long_scale else (rng.choice([1, 7, 250]) if micro else None)
    t1 = gen_fileset_times(rng, origin, rng.randint(1, 12), whole=rng.random() < 0.15, res=res)
    t2 = gen_fileset_times(rng, origin + dt.timedelta(microseconds=rng.randint(-50, 50) * (1 if micro else 1000)),
                           rng.randint(1, 12), whole=rng.random() < 0.2, res=res)
    if long_scale:
        mi_us = rng.choice([0, 3_600_000_000, 86_400_000_000, 86_400_000_000 + 5_000_000, 2 * 86_400_000_000 + 1500,
                            7 * 86_400_000_000, None])
    elif micro:
        mi_us = rng.choice([None, 0, 1, 3, 999, 1500, 2_000_001])
    else:
        mi_us = rng.choice([None, 0, 1000, 1_500_000, 1_000_000, 60_000_000, 3_600_000_000, 86_400_000_000])
    lo = min(t1[0][0], t2[0][0]) - dt.timedelta(hours=2)
    hi = max(t1[-1][1], t2[-1][1]) + dt.timedelta(hours=2)
    if rng.random() < 0.5 and not long_scale:   # period cutting through the data
        lo = origin + dt.timedelta(microseconds=rng.randint(0, 200) * (1 if micro else 1_000_000))
        hi = lo + dt.timedelta(microseconds=rng.randint(1, 400) * (1 if micro else 1_000_000))
    open_kind = rng.choice(["closed", "closed", "closed", "open-start", "open-end", "open-both"])
    case = {"op": "match", "t1": [[us(x), us(y)] for x, y in t1], "t2": [[us(x), us(y)] for x, y in t2],
            "start": None if open_kind in ("open-start", "open-both") else us(lo),
            "end": None if open_kind in ("open-end", "open-both") else us(hi),
            "mi": mi_us, "micro": micro, "long": long_scale}
    run_match(ck, case, scratch, use_model)
    # half-open periods whose finite bound lies INSIDE the data (with and without max_interval): the finite bound must
    # still cut, only the open side is unbounded
    if rng.random() < 0.35:
        dmin, dmax = min(t1[0][0], t2[0][0]), max(t1[-1][1], t2[-1][1])
        span_us = max(int((dmax - dmin) / dt.timedelta(microseconds=1)), 1)
        cut = dmin + dt.timedelta(microseconds=rng.randint(0, span_us))
        for start, end in ((us(cut), None), (None, us(cut))):
            c2 = dict(case, start=start, end=end)
            run_match(ck, c2, scratch, use_model)


def run_match(ck, case, scratch, use_model=True):
    """build the two filesets of `case` on disk, run the real match(), the oracle and the model"""
    from typhon.files import FileSet
    from typhon.files.fileset import NoFilesError
    micro, mi_us = case.get("micro", False), case["mi"]
    t1 = [(from_us(a), from_us(b)) for a, b in case["t1"]]
    t2 = [(from_us(a), from_us(b)) for a, b in case["t2"]]
    lo = None if case["start"] is None else from_us(case["start"])
    hi = None if case["end"] is None else from_us(case["end"])
    d = tempfile.mkdtemp(dir=scratch)
    try:
        dirs = []
        for k, ts in enumerate((t1, t2)):
            sub = os.path.join(d, f"s{k}")
            os.makedirs(sub)
            fs = FileSet(os.path.join(sub, TEMPLATE_US if micro else TEMPLATE), name=f"s{k}")
            for a_, b_ in ts:
                open(own_name(sub, a_, b_, micro), "w").close()
            dirs.append(fs)
        a, b = dirs
        mi = None if mi_us is None else dt.timedelta(microseconds=mi_us)
        w = dt.timedelta(0) if mi is None else mi
        # widened search period, clipped to the range of datetime (independent of typhon)
        def widen(t, sign):
            if t is None:
                return dt.datetime.min if sign < 0 else dt.datetime.max
            try:
                return t - w if sign < 0 else t + w
            except OverflowError:
                return dt.datetime.min if sign < 0 else dt.datetime.max
        wlo, whi = widen(lo, -1), widen(hi, +1)
        try:
            got = list(a.match(b, lo, hi, max_interval=mi))
            raised = None
        except NoFilesError:
            got, raised = None, "nofiles"
        except Exception as e:
            ck.violation(classify(case), f"match raised {type(e).__name__}: {e}", case)
            return
        # the files both find() calls are expected to deliver (C01 territory; taken from the real code)
        f1 = list(a.find(wlo, whi, no_files_error=False))
        f2 = list(b.find(wlo, whi, no_files_error=False))
        if raised == "nofiles":
            ck.case(kind="match/nofiles")
            if f1 and f2:
                ck.violation(classify(case), f"match raised NoFilesError although both filesets have files in the widened period ({len(f1)} / {len(f2)})", case)
            return
        want = []
        for p in f1:
            partners = [s_ for s_ in f2 if s_.times[0] - w <= p.times[1] and p.times[0] <= s_.times[1] + w]
            if partners:
                want.append((p.path, [s_.path for s_ in partners]))
        gotc = [(p.path, [s_.path for s_ in ss]) for p, ss in got]
        npairs = sum(len(x[1]) for x in want)
        kind = "match/" + ("long/" if case.get("long") else "micro/" if micro else "") + \
               ("open/" if lo is None or hi is None else "") + \
               ("mi>=1d" if (mi_us or 0) >= 86_400_000_000 else "mi" if mi_us else "nomi")
        ck.case(key=json.dumps(case) if npairs > 1 else None, kind=kind,
                sample={"t1": case["t1"][:4], "t2": case["t2"][:4], "mi": mi_us, "pairs": npairs})
        if gotc != want:
            ck.violation(classify(case), f"match yielded {[(os.path.basename(p), [os.path.basename(s_) for s_ in ss]) for p, ss in gotc][:4]} "
                                         f"expected {[(os.path.basename(p), [os.path.basename(s_) for s_ in ss]) for p, ss in want][:4]}", case)
        if use_model:
            x1 = [(us(f.times[0]), us(f.times[1])) for f in f1]
            x2 = [(us(f.times[0]), us(f.times[1])) for f in f2]
            if not x2:
                return
            line = f"match {mi_us or 0} {len(x1)} " + " ".join(f"{p} {q}" for p, q in x1) + f" {len(x2)} " + " ".join(f"{p} {q}" for p, q in x2)
            out = ck.driver([line])[0]
            model = [] if out == "-" else [(int(t.split(":")[0]), [int(j) for j in t.split(":")[1].split(",")]) for t in out.split()]
            try:
                code = [(f1.index(p), [f2.index(s_) for s_ in ss]) for p, ss in got]
            except ValueError:
                # match yielded a file outside the (widened) period: already judged above (gotc != want), no model comparison
                ck.count("match/yielded-file-outside-period")
                return
            if model != code:
                ck.disagree(f"match: model {model[:5]} vs code {code[:5]}", case)
    finally:
        shutil.rmtree(d, ignore_errors=True)


# ---------------------------------------------------------------- corpus replay
def run_corpus_case(ck, c, use_model=True, scratch=None):
    if c.get("op") == "match":
        own = scratch is None
        scratch = scratch or tempfile.mkdtemp(prefix="verif_c03_")
        try:
            run_match(ck, c, scratch, use_model)
        finally:
            if own:
                shutil.rmtree(scratch, ignore_errors=True)
    if c.get("op") == "tree":
        ivs = [tuple(x) for x in c["intervals"]]
        tree_case(ck, ivs, [tuple(q) for q in c.get("queries", [])], list(c.get("points", [])),
                  {"kind": "int", "style": "corpus"}, use_model)


def explore(ck, n_tree, n_match, scratch, use_model=True):
    rng = ck.rng
    for _ in range(n_tree):
        kind = rng.choice(["int", "int", "float", "datetime"])
        ivs, qs, ps, style = gen_intervals(rng, kind)
        tree_case(ck, ivs, qs, ps, {"kind": kind, "style": style}, use_model)
    for _ in range(n_match):
        match_case(ck, rng, scratch, use_model)


def exhaustive_small(ck, use_model):
    """all interval multisets with <= 3 intervals over a 4-point grid, all queries/points on
    the grid extended by one on each side"""
    import itertools
    grid = [0, 1, 2, 3]
    ivals = [(a, b) for a in grid for b in grid if a <= b]
    qs = [(a, b) for a in range(-1, 5) for b in range(-1, 5) if a <= b]
    ps = list(range(-1, 5))
    for k in (1, 2, 3):
        for combo in itertools.product(ivals, repeat=k):
            tree_case(ck, list(combo), qs, ps, {"kind": "int", "style": f"exh{k}"}, use_model)


def main():
    ck = vlib.Check(PROP, pkg="fileset", props="Proofs.Props.C03", driver="drv_c03",
                    lemma_files=["Proofs/Lemmas/IntervalTree.lean"], model_files=["Model/IntervalTree.lean"],
                    trusted=["hand-written model Model/IntervalTree.lean tied to typhon/trees.py and FileSet.match by the correspondence run of this check (driver drv_c03, same inputs, canonicalised = sorted index lists)",
                             "numpy sorting/masking primitives and M8[us] casting are modelled, not verified",
                             "float/datetime endpoints are mapped to integers by an order-preserving rank map (the model and theorems are generic in the linear order)"],
                    assumptions=["FileSet.match: the two find() results are taken from the real code (their correctness is C01)",
                                 "stored intervals satisfy lo <= hi (the property speaks of closed intervals)"])
    ck.rule = ("random interval sets (styles random/nested/dups/degenerate/grid/chain/single; int, float, datetime) with queries "
               "inside/outside/touching/covering + FileSet.match on generated filesets; non-trivial = distinct interval set with "
               ">1 interval and a non-empty answer, or a match case with >1 pair")
    ck.anchors([("typhon/trees.py", "IntervalTree"), ("typhon/files/fileset.py", "FileSet.match")])
    ck.build()
    use_model = ck.build_ok is not False or os.path.exists(os.path.join(ck.pkgdir, ".lake/build/bin/drv_c03"))
    scratch = tempfile.mkdtemp(prefix="verif_c03_")
    try:
        for name, c in vlib.load_corpus(PROP):
            run_corpus_case(ck, c, use_model)
        if ck.tier == "thorough":
            exhaustive_small(ck, use_model)
            ck.exhaustive = True
            ck.notes.append("exhaustive: all multisets of <=3 intervals over a 4-point grid x all grid queries/points")
        explore(ck, ck.budget(600, 20000), ck.budget(60, 1500), scratch, use_model)
        if ck.broken() and not ck.violations:
            # failing-input search on the real code with the larger budget (oracle only)
            explore(ck, 20000, 500, scratch, use_model=False)
    finally:
        shutil.rmtree(scratch, ignore_errors=True)
    ck.finish()


def replay(path):
    obj = json.load(open(path))
    ck = vlib.Check(PROP, pkg="fileset", props="Proofs.Props.C03", driver="drv_c03")
    c = obj.get("case")
    if not c:
        print(json.dumps(obj, indent=1)[:2000])
        print("NOT-REPLAYABLE: no failing input was found for this violation (broken obligation / correspondence)")
        raise SystemExit(1)
    run_corpus_case(ck, c, use_model=False)
    for v in ck.violations:
        print("REPRODUCED:", v["what"])
    raise SystemExit(1 if ck.violations else 0)
