"""Reader / mapped function / gates used by the C10 harness.

They live in an importable module because process pools pickle them by reference.  The
behaviour of one case is configured through the module-global CTL, which worker threads share
and forked worker processes inherit (the pools are created after CTL is set).

Gates: a task announces that it has *started* and then blocks until the controller *releases*
it.  Thread mode uses threading.Event objects, process mode uses marker files in CTL.dir
(`started.<t>`, `release.<t>`, `openall`) polled every millisecond.
"""
import os
import threading
import time


class Ctl:
    def __init__(self, mode="thread", gdir=None, ntasks=0, rb="", fb="", gate="none",
                 task_of_file=None, name="a", ids=None):
        self.mode = mode
        self.dir = gdir
        self.ntasks = ntasks
        self.rb = rb                      # reader behaviour per file id: o / n / f
        self.fb = fb                      # function behaviour per key (first file id): v / n / r
        self.gate = gate                  # "reader" | "func" | "none"
        self.task_of_file = task_of_file or {}   # file id -> task index (first file of a task)
        self.name = name
        self.ids = ids or {}              # basename -> file id
        self.lock = threading.Lock()
        self.reads = []                   # thread mode: file ids in the order they were read
        self.starts = []                  # thread mode: tasks in the order they started
        self.started_ev = [threading.Event() for _ in range(ntasks)]
        self.release_ev = [threading.Event() for _ in range(ntasks)]
        self.opened = threading.Event()

    # ---- called from tasks
    def enter(self, t):
        if t is None or t >= self.ntasks:
            return
        if self.mode == "thread":
            with self.lock:
                self.starts.append(t)
            self.started_ev[t].set()
            while not (self.release_ev[t].wait(0.05) or self.opened.is_set()):
                pass
        else:
            fd = os.open(os.path.join(self.dir, f"started.{t}"), os.O_CREAT | os.O_WRONLY)
            os.close(fd)
            rel = os.path.join(self.dir, f"release.{t}")
            opn = os.path.join(self.dir, "openall")
            t0 = time.time()
            while not (os.path.exists(rel) or os.path.exists(opn)):
                time.sleep(0.001)
                if time.time() - t0 > 60:      # never hang a worker process forever
                    break

    def note_read(self, f):
        if self.mode == "thread":
            with self.lock:
                self.reads.append(f)
        else:
            fd = os.open(os.path.join(self.dir, "reads.log"), os.O_CREAT | os.O_WRONLY | os.O_APPEND)
            os.write(fd, f"{f}\n".encode())
            os.close(fd)

    # ---- called from the controller / main thread
    def is_started(self, t):
        if self.mode == "thread":
            return self.started_ev[t].is_set()
        return os.path.exists(os.path.join(self.dir, f"started.{t}"))

    def wait_started(self, t, timeout):
        t0 = time.time()
        while True:
            if self.is_started(t):
                return True
            if self.opened.is_set() or time.time() - t0 > timeout:
                return self.is_started(t)
            if self.mode == "thread":
                self.started_ev[t].wait(0.02)
            else:
                time.sleep(0.001)

    def release(self, t):
        if self.mode == "thread":
            self.release_ev[t].set()
        else:
            fd = os.open(os.path.join(self.dir, f"release.{t}"), os.O_CREAT | os.O_WRONLY)
            os.close(fd)

    def open_all(self):
        self.opened.set()
        if self.mode == "thread":
            for e in self.release_ev:
                e.set()
        else:
            fd = os.open(os.path.join(self.dir, "openall"), os.O_CREAT | os.O_WRONLY)
            os.close(fd)

    def read_log(self):
        if self.mode == "thread":
            with self.lock:
                return list(self.reads)
        p = os.path.join(self.dir, "reads.log")
        if not os.path.exists(p):
            return []
        return [int(x) for x in open(p).read().split()]


CTL = {}          # fileset name -> Ctl   (align uses two filesets)


def file_id(info):
    """index of a scratch file (registered by the harness when it creates the fileset)"""
    path = info.path if hasattr(info, "path") else str(info)
    return CTL[os.path.basename(os.path.dirname(path))].ids[os.path.basename(path)]


def fileset_name(info):
    path = info.path if hasattr(info, "path") else str(info)
    return os.path.basename(os.path.dirname(path))


def reader(file_info, **kwargs):
    ctl = CTL[fileset_name(file_info)]
    f = file_id(file_info)
    ctl.note_read(f)
    if ctl.gate == "reader":
        ctl.enter(ctl.task_of_file.get(f))
    b = ctl.rb[f] if f < len(ctl.rb) else "o"
    if b == "f":
        raise IOError(f"read {f}")
    if b == "n":
        return None
    with open(file_info.path) as fh:
        return int(fh.read()) + 100000 * int(kwargs.get("tag", 0))     # echo of read_args


def writer(data, file_info, **kwargs):
    """writer of the output fileset (map(..., output=...)): one text file per written value"""
    with open(file_info.path, "w") as fh:
        fh.write(str(data))


# ---- canonical rendering of what the mapped function received (mirrors Driver/C10.lean)
def render_file(x):
    if isinstance(x, (list, tuple)):
        return "b" + ",".join(str(file_id(i)) for i in x)
    return f"s{file_id(x)}"


def render_content(c):
    if c is None:
        return "N"
    if isinstance(c, list):
        return "m" + ",".join(str(v) for v in c)
    return f"o{c}"


def first_file(x):
    if isinstance(x, (list, tuple)):
        return file_id(x[0]) if x else None
    return file_id(x)


def func(*args, **kwargs):
    """the mapped function: args are the user's args= (strings) followed by (info,), (content,)
    or (content, info); the user's kwargs= arrive as keywords"""
    ctl = CTL["a"]
    nu = 0
    while nu < len(args) and isinstance(args[nu], str):
        nu += 1
    uargs, args = args[:nu], args[nu:]
    if len(args) not in (1, 2):
        raise TypeError(f"mapped function called with {len(args)} file arguments after {uargs}")
    is_info = lambda x: hasattr(x, "path") or (isinstance(x, (list, tuple)) and x and hasattr(x[0], "path"))
    if len(args) == 1 and is_info(args[0]):
        text = "I" + render_file(args[0])
        key = first_file(args[0])
    elif len(args) == 1:
        c = args[0]
        text = "C" + render_content(c)
        key = None
        if isinstance(c, int):
            key = (c - 1000) % 100000
        elif isinstance(c, list) and c:
            key = (c[0] - 1000) % 100000
    else:
        text = "C" + render_content(args[0]) + "I" + render_file(args[1])
        key = first_file(args[1])
    if ctl.gate == "func" and key is not None:
        ctl.enter(ctl.task_of_file.get(key))
    b = ctl.fb[key] if (key is not None and 0 <= key < len(ctl.fb)) else "v"
    if b == "n":
        return None
    if b == "r":
        raise RuntimeError(f"func {key}")
    return "".join("U" + a for a in uargs) + text + "".join(f"K{k}={v}" for k, v in sorted(kwargs.items()))
