"""C18 — BMCI estimates are the importance-weighted statistics of its database.

Decided by: theorems in lean/bmci/Proofs/Props/C18.lean about the hand-written model
lean/bmci/Model/Bmci.lean (bookkeeping of typhon.retrieval.bmci.BMCI: sort along the
projection, searchsorted window, weights restricted to the window, mean/variance, x-sorted
view, cdf, interpolated quantiles, NaN branches) + correspondence of the model's executable
definitions (driver drv_c18, exact rationals of the doubles the real code produced) with the
real class on the same inputs + an independent oracle (longdouble sums over the WHOLE
database, own Cholesky) on the real code.
"""
import json
import math
import os
import sys
from fractions import Fraction

import numpy as np

import vlib

PROP = "C18"
sys.set_int_max_str_digits(0)
LD = np.longdouble
EPS = 2.0 ** -52
SIG_ROUNDING = "x2max0-exact-match-rounding"

CHECK_ARGS = dict(
    pkg="bmci", props="Proofs.Props.C18", driver="drv_c18",
    lemma_files=["Proofs/Lemmas/ListAux.lean", "Proofs/Lemmas/Window.lean", "Proofs/Lemmas/Stats.lean",
                 "Proofs/Lemmas/Interp.lean", "Proofs/Lemmas/Ecdf.lean", "Proofs/Lemmas/Spectral.lean",
                 "Proofs/Lemmas/VarShift.lean", "Proofs/Lemmas/Bisect.lean"],
    model_files=["Model/Bmci.lean"],
    trusted=[
        "hand-written model Model/Bmci.lean tied to typhon/retrieval/bmci/bmci.py by the correspondence run of this check "
        "(driver drv_c18; the real pc1_proj, x, x_sorted_inds, window bounds and weights cross the pipe as exact rationals of the doubles)",
        "numpy primitives modelled by contract, not verified: argsort = some sorting permutation (checked on the real arrays by Db.validB), "
        "searchsorted on a sorted array = count of elements < v / <= v, cumsum, np.interp = last index with xp[j] <= t + linear formula",
        "float arithmetic: theorems are over an arbitrary linearly ordered field (exact); rounding of dot/exp/sums is validated only "
        "(model in exact rationals vs real output to 1e-9 on well-conditioned cases)",
        "exp, sqrt, eig, inv, dot are outside the model: weights enter as arbitrary non-negative numbers, s_l/s_u as numbers with s_l <= s_u",
    ],
    assumptions=[
        "spectral inequality chi2_i >= pc1_e * (proj_i - y_proj)^2 is a hypothesis of C18_window_sound; C18_spectral_inequality derives it for a unit "
        "eigenpair of a positive definite real matrix; that np.linalg.eig delivers such a pair (and inv the inverse) is trusted, "
        "and the oracle checks the consequence entry by entry on every generated case",
        "s_o symmetric positive definite, database and observation finite (no NaN/inf), x2_max >= 0 or unrestricted (< 0)",
        "estimates compared numerically only when the total weight is not tiny (sum w > 1e-290) and chi2 is well-conditioned; sigma is compared "
        "relative to the posterior SPREAD (1e-6 var + (8 n eps |x|)^2), not to |x|",
        "any search window that is sound w.r.t. the property (every excluded entry has chi2 > x2_max, longdouble oracle) is accepted; the bounds "
        "handed to np.searchsorted are captured from the real code and fed to the model; their deviation from the documented radius is a diagnostic only",
    ])


# ---------------------------------------------------------------- small helpers
def F(v):
    return Fraction(float(v))


def fs(fr):
    return str(fr.numerator) if fr.denominator == 1 else f"{fr.numerator}/{fr.denominator}"


def pf(s):
    return Fraction(s)


def isnan(v):
    try:
        return bool(np.all(np.isnan(v)))
    except TypeError:
        return False


def lexkey(z):
    z = complex(z)
    return (z.real, z.imag)


# ---------------------------------------------------------------- oracle (independent of typhon)
def chol_ld(S):
    m = S.shape[0]
    L = np.zeros((m, m), dtype=LD)
    S = S.astype(LD)
    for i in range(m):
        for j in range(i + 1):
            s = S[i, j] - sum((L[i, k] * L[j, k] for k in range(j)), LD(0))
            if i == j:
                if not s > 0:
                    raise ValueError("not SPD")
                L[i, i] = np.sqrt(s)
            else:
                L[i, j] = s / L[j, j]
    return L


def chi2_ld(L, dy):
    """chi2_i = dy_i^T S^-1 dy_i = |L^-1 dy_i|^2  (longdouble, forward substitution)"""
    n, m = dy.shape
    z = np.zeros((n, m), dtype=LD)
    for k in range(m):
        acc = dy[:, k].astype(LD).copy()
        for j in range(k):
            acc -= L[k, j] * z[:, j]
        z[:, k] = acc / L[k, k]
    return (z * z).sum(axis=1)


class Oracle:
    def __init__(self, y, x, s_o):
        self.y, self.x, self.s = y, x, s_o
        self.L = chol_ld(s_o)
        self.sinv_abs = np.abs(np.linalg.inv(s_o))
        self.cond = float(np.linalg.cond(s_o))

    def weights(self, y_obs):
        dy = self.y.astype(LD) - y_obs.astype(LD).reshape(1, -1)
        chi2 = chi2_ld(self.L, dy)
        dyd = (self.y - y_obs.reshape(1, -1))
        chi2_solve = np.sum(dyd * np.linalg.solve(self.s, dyd.T).T, axis=1)
        a = np.sum(np.abs(dyd) * (np.abs(dyd) @ self.sinv_abs), axis=1)
        delta = 1e-13 * (self.cond * chi2.astype(float) + a) + 4.0 * np.abs(chi2_solve - chi2.astype(float))
        w = np.exp(-chi2 / LD(2))
        return chi2, w, delta

    @staticmethod
    def stats(w, x, idx=None):
        if idx is not None:
            w, x = w[idx], x[idx]
        W = w.sum()
        if not W > 0:
            return None
        xl = x.astype(LD)
        mean = (w * xl).sum() / W
        var = (w * (xl - mean) ** 2).sum() / W
        return float(mean), float(var), W


def oracle_quantiles(xw, ww, taus, d):
    """brute-force inverse of the weighted ecdf with np.interp semantics, independent of typhon.
    Returns (lo, hi) per tau: the smallest / largest value any order of ties in x can give
    (ties by descending / ascending weight), at tau -/+ d (d = rounding allowance of the cdf)."""
    res = []
    for sgn, dd in ((-1.0, -d), (1.0, d)):
        order = np.lexsort((sgn * ww.astype(float), xw))        # by x, ties by weight (desc for lo, asc for hi)
        xs = xw[order].astype(LD)
        cum = np.cumsum(ww[order].astype(LD))
        cum = cum / cum[-1]
        vals = []
        for t in taus:
            t = LD(min(1.0, max(0.0, t + dd)))
            if t < cum[0]:
                vals.append(float(xs[0]))
                continue
            j = int(np.searchsorted(cum, t, side="right")) - 1          # last index with cum[j] <= t
            if j >= len(xs) - 1 or cum[j] == t:
                vals.append(float(xs[min(j, len(xs) - 1)]))
            else:
                vals.append(float((xs[j + 1] - xs[j]) / (cum[j + 1] - cum[j]) * (t - cum[j]) + xs[j]))
        res.append(vals)
    return res[0], res[1]


def ecdf_groups(xs, cum):
    """cdf as a function of x: value at the last entry of each group of equal x"""
    out = {}
    for a, c in zip(xs, cum):
        out[float(a)] = float(c)
    return out


# ---------------------------------------------------------------- generators
def gen_spd(g, m):
    """SPD covariance.  Overall scale of the noise std over 8 decades (entries 1e-10 .. 1e+6),
    eigenvalue spans up to 6 decades, correlation up to 0.99 (D C D with a correlation matrix C)."""
    style = str(g.choice(["diag", "corr", "corr", "scaled-id", "repeated", "sdcorr", "sdcorr", "sdcorr"]))
    gscale = float(g.choice([1.0, 1.0, 1.0, 1e-5, 1e-4, 1e-3, 1e-2, 1e2, 1e3]))
    span = g.choice([0, 1, 2, 3])
    ev = gscale ** 2 * 10.0 ** g.uniform(-span, span, size=m)
    if style == "scaled-id":
        ev[:] = ev[0]
    if style == "repeated" and m > 1:
        ev[1] = ev[0] = ev.min()
    if style in ("diag", "scaled-id"):
        s = np.diag(ev)
    elif style == "sdcorr":
        sd = gscale * 10.0 ** g.uniform(-0.5, 0.5, size=m)
        rho = float(g.choice([0.3, 0.6, 0.9, 0.99]))
        kind = str(g.choice(["equi", "ar1", "random"]))
        if kind == "equi":
            c = (1.0 - rho) * np.eye(m) + rho * np.ones((m, m))
        elif kind == "ar1":
            idx = np.arange(m)
            c = rho ** np.abs(idx[:, None] - idx[None, :])
        else:
            a = g.normal(size=(m, m + 2))
            c0 = a @ a.T
            d0 = np.sqrt(np.diag(c0))
            c = rho * (c0 / d0[:, None] / d0[None, :]) + (1.0 - rho) * np.eye(m)
        s = sd[:, None] * c * sd[None, :]
        s = (s + s.T) / 2.0
        style = f"sdcorr-{kind}"
    else:
        q, _ = np.linalg.qr(g.normal(size=(m, m)))
        s = q @ np.diag(ev) @ q.T
        s = (s + s.T) / 2.0
    return s, str(style), ev


def gen_case(rng, tier):
    """one database + covariance + queries, everything as python floats (JSON-exact)"""
    g = np.random.default_rng(rng.getrandbits(64))
    if tier == "quick":
        n = int(g.choice([1, 2, 3, int(g.integers(4, 30)), int(g.integers(30, 120)), int(g.integers(120, 301))]))
    else:
        n = int(g.choice([1, 2, int(g.integers(3, 30)), int(g.integers(30, 300)), int(g.integers(30, 300)),
                          int(g.integers(300, 1500)) if g.random() < 0.7 else int(g.integers(1500, 5001))]))
    m = int(g.integers(1, 11))
    s_o, sstyle, ev = gen_spd(g, m)
    sd = np.sqrt(np.diag(s_o))
    ystyle = str(g.choice(["cloud", "cloud", "grid", "dups", "wide"]))
    if ystyle == "grid":
        y = g.integers(-3, 4, size=(n, m)).astype(float) * sd
    elif ystyle == "wide":
        y = g.normal(size=(n, m)) * sd * 30.0 + g.normal(size=m) * 100.0
    else:
        y = g.normal(size=(n, m)) * sd * float(g.choice([0.5, 2.0, 5.0])) + g.normal(size=m) * sd
    if ystyle == "dups" and n > 1:
        src = g.integers(0, n, size=n)
        mask = g.random(n) < 0.4
        y[mask] = y[src[mask]]
    xstyle = str(g.choice(["normal", "normal", "const", "ints", "lin", "offset", "bigconst", "bigoffset", "bigoffset"]))
    if xstyle == "const":
        x = np.full(n, float(g.choice([0.0, 1.0, -2.5, 273.15])))
    elif xstyle == "bigconst":          # posterior spread must be (numerically) zero
        x = np.full(n, float(g.choice([101325.0, -5.0e6, 1.0e8])))
    elif xstyle == "bigoffset":         # spread far below the magnitude (pressure in Pa, mK on top of K)
        off, spr = [(101325.0, 1e-3), (1.0e8, 1e-2), (-273.15e3, 1e-4), (250.0, 1e-6)][int(g.integers(0, 4))]
        x = off + spr * (y[:, 0] / sd[0] * 0.7 + g.normal(size=n) * 0.3)
    elif xstyle == "ints":
        x = g.integers(-2, 3, size=n).astype(float)
    elif xstyle == "lin":
        x = y[:, 0] / sd[0] * 0.7 + g.normal(size=n) * 0.1
    elif xstyle == "offset":
        x = 1000.0 + g.normal(size=n)
    else:
        x = g.normal(size=n) * float(g.choice([1e-3, 1.0, 50.0]))
    # observations
    w_, v_ = np.linalg.eigh(s_o)
    pc = v_[:, 0]
    lam_min, lam_max = float(w_[0]), float(w_[-1])
    proj = (y - y.mean(axis=0)) @ pc
    queries = []
    kinds = ["entry", "entry", "near", "near", "mean", "edge", "edge", "far", "midfar"]
    for _ in range(int(g.integers(3, 7))):
        kind = str(g.choice(kinds))
        k = int(g.integers(0, n))
        if kind == "entry":
            yo = y[k].copy()
        elif kind == "near":
            yo = y[k] + g.normal(size=m) * sd * float(g.choice([0.01, 0.3, 1.0, 3.0]))
        elif kind == "mean":
            yo = y.mean(axis=0) + g.normal(size=m) * sd * 0.1
        elif kind == "edge":
            k = int(np.argmin(proj)) if g.random() < 0.5 else int(np.argmax(proj))
            sign = -1.0 if k == int(np.argmin(proj)) else 1.0
            yo = y[k] + sign * pc * math.sqrt(lam_min) * float(g.choice([0.0, 0.5, 1.0, 1.5, 4.0, 40.0]))
        elif kind == "far":
            yo = y[k] + float(g.choice([1e6, -1e6])) * (1.0 + np.abs(y[k])) if g.random() < 0.5 else y[k] + 1e4 * math.sqrt(lam_max) * pc
        else:  # midfar: weights tiny but maybe non-zero
            d = g.normal(size=m)
            d /= np.linalg.norm(d)
            yo = y[k] + d * math.sqrt(lam_min) * float(g.choice([12.0, 25.0, 38.0, 45.0]))
        x2 = float(g.choice([-1.0, -1.0, 0.0, 1e-6, 0.1, 0.5, 1.0, 2.0, 2.5, 8.0, 10.0, 50.0, 1e3, 1e6,
                             float(10.0 ** g.uniform(-3, 3))]))
        queries.append({"kind": kind, "y_obs": [float(v) for v in yo], "x2_max": x2})
    # always: a zero-width window on an exact entry
    queries.append({"kind": "entry", "y_obs": [float(v) for v in y[int(g.integers(0, n))]], "x2_max": 0.0})
    # always: one observation at a controlled chi-square distance d^2 from its NEAREST entry, sweeping the underflow
    # band of the weights (total weight 1e-290 .. subnormal .. 0: d = 36 .. 39 noise standard deviations).  Going
    # outward from the extreme entry along an eigenvector v_j makes that entry the nearest one, at chi2 = d^2 exactly.
    for _ in range(2):
        j = int(g.integers(0, m))
        pj = y @ v_[:, j]
        k = int(np.argmax(pj))
        dist = float(g.uniform(36.0, 39.0)) if g.random() < 0.85 else float(g.uniform(30.0, 45.0))
        yo = y[k] + v_[:, j] * math.sqrt(float(w_[j])) * dist
        queries.append({"kind": "band", "y_obs": [float(v) for v in yo],
                        "x2_max": float(g.choice([-1.0, -1.0, 1e3, 2e3, 1e6]))})
    taus = sorted({0.0, 1.0, 0.5, 0.01, 0.99} | {float(t) for t in g.random(int(g.integers(0, 5)))})
    perm = [int(i) for i in g.permutation(n)] if g.random() < 0.8 else list(range(n))[::-1]
    return {"op": "bmci", "meta": {"n": n, "m": m, "s": sstyle, "y": ystyle, "x": xstyle},
            "y": [[float(v) for v in row] for row in y], "x": [float(v) for v in x],
            "s_o": [[float(v) for v in row] for row in s_o], "queries": queries, "taus": taus, "perm": perm}


# ---------------------------------------------------------------- the real code
class Real:
    """typhon's BMCI on a database, plus the permutation its constructor applied
    (recovered through the public API: a twin object whose x is 0..n-1)."""

    def __init__(self, y, x, s_o):
        from typhon.retrieval.bmci.bmci import BMCI
        self.b = BMCI(y.copy(), x.copy(), s_o.copy())
        twin = BMCI(y.copy(), np.arange(len(x), dtype=float), s_o.copy())
        self.order = twin.x.astype(int)            # sorted position k holds original entry order[k]
        self.n = len(x)

    def weights_captured(self, y_obs, x2_max):
        """weights() with the arguments of its np.searchsorted calls recorded by wrapping the
        module-level name `np` of typhon.retrieval.bmci.bmci from outside"""
        mod = sys.modules[type(self.b).__module__]
        log = []

        class NpProxy:
            def __getattr__(self, name):
                return getattr(np, name)

            @staticmethod
            def searchsorted(a, v, side="left", **kw):
                log.append((str(side), v))
                return np.searchsorted(a, v, side=side, **kw)

        saved = mod.np
        mod.np = NpProxy()
        try:
            res = self.b.weights(y_obs, x2_max)
        finally:
            mod.np = saved
        return res, log

    def query(self, y_obs, x2_max, taus, other=None):
        """all public entry points for one observation.  predict / predict_quantiles are called
        with STACKED observations [other, y_obs] and the row of y_obs is taken."""
        b = self.b
        out = {}
        (il, iu, ws), log = self.weights_captured(y_obs, x2_max)
        out["il"], out["iu"], out["ws"] = int(il), int(iu), np.asarray(ws, dtype=float).ravel()
        lefts = [v for sd_, v in log if sd_ == "left"]
        rights = [v for sd_, v in log if sd_ == "right"]
        out["bounds"] = (lefts[0], rights[0]) if (len(log) == 2 and len(lefts) == 1 and len(rights) == 1) else None
        stack = y_obs.reshape(1, -1) if other is None else np.vstack([other.reshape(1, -1), y_obs.reshape(1, -1)])
        xs, sg = b.predict(stack, x2_max)
        if np.shape(xs) != (stack.shape[0],) or np.shape(sg) != (stack.shape[0],):
            raise ValueError(f"predict returned shapes {np.shape(xs)}, {np.shape(sg)} for {stack.shape[0]} observations")
        out["mean"], out["sigma"] = float(xs[-1]), float(sg[-1])
        cx, cc = b.cdf(y_obs.copy(), x2_max)
        out["cdf_x"] = np.asarray(cx, dtype=float).ravel()
        out["cdf_nan"] = isnan(cc) and np.ndim(cc) == 0
        out["cdf_c"] = None if out["cdf_nan"] else np.asarray(cc, dtype=float).ravel()
        q = np.asarray(b.predict_quantiles(stack, np.asarray(taus), x2_max), dtype=float)
        if q.shape != (stack.shape[0], len(taus)):
            raise ValueError(f"predict_quantiles returned shape {q.shape} for {stack.shape[0]} observations x {len(taus)} quantiles")
        out["q"] = q[-1].ravel()
        return out

    def bounds_inputs(self, y_obs, x2_max):
        """s_l, s_u exactly as __find_hits computes them, from public attributes"""
        b = self.b
        dy = (y_obs - b.y_mean).ravel()
        y_proj = np.dot(b.pc1, dy)
        tol = 4 * b.m * np.finfo(float).eps * np.sum(np.abs(b.pc1 * dy))
        s_l = y_proj - np.sqrt(2.0 * x2_max / b.pc1_e) - tol
        s_u = y_proj + np.sqrt(2.0 * x2_max / b.pc1_e) + tol
        return y_proj, s_l, s_u


def exc_name(e):
    return type(e).__name__


# ---------------------------------------------------------------- one case
def run_case(ck, case, use_model=True):
    y = np.array(case["y"], dtype=float).reshape(len(case["x"]), -1)
    x = np.array(case["x"], dtype=float)
    s_o = np.array(case["s_o"], dtype=float)
    taus = list(case["taus"])
    n, m = y.shape
    meta = case.get("meta", {})

    def sub(qi):
        c = dict(case)
        c["queries"] = [case["queries"][qi]]
        return c

    try:
        real = Real(y, x, s_o)
        perm = np.array(case.get("perm") or list(range(n)), dtype=int)
        real_p = Real(y[perm], x[perm], s_o)
    except Exception as e:
        ck.violation("constructor-raises", f"BMCI(y, x, s_o) raised {exc_name(e)}: {e}", case)
        return
    orc = Oracle(y, x, s_o)
    b = real.b
    proj_c = np.asarray(b.pc1_proj)
    is_complex = bool(np.any(np.imag(proj_c) != 0) or np.imag(b.pc1_e) != 0)
    xsorted = np.asarray(b.x, dtype=float)
    R = float(x.max() - x.min())
    xabs_all = float(np.max(np.abs(x))) or 1.0
    model_lines, model_expect = [], []
    ck.count("databases")
    if is_complex:
        ck.count("databases with complex eigen-decomposition (imaginary parts != 0)")
    # the constructor's eigenpair against an independent symmetric eigen-decomposition (diagnostic of the
    # mechanism "eigenvector of the smallest eigenvalue"; any unit eigenpair gives a sound window)
    lam_all, _ = np.linalg.eigh(s_o)
    lam_min, lam_max = float(lam_all[0]), float(lam_all[-1])
    cond = lam_max / lam_min
    pc1 = np.asarray(b.pc1)
    lam_code = 1.0 / complex(b.pc1_e)
    resid = float(np.max(np.abs(s_o @ pc1 - lam_min * pc1)))
    if abs(lam_code - lam_min) > (1e-6 + 1e-12 * cond) * lam_min or abs(float(np.linalg.norm(pc1)) - 1.0) > 1e-9 \
            or resid > (1e-6 + 1e-12 * cond) * lam_max:
        ck.disagree(f"constructor: (1/pc1_e, pc1) = ({lam_code!r}, |pc1|={float(np.linalg.norm(pc1))!r}) is not a unit eigenpair of the "
                    f"smallest eigenvalue {lam_min!r} of s_o (residual {resid:.3g})", dict(case, queries=case["queries"][:1]))
    Yall = [np.array(q_["y_obs"], dtype=float) for q_ in case["queries"]]

    for qi, q in enumerate(case["queries"]):
        y_obs = np.array(q["y_obs"], dtype=float)
        x2 = float(q["x2_max"])
        restricted = x2 >= 0.0
        c1 = sub(qi)
        other = Yall[(qi + 1) % len(Yall)] if len(Yall) > 1 else None
        try:
            ro = real.query(y_obs, x2, taus, other)
        except Exception as e:
            ck.violation("raises", f"{q['kind']} x2_max={x2}: BMCI raised {exc_name(e)}: {e} (must be a number or NaN)", c1)
            continue
        il, iu = ro["il"], ro["iu"]
        chi2, w_o, delta = orc.weights(y_obs)                 # original order
        chi2s, w_os, deltas = chi2[real.order], w_o[real.order], delta[real.order]   # sorted order of the real object
        inwin = np.zeros(n, dtype=bool)
        inwin[il:iu] = True
        chi2min_win = float(chi2s[inwin].min()) if inwin.any() else math.inf
        state = "weight" if chi2min_win < 1400 else ("none" if chi2min_win > 1600 else "borderline")
        nontrivial = (iu - il) > 1 and state == "weight"
        ck.case(key=(json.dumps(case["meta"], sort_keys=True), tuple(q["y_obs"]), x2) if nontrivial else None,
                kind=f"{q['kind']}/{'none' if not restricted else ('zero' if x2 == 0 else ('small' if x2 <= 2.5 else 'large'))}/{state}",
                sample={"n": n, "m": m, "kind": q["kind"], "x2_max": x2, "window": [il, iu], "mean": ro["mean"], "sigma": ro["sigma"]})
        if is_complex:
            ck.count("complex-eig")
        wide = bool(iu - il == n)
        # bounds handed to searchsorted by the real code (captured) vs the documented formula (diagnostic only:
        # any window that is sound w.r.t. the property is accepted)
        yp_doc, sl_doc, su_doc = real.bounds_inputs(y_obs, x2) if restricted else (0.0, 0.0, 0.0)
        if restricted and ro["bounds"] is not None:
            sl_real, su_real = ro["bounds"]
            scale_b = max(abs(complex(sl_doc)), abs(complex(su_doc)), 1e-300)
            if abs(complex(sl_real) - complex(sl_doc)) > 1e-12 * scale_b or abs(complex(su_real) - complex(su_doc)) > 1e-12 * scale_b:
                ck.count("window bounds differ from y_proj -/+ (sqrt(2 x2_max/pc1_e) + tol) (diagnostic; accepted when sound)")
        else:
            sl_real, su_real = sl_doc, su_doc
            if restricted:
                ck.count("searchsorted calls not captured (bounds recomputed)")
        # ---- shape of the window
        if not (0 <= il <= iu <= n) or (not restricted and (il, iu) != (0, n)) or len(ro["ws"]) != iu - il:
            ck.violation("window-shape", f"weights() returned window ({il},{iu}) with {len(ro['ws'])} weights for n={n}", c1)
            continue
        # ---- predict / cdf / quantiles against the weights that weights() itself reports (longdouble holds subnormal
        #      doubles exactly): a number equal to the weighted statistics whenever some weight is non-zero, NaN exactly
        #      when all vanish -- also where the total weight is subnormal (the band before total underflow)
        ws_r = ro["ws"]
        xwin = xsorted[il:iu]
        if not np.any(ws_r > 0):
            ck.count("reported weights all zero / empty window")
            if not (math.isnan(ro["mean"]) and math.isnan(ro["sigma"]) and ro["cdf_nan"] and np.all(np.isnan(ro["q"]))):
                ck.violation("no-weight-not-nan", f"x2_max={x2}: weights() reports no non-zero weight but predict={ro['mean']},{ro['sigma']} "
                                                  f"cdf_nan={ro['cdf_nan']} quantiles={ro['q'][:3]}", c1)
        else:
            wl = ws_r.astype(LD)
            cl = wl.sum()
            cf = float(cl)
            if cf < 1e-290:
                ck.count("reported total weight below 1e-290" + (" (subnormal)" if cf < 2.3e-308 else ""))
            if not (math.isfinite(ro["mean"]) and math.isfinite(ro["sigma"])) or ro["cdf_nan"] or not np.all(np.isfinite(ro["q"])):
                ck.violation("nan-with-weight", f"x2_max={x2}: weights() reports non-zero weights (total {cf:.4g}) but predict={ro['mean']},{ro['sigma']} "
                                                f"cdf_nan={ro['cdf_nan']} quantiles={ro['q'][:3]} (must be the weighted statistics, finite)", c1)
                continue
            xl = xwin.astype(LD)
            mref = float((wl * xl).sum() / cl)
            vref = float((wl * (xl - (wl * xl).sum() / cl) ** 2).sum() / cl)
            kk = iu - il
            scale_r = float(np.max(np.abs(xwin))) or 1.0
            rw_r = float(xwin.max() - xwin.min())
            # products x*w of subnormal weights are rounded to multiples of 2^-1074 (absolute), then divided by c
            subn = 8 * kk * 2.0 ** -1074 / cf
            dm_r = 8 * kk * EPS * scale_r
            tol_m = 1e-9 * scale_r + subn
            tol_v = 1e-6 * vref + dm_r * dm_r + subn + 2 * subn * rw_r + subn * subn
            if abs(ro["mean"] - mref) > tol_m or abs(ro["sigma"] ** 2 - vref) > tol_v or ro["sigma"] < 0:
                ck.violation("formula-reported-weights", f"x2_max={x2}: predict=({ro['mean']!r},{ro['sigma']!r}) but the weights reported by weights() "
                                                         f"(total {cf:.4g}) give mean {mref!r}, std {math.sqrt(vref)!r}", c1)
        # ---- pruning soundness, entry by entry
        if restricted:
            out_idx = np.where(~inwin)[0]
            slack = x2 - chi2s[out_idx].astype(float)
            bad = out_idx[(slack >= 0) & (slack >= 1e-9 * x2 + deltas[out_idx])]
            n_grey = int(np.sum((chi2s[out_idx].astype(float) > x2) & (chi2s[out_idx].astype(float) <= 2 * x2)))
            if n_grey:
                ck.count("excluded entries with x2_max < chi2 <= 2 x2_max (allowed by the property, not expected from the documented radius)", n_grey)
            if len(bad):
                k = int(bad[0])
                yp, sl, su = yp_doc, sl_real, su_real
                near = abs(complex(proj_c[k]) - complex(yp)) <= 256 * EPS * max(1.0, float(np.max(np.abs(proj_c))))
                inside = lexkey(sl) <= lexkey(proj_c[k]) <= lexkey(su)
                sig = "window-spec" if inside else (SIG_ROUNDING if (x2 == 0.0 and float(chi2s[k]) == 0.0 and near) else "pruning-unsound")
                ck.violation(sig, f"x2_max={x2}: window ({il},{iu}) leaves out sorted entry {k} (original {int(real.order[k])}) "
                                  f"whose chi2={float(chi2s[k]):.6g} does not exceed x2_max; its projection {complex(proj_c[k]).real!r}, "
                                  f"y_proj {complex(yp).real!r}", c1)
        # ---- NaN rather than exception / arbitrary number
        if state == "none":
            if not (math.isnan(ro["mean"]) and math.isnan(ro["sigma"]) and ro["cdf_nan"] and np.all(np.isnan(ro["q"]))):
                ck.violation("no-weight-not-nan", f"no entry of the window has weight (min chi2 {chi2min_win:.4g}) but predict={ro['mean']},{ro['sigma']} "
                                                  f"cdf_nan={ro['cdf_nan']} quantiles={ro['q'][:3]}", c1)
        elif state == "weight":
            if math.isnan(ro["mean"]) or math.isnan(ro["sigma"]) or ro["cdf_nan"] or np.any(np.isnan(ro["q"])):
                ck.violation("nan-with-weight", f"window has weight (min chi2 {chi2min_win:.4g}) but predict={ro['mean']},{ro['sigma']} "
                                                f"cdf_nan={ro['cdf_nan']} quantiles={ro['q'][:3]}", c1)
                continue
            relevant = w_os / w_os[inwin].sum() > 1e-13
            eps_w = float(np.max(deltas[relevant & inwin])) / 2 if (relevant & inwin).any() else 0.0
            xw = xsorted[il:iu]
            xabs = float(np.max(np.abs(xw))) or 1.0
            Rw = float(xw.max() - xw.min())
            wellcond = eps_w < 1e-4 and float(w_os[inwin].sum()) > 1e-280
            if not wellcond:
                ck.count("ill-conditioned (formula comparison skipped)")
            # ---- the formula on the window, and on the whole database when unrestricted
            st = Oracle.stats(w_os, xsorted, np.where(inwin)[0])
            if not ro["sigma"] >= 0.0:
                ck.violation("formula", f"x2_max={x2}: predict returned a negative standard deviation {ro['sigma']!r}", c1)
            # rounding floor of the two-pass variance: the mean carries an error of <= ~n eps |x|, which enters sigma
            # in quadrature; everything else is relative to the SPREAD, not to |x|
            dm = 8 * max(iu - il, 1) * EPS * xabs
            if wellcond and st:
                tol_m = 4 * eps_w * Rw + 1e-9 * xabs
                tol_v = 8 * eps_w * Rw * Rw + 1e-6 * st[1] + dm * dm
                if abs(ro["mean"] - st[0]) > tol_m or abs(ro["sigma"] ** 2 - st[1]) > tol_v or ro["sigma"] < 0:
                    ck.violation("formula", f"x2_max={x2}: predict=({ro['mean']!r},{ro['sigma']!r}) but sum(w x)/sum(w)={st[0]!r}, "
                                            f"sqrt(sum(w (x-mean)^2)/sum(w))={math.sqrt(st[1])!r} over the {'whole database' if wide else 'window'}", c1)
                # ---- pruned estimate vs the unpruned formula over the WHOLE database
                full = Oracle.stats(w_o, x)
                if full and restricted:
                    share = float(w_os[~inwin].sum() / w_os.sum())
                    eps_all = float(np.max(deltas[relevant])) / 2
                    if eps_all < 1e-4:
                        dma = 8 * n * EPS * xabs_all
                        if abs(ro["mean"] - full[0]) > share * R + 4 * eps_all * R + 1e-9 * xabs_all or \
                                abs(ro["sigma"] ** 2 - full[1]) > 2 * share * R * R + 8 * eps_all * R * R + 1e-6 * full[1] + dma * dma:
                            ck.violation("pruned-estimate", f"x2_max={x2}: pruned predict=({ro['mean']!r},{ro['sigma']!r}) differs from the unpruned "
                                                            f"({full[0]!r},{math.sqrt(full[1])!r}) by more than the excluded weight share {share:.3g} x range {R:.3g}", c1)
            # ---- cdf
            cx, cc = ro["cdf_x"], ro["cdf_c"]
            if len(cx) != iu - il or len(cc) != iu - il or sorted(xw.tolist()) != cx.tolist():
                ck.violation("cdf-support", f"x2_max={x2}: cdf abscissae are not the window's x sorted ({len(cx)} values for window of {iu - il})", c1)
            elif np.any(np.diff(cc) < 0) or abs(cc[-1] - 1.0) > 1e-12 or cc[0] < 0:
                ck.violation("cdf-shape", f"x2_max={x2}: cdf not non-decreasing from >=0 to 1: first {cc[:3]}, last {cc[-3:]}", c1)
            elif wellcond:
                Wl = w_os[inwin].sum()
                xs_l = xw.astype(float)
                wl = w_os[inwin]
                for a, c in ecdf_groups(cx, cc).items():
                    want = float(wl[xs_l <= a].sum() / Wl)
                    if abs(c - want) > 4 * eps_w + 1e-9:
                        ck.violation("cdf-value", f"x2_max={x2}: cdf({a!r})={c!r}, weighted share of x<=that is {want!r}", c1)
                        break
            # ---- quantiles
            qv = ro["q"]
            slackq = 1e-12 * xabs
            if np.any(np.diff(qv) < -slackq) or qv.min() < xw.min() - slackq or qv.max() > xw.max() + slackq:
                ck.violation("quantiles", f"x2_max={x2}: quantiles {qv.tolist()} for taus {taus} not non-decreasing within [{xw.min()!r},{xw.max()!r}]", c1)
            elif wellcond:
                qlo, qhi = oracle_quantiles(xw, w_os[inwin], taus, 1e-10 + 4 * eps_w)
                for t, lo_, hi_, got in zip(taus, qlo, qhi, qv.tolist()):
                    if not (lo_ - 1e-9 * xabs - 1e-9 * Rw <= got <= hi_ + 1e-9 * xabs + 1e-9 * Rw):
                        ck.violation("quantile-value", f"x2_max={x2}: quantile tau={t}: {got!r}, but the inverse of the weighted ecdf "
                                                       f"(np.interp on the cumulative weights over the x-sorted window) lies in [{lo_!r},{hi_!r}]", c1)
                        break
            # ---- permutation invariance: the real code on the permuted database
            try:
                rp = real_p.query(y_obs, x2, taus, other)
            except Exception as e:
                ck.violation("raises", f"permuted database, x2_max={x2}: BMCI raised {exc_name(e)}: {e}", c1)
                rp = None
            if rp is not None and wellcond:
                set_o = sorted(int(i) for i in real.order[il:iu])
                set_p = sorted(int(perm[i]) for i in real_p.order[rp["il"]:rp["iu"]])
                if set_o == set_p:
                    extra_m = extra_v = 0.0
                else:   # entries on the rim of the window may flip with the rounding of y_mean: bounded by their share
                    diff = np.array(sorted(set(set_o) ^ set(set_p)), dtype=int)
                    shr = float(w_o[diff].sum() / min(w_o[set_o].sum(), w_o[set_p].sum())) if len(set_p) else math.inf
                    extra_m, extra_v = shr * R, 2 * shr * R * R
                    ck.count("perm: window differs on the rim")
                bad = (math.isnan(rp["mean"]) or abs(rp["mean"] - ro["mean"]) > extra_m + 4 * eps_w * Rw + 1e-9 * xabs
                       or abs(rp["sigma"] ** 2 - ro["sigma"] ** 2) > extra_v + 8 * eps_w * Rw * Rw + 1e-6 * ro["sigma"] ** 2 + 2 * dm * dm)
                what = "predict"
                if not bad and set_o == set_p:
                    if rp["cdf_nan"]:
                        bad, what = True, "cdf (now NaN)"
                    else:
                        go, gp = ecdf_groups(cx, cc), ecdf_groups(rp["cdf_x"], rp["cdf_c"])
                        bad = sorted(go) != sorted(gp) or any(abs(go[k] - gp[k]) > 4 * eps_w + 1e-9 for k in go)
                        what = "the cdf as a function of x; predict"
                if bad:
                    sig = SIG_ROUNDING if (x2 == 0.0 and set_o != set_p) else "perm-variant"
                    ck.violation(sig, f"x2_max={x2}: permuting the database changes {what} from ({ro['mean']!r},{ro['sigma']!r}) to "
                                      f"({rp['mean']!r},{rp['sigma']!r}) (windows {'equal' if set_o == set_p else 'differ'})", c1)
        # ---- model: the same arrays, bounds and weights as exact rationals
        if use_model:
            wfull = ro["ws"] if (il, iu) == (0, n) else np.asarray(b.weights(y_obs, -1.0)[2], dtype=float).ravel()
            wmix = wfull.copy()
            wmix[il:iu] = ro["ws"]
            sl, su = (sl_real, su_real) if restricted else (0.0, 0.0)
            if is_complex or np.imag(sl) != 0 or np.imag(su) != 0:      # lexicographic order of complex numbers -> order-preserving integers
                keys = sorted({lexkey(v) for v in proj_c} | {lexkey(sl), lexkey(su)})
                rk = {k: i for i, k in enumerate(keys)}
                pj = [Fraction(rk[lexkey(v)]) for v in proj_c]
                slf, suf = Fraction(rk[lexkey(sl)]), Fraction(rk[lexkey(su)])
            else:
                pj = [F(np.real(v)) for v in proj_c]
                slf, suf = F(np.real(sl)), F(np.real(su))
            rows = [(pj[k], F(xsorted[k]), F(chi2s[k]), F(wmix[k])) for k in range(n)]
            r = "1" if restricted else "0"
            qargs = f"{r} {fs(slf)} {fs(suf)}"
            c_float = float(ro["ws"].sum())
            d = 1e-10
            tl = [max(0.0, t - d) for t in taus]
            th = [min(1.0, t + d) for t in taus]
            ops = ["load %d %s %s" % (n, " ".join(fs(v) for row in rows for v in row), " ".join(str(int(i)) for i in b.x_sorted_inds)),
                   "window " + qargs, "predict " + qargs, "cdf " + qargs,
                   "quant " + qargs + " " + " ".join(fs(F(t)) for t in taus),
                   "quant " + qargs + " " + " ".join(fs(F(t)) for t in tl),
                   "quant " + qargs + " " + " ".join(fs(F(t)) for t in th)]
            # and the model's own constructor on the database in ORIGINAL order
            inv = np.empty(n, dtype=int)
            inv[real.order] = np.arange(n)
            ops.append("rows " + " ".join(fs(v) for i in range(n) for v in rows[inv[i]]))
            ops += ["window " + qargs, "predict " + qargs, "cdf " + qargs]
            # entries outside the MODEL's window whose chi2 (oracle, as double) is <= x2_max: must be none
            thr = F(x2 * (1 - 1e-9)) if restricted else Fraction(0)
            ops.append(f"excl {qargs} {fs(thr)}")
            ops.append("windowbin " + qargs)
            n_excl_py = int(np.sum((chi2s[~inwin].astype(float) <= float(thr)))) if restricted else 0
            model_lines.append(ops)
            model_expect.append((qi, ro, c_float, xsorted[il:iu], n_excl_py))

    if use_model and model_lines:
        flat = [l for ops in model_lines for l in ops]
        out = ck.driver(flat)
        pos = 0
        for ops, (qi, ro, c_float, xw, n_excl_py) in zip(model_lines, model_expect):
            o = out[pos:pos + len(ops)]
            pos += len(ops)
            compare_model(ck, sub(qi), o, ro, c_float, xw, taus)
            if o[12] != f"{ro['il']} {ro['iu']}":
                ck.disagree(f"x2_max={case['queries'][qi]['x2_max']}: window by bisection, model {o[12]} vs code {ro['il']} {ro['iu']}", sub(qi))
            if o[7].split()[0] == "ok" and o[8] == f"{ro['il']} {ro['iu']}" and o[11] != str(n_excl_py):
                ck.disagree(f"x2_max={case['queries'][qi]['x2_max']}: entries left out with chi2 <= x2_max: model {o[11]} vs harness {n_excl_py}", sub(qi))


def parse_est(s):
    t = s.split()
    if t[0] == "nan":
        return None
    return Fraction(t[1]), Fraction(t[2])


def parse_cdf(s):
    t = s.split()
    if t[0] == "index-error":
        return "index-error", [], []
    k = int(t[1])
    xs = [Fraction(v) for v in t[2:2 + k]]
    if t[0] == "nan":
        return "nan", xs, []
    return "val", xs, [Fraction(v) for v in t[2 + k:2 + 2 * k]]


def parse_q(s):
    t = s.split()
    return t[0], [Fraction(v) for v in t[1:]]


def compare_model(ck, c1, o, ro, c_float, xw, taus):
    """o = driver answers to [load, window, predict, cdf, quant, quant-, quant+, rows, window, predict, cdf, excl, windowbin]"""
    x2 = c1["queries"][0]["x2_max"]
    tag = f"x2_max={x2}"
    if o[0] != "ok":
        ck.disagree(f"{tag}: arrays of the real object violate the constructor invariant (sorted projections / x_sorted_inds a sorting permutation): {o[0]}", c1)
        return
    numeric = c_float > 1e-290
    xabs = (float(np.max(np.abs(xw))) if len(xw) else 0.0) or 1.0
    for name, wi, pi, ci in (("load", 1, 2, 3), ("mk", 8, 9, 10)):
        if o[7].split()[0] != "ok":
            ck.disagree(f"{tag}: model rejected rows: {o[7]}", c1)
            return
        if o[wi] != f"{ro['il']} {ro['iu']}":
            ck.disagree(f"{tag}: window model[{name}] {o[wi]} vs code {ro['il']} {ro['iu']}", c1)
            continue
        est = parse_est(o[pi])
        if (est is None) != math.isnan(ro["mean"]) or (est is None) != math.isnan(ro["sigma"]):
            ck.disagree(f"{tag}: predict NaN-ness model[{name}] {o[pi][:40]} vs code {ro['mean']},{ro['sigma']}", c1)
        elif est is not None and numeric:
            dm = 8 * max(len(xw), 1) * EPS * xabs       # rounding floor of the mean, enters sigma in quadrature
            if abs(float(est[0]) - ro["mean"]) > 1e-9 * xabs or abs(float(est[1]) - ro["sigma"] ** 2) > 1e-9 * float(est[1]) + dm * dm \
                    or ro["sigma"] < 0:
                ck.disagree(f"{tag}: predict model[{name}] ({float(est[0])!r},{math.sqrt(float(est[1]))!r}) vs code ({ro['mean']!r},{ro['sigma']!r})", c1)
        kind, xs, cum = parse_cdf(o[ci])
        if kind == "index-error":
            ck.disagree(f"{tag}: cdf model[{name}] index-error", c1)
            continue
        if (kind == "nan") != ro["cdf_nan"]:
            ck.disagree(f"{tag}: cdf NaN-ness model[{name}] {kind} vs code nan={ro['cdf_nan']}", c1)
            continue
        if name == "load":
            if [float(v) for v in xs] != ro["cdf_x"].tolist():
                ck.disagree(f"{tag}: cdf abscissae model[load] {[float(v) for v in xs][:5]} vs code {ro['cdf_x'][:5].tolist()}", c1)
            elif kind == "val" and numeric and any(abs(float(a) - b_) > 1e-9 for a, b_ in zip(cum, ro["cdf_c"])):
                ck.disagree(f"{tag}: cdf values model[load] vs code differ", c1)
        else:
            if sorted(float(v) for v in xs) != sorted(ro["cdf_x"].tolist()):
                ck.disagree(f"{tag}: cdf abscissae model[mk] vs code differ as multisets", c1)
            elif kind == "val" and numeric:
                gm, gc = ecdf_groups(xs, cum), ecdf_groups(ro["cdf_x"], ro["cdf_c"])
                if any(abs(gm[k] - gc[k]) > 1e-9 for k in gc):
                    ck.disagree(f"{tag}: cdf as a function of x model[mk] vs code differ", c1)
    # quantiles (load mode only: depends on the order of ties in x)
    k0, q0 = parse_q(o[4])
    k1, q1 = parse_q(o[5])
    k2, q2 = parse_q(o[6])
    code_nan = bool(np.all(np.isnan(ro["q"])))
    if k0 not in ("val", "nan") or (k0 == "nan") != code_nan:
        ck.disagree(f"{tag}: quantiles model {k0} vs code {ro['q'][:4].tolist()}", c1)
    elif k0 == "val" and numeric:
        for t, lo, mid, hi, got in zip(taus, q1, q0, q2, ro["q"].tolist()):
            if not (float(lo) - 1e-9 * xabs <= got <= float(hi) + 1e-9 * xabs):
                ck.disagree(f"{tag}: quantile tau={t}: code {got!r}, model {float(mid)!r} (bracket [{float(lo)!r},{float(hi)!r}])", c1)
                break


# ---------------------------------------------------------------- driver of the exploration
def explore(ck, n_cases, use_model=True, tier=None):
    for _ in range(n_cases):
        case = gen_case(ck.rng, tier or ck.tier)
        run_case(ck, case, use_model)


def shrink(ck_factory, v):
    """greedy row deletion keeping the same signature (smaller replay files)"""
    case = v["case"]
    n = len(case["x"])
    if n <= 4:
        return v
    best = v
    keep = list(range(n))
    chunk = max(1, n // 2)
    budget = 60
    while chunk >= 1 and budget > 0:
        i = 0
        progressed = False
        while i < len(keep) and budget > 0 and len(keep) > 1:
            trial = keep[:i] + keep[i + chunk:]
            if not trial:
                i += chunk
                continue
            c = dict(case)
            c["y"] = [case["y"][k] for k in trial]
            c["x"] = [case["x"][k] for k in trial]
            c["perm"] = None
            c["meta"] = dict(case.get("meta", {}), n=len(trial), shrunk=True)
            ck2 = ck_factory()
            budget -= 1
            try:
                run_case(ck2, c, use_model=False)
            except Exception:
                ck2.violations = []
            hit = [w for w in ck2.violations if w["signature"] == v["signature"]]
            if hit:
                keep, best, progressed = trial, hit[0], True
                case_now = hit[0]["case"]
            else:
                i += chunk
        if not progressed or chunk == 1:
            chunk //= 2
    return best


def _quiet_check():
    return vlib.Check(PROP, **{k: v for k, v in CHECK_ARGS.items() if k in ("pkg", "props", "driver")})


def main():
    ck = vlib.Check(PROP, **CHECK_ARGS)
    ck.rule = ("random databases (1..300 entries quick, ..5000 thorough; 1..10 channels; cloud/grid/duplicated/wide y; normal/constant/"
               "integer/linear/offset x), SPD covariances (diagonal, Q diag Q^T, scaled identity, repeated smallest eigenvalue; eigenvalues "
               "spanning up to 6 decades), observations = a database entry / near / mean / beyond the edge along pc1 / far / mid-far, "
               "x2_max in {-1, 0, 1e-6 .. 1e6}, one permutation per database; non-trivial = distinct (database, observation, x2_max) "
               "whose window holds > 1 entry with non-zero weight")
    ck.anchors([("typhon/retrieval/bmci/bmci.py", "BMCI.__init__"), ("typhon/retrieval/bmci/bmci.py", "BMCI.__find_hits"),
                ("typhon/retrieval/bmci/bmci.py", "BMCI.__gauss_prob"), ("typhon/retrieval/bmci/bmci.py", "BMCI.weights"),
                ("typhon/retrieval/bmci/bmci.py", "BMCI.predict"), ("typhon/retrieval/bmci/bmci.py", "BMCI.cdf"),
                ("typhon/retrieval/bmci/bmci.py", "BMCI.predict_quantiles")])
    ck.build()
    use_model = os.path.exists(os.path.join(ck.pkgdir, ".lake/build/bin/drv_c18"))
    old = np.seterr(all="ignore")
    try:
        for name, c in vlib.load_corpus(PROP):
            run_case(ck, c, use_model)
        # after an anchor change vlib multiplies the budget by 10: cap quick so that it stays below 90 s
        explore(ck, min(ck.budget(160, 800), 700) if ck.tier == "quick" else ck.budget(160, 800), use_model)
        if ck.broken() and not ck.violations:
            explore(ck, 1500, use_model=False, tier="quick")
        if ck.violations:
            seen = {}
            for v in ck.violations:
                cur = seen.get(v["signature"])
                if cur is None or len(v["case"]["x"]) < len(cur["case"]["x"]):
                    seen[v["signature"]] = v
            for sig, v in seen.items():
                ck.violations.append(shrink(_quiet_check, v))
    finally:
        np.seterr(**old)
    ndb = ck.dist.get("databases", 0)
    ncx = ck.dist.get("databases with complex eigen-decomposition (imaginary parts != 0)", 0)
    ck.extra_cov["complex_eig"] = {"databases": ndb, "databases_with_nonzero_imaginary_parts": ncx,
                                   "queries_on_such_databases": ck.dist.get("complex-eig", 0)}
    ck.notes.append(f"numpy's eig returns complex arrays; {ncx} of {ndb} databases had non-zero imaginary parts in pc1/pc1_e/pc1_proj "
                    "(repeated smallest eigenvalue); all oracle checks are applied to them unchanged, the model gets order-preserving ranks")
    ck.finish()


def replay(path):
    obj = json.load(open(path))
    c = obj.get("case") or (obj if obj.get("op") == "bmci" else None)
    if not c:
        print(json.dumps(obj, indent=1)[:2000])
        raise SystemExit(1)
    ck = _quiet_check()
    old = np.seterr(all="ignore")
    try:
        run_case(ck, c, use_model=False)
    finally:
        np.seterr(**old)
    for v in ck.violations:
        print(f"REPRODUCED: [{v['signature']}] {v['what']}")
    raise SystemExit(1 if ck.violations else 0)
