#!/usr/bin/env python3
"""Rewrites the generated region of DESIGN.md §12.3 from known_findings.json, MANIFEST.json,
seeded/*/meta.json."""
import glob, json, os, re
ROOT = os.path.dirname(os.path.dirname(os.path.abspath(__file__)))
kf = json.load(open(os.path.join(ROOT, "known_findings.json")))
man = json.load(open(os.path.join(ROOT, "MANIFEST.json")))
out = []
out.append("**Claimed properties** (MANIFEST.json): " + ", ".join(c["property_id"] for c in man["checks"]) + ".  "
           "Not claimed yet: " + (", ".join(n["property_id"] for n in man.get("not_applicable", [])) or "none") + ".\n")
out.append("**Genuine defects repaired by `fix:` commits in /repo** (each is a minimal unguarded commit; the unedited test-suite still passes; the witness is in `corpus/` and the violation is reported again if it returns):\n")
out.append("| property | commit | what failed |\n|---|---|---|")
for e in kf:
    if e["kind"] == "fixed":
        out.append(f"| {e['property']} | {e['commit']} | {e['what'].replace('|', '/')} |")
out.append("\n**Known findings** (genuine defects recorded rather than repaired; the check prints `KNOWN-FINDING:` for exactly this signature and still reports every other violation):\n")
out.append("| property | signature | what fails | why not repaired |\n|---|---|---|---|")
for e in kf:
    if e["kind"] == "finding":
        out.append(f"| {e['property']} | {e['signature']} | {e['what'].replace('|', '/')} | {e.get('why_not_fixed', '')} |")
seeds = sorted(glob.glob(os.path.join(ROOT, "seeded", "*", "meta.json")))
if seeds:
    out.append("\n**Seeded changes** (written by fresh sub-agents that saw only the property text; `seeded/<id>/`; result of `bin/seedtest`):\n")
    out.append("| seeded change | property | what it breaks / what it needs to manifest | caught by |\n|---|---|---|---|")
    for m in seeds:
        d = json.load(open(m))
        out.append(f"| {os.path.basename(os.path.dirname(m))} | {d.get('property')} | {str(d.get('summary', '')).replace('|', '/')[:300]} — needs: {str(d.get('needs_to_manifest', '')).replace('|', '/')[:200]} | {d.get('caught_by', 'not yet run')} |")
harm = sorted(glob.glob(os.path.join(ROOT, "harmless", "*", "meta.json")))
if harm:
    out.append("\n**Behaviour-preserving rewrites** (false-alarm test; written by fresh sub-agents that saw only the property text; `harmless/<id>/` with `patch.diff`, an equivalence program `equiv.py` whose digest I confirmed to be identical on unchanged and rewritten code, `meta.json`; result of `bin/harmlesstest`: `green` = check exit 0, `tie-broken` = a proof / the translator tie broke and no failing input was found (allowed by the brief, price of the tie), `FALSE-ALARM` = a failing input was reported although behaviour is unchanged):\n")
    out.append("| rewrite | property | what was rewritten | verdict |\n|---|---|---|---|")
    for m in harm:
        d = json.load(open(m))
        out.append(f"| {os.path.basename(os.path.dirname(m))} | {d.get('property')} | {str(d.get('summary', '')).replace('|', '/').replace(chr(10), ' ')[:260]} | {d.get('verdict', 'not yet run')} |")
text = open(os.path.join(ROOT, "DESIGN.md"), encoding="utf-8").read()
new = re.sub(r"<!-- BEGIN GENERATED TABLES -->.*<!-- END GENERATED TABLES -->",
             lambda _: "<!-- BEGIN GENERATED TABLES -->\n" + "\n".join(out) + "\n<!-- END GENERATED TABLES -->", text, flags=re.S)
open(os.path.join(ROOT, "DESIGN.md"), "w", encoding="utf-8").write(new)
print("tables updated:", len([e for e in kf if e['kind'] == 'fixed']), "fixed,", len([e for e in kf if e['kind'] == 'finding']), "findings,", len(seeds), "seeded,", len(harm), "harmless")
